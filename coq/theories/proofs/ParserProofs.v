(** Soundness and completeness of the parser model against the grammar, nonterminal by nonterminal,
    in dependency order. Stated for an arbitrary environment [e], hence for every choice of deviation
    flags ([impl_flags], [doc_flags], ...). *)
From WacV Require Import Str Token Lexer Semver Ast Parser Grammar ParserComb.
From Coq Require Import Lia.
Local Open Scope nat_scope.

(** Invert [m >>= k = POk b r]. *)
Tactic Notation "binv" hyp(H) "as" ident(a) ident(r) ident(H1) :=
  apply bind_ok in H; destruct H as (a & r & H1 & H); cbv beta in H.

(** [H : parse_token e k ts = POk sp r] becomes [H : tok k ts r t] with [sp] replaced by [tsp t]. *)
Tactic Notation "tokinv" hyp(H) "as" ident(t) :=
  apply parse_token_ok in H; destruct H as (t & H & ->).

Ltac ok_inv H := inversion H; subst; clear H.

(* ------------------------------------------------------------------ bridging seplist / g_types, g_args *)

Lemma seplist_g_types d ts r x : seplist (g_type d) ts r x -> g_types d ts r x.
Proof. induction 1; econstructor; eauto. Qed.

Lemma g_types_seplist d ts r x : g_types d ts r x -> seplist (g_type d) ts r x.
Proof.
  revert ts r x.
  fix IH 4. intros ts r x H. destruct H.
  - constructor.
  - now apply sl_one.
  - eapply sl_trail; eauto.
  - eapply sl_cons; eauto.
Qed.

Lemma seplist_g_args d ts r x : seplist (g_arg d) ts r x -> g_args d ts r x.
Proof. induction 1; econstructor; eauto. Qed.

Lemma g_args_seplist d ts r x : g_args d ts r x -> seplist (g_arg d) ts r x.
Proof.
  revert ts r x.
  fix IH 4. intros ts r x H. destruct H.
  - constructor.
  - now apply sl_one.
  - eapply sl_trail; eauto.
  - eapply sl_cons; eauto.
Qed.

(* ------------------------------------------------------------------ leaves *)

Section Leaves.
Variable e : env.

Lemma parse_ident_sound ts i r : parse_ident e ts = POk i r -> g_id ts r i.
Proof. unfold parse_ident. intros H. binv H as t r1 Ht. ok_inv H. apply next_tok_ok in Ht. red. eauto. Qed.

Lemma parse_ident_complete ts i r : g_id ts r i -> parse_ident e ts = POk i r.
Proof. intros (t & Ht & ->). unfold parse_ident. now rewrite (next_tok_complete e _ _ _ _ Ht). Qed.

Lemma parse_string_sound ts s r : parse_string e ts = POk s r -> g_string ts r s.
Proof.
  unfold parse_string. intros H. binv H as t r1 Ht. apply next_tok_ok in Ht.
  destruct (strlit_of t) eqn:E; try discriminate. ok_inv H. red. eauto.
Qed.

Lemma parse_string_complete ts s r : g_string ts r s -> parse_string e ts = POk s r.
Proof. intros (t & Ht & Hs). unfold parse_string. rewrite (next_tok_complete e _ _ _ _ Ht). cbn. now rewrite Hs. Qed.

Lemma parse_package_name_sound ts p r : parse_package_name e ts = POk p r -> g_package_name ts r p.
Proof.
  unfold parse_package_name. intros H. binv H as t r1 Ht. apply next_tok_ok in Ht.
  destruct (package_name_of t) eqn:E; cbn in H; try discriminate. ok_inv H. red. eauto.
Qed.

Lemma parse_package_name_complete ts p r : g_package_name ts r p -> parse_package_name e ts = POk p r.
Proof. intros (t & Ht & Hs). unfold parse_package_name. rewrite (next_tok_complete e _ _ _ _ Ht). cbn. now rewrite Hs. Qed.

Lemma parse_package_path_sound ts p r : parse_package_path e ts = POk p r -> g_package_path ts r p.
Proof.
  unfold parse_package_path. intros H. binv H as t r1 Ht. apply next_tok_ok in Ht.
  destruct (package_path_of t) eqn:E; cbn in H; try discriminate. ok_inv H. red. eauto.
Qed.

Lemma parse_package_path_complete ts p r : g_package_path ts r p -> parse_package_path e ts = POk p r.
Proof. intros (t & Ht & Hs). unfold parse_package_path. rewrite (next_tok_complete e _ _ _ _ Ht). cbn. now rewrite Hs. Qed.

Lemma g_id_len ts r i : g_id ts r i -> length ts = S (length r).
Proof. intros (t & Ht & _). eapply tok_len; eauto. Qed.

Lemma g_id_peek ts r i : g_id ts r i -> peek_kind ts = Some TIdent.
Proof. intros (t & Ht & _). eapply tok_peek; eauto. Qed.

End Leaves.

(* ------------------------------------------------------------------ value types: soundness *)

Section TypeSound.
Variable e : env.
Let d := dv e.

Lemma peek_in_true first ts : peek_in first ts = true -> exists t r, ts = LTok t :: r /\ mem_tok (tk t) first = true.
Proof.
  unfold peek_in. destruct (peek_kind ts) as [k|] eqn:E; try discriminate.
  intros H. apply peek_kind_Some in E. destruct E as (t & r & -> & <-). eauto.
Qed.

Lemma delimited_items_ok {A} (R : drel A) until first (p : parser A) ts l r :
  (forall ts a r, p ts = POk a r -> R ts r a) ->
  delimited_items e until true first p ts = POk l r -> exists tr, seplist R ts r (l, tr) /\ next_is until r.
Proof.
  intros Hp H. unfold delimited_items, delimited in H. binv H as x r1 H0. destruct x as [items tr]. ok_inv H.
  eapply delim_loop_ok in H0; [|exact Hp]. destruct H0; eauto.
Qed.

Lemma delimited_items_many_ok {A} (R : drel A) until first (p : parser A) ts l r :
  (forall ts a r, p ts = POk a r -> R ts r a) ->
  delimited_items e until false first p ts = POk l r -> many R ts r l /\ next_is until r.
Proof.
  intros Hp H. unfold delimited_items, delimited in H. binv H as x r1 H0. destruct x as [items tr]. ok_inv H.
  eapply delim_loop_many_ok in H0; [|exact Hp]. exact H0.
Qed.

Lemma result_arg_sound (self : parser ty) ts o r :
  (forall ts t r, self ts = POk t r -> g_type d ts r t) ->
  result_arg self e ts = POk o r ->
  (exists u, tok TUnderscore ts r u /\ o = None) \/ (exists t, g_type d ts r t /\ o = Some t).
Proof.
  intros Hs. unfold result_arg. destruct (peek_kind ts) as [k|] eqn:Ek; [|intros H; now apply la_fail_not_ok in H].
  destruct (token_eqb k TUnderscore) eqn:Eu.
  - intros H. binv H as u r1 Hu. ok_inv H. apply any_tok_ok in Hu. subst. apply token_eqb_eq in Eu. subst.
    left. exists u. split; [split; [reflexivity|]|reflexivity]. cbn in Ek. now inversion Ek.
  - destruct (mem_tok k type_first); [|intros H; now apply la_fail_not_ok in H].
    intros H. binv H as t r1 Ht. ok_inv H. right. eauto.
Qed.

Definition g_result_arg : drel (option ty) := fun ts r o =>
  (exists u, tok TUnderscore ts r u /\ o = None) \/ (exists t, g_type d ts r t /\ o = Some t).

Lemma type_step_sound (self : parser ty) :
  (forall ts t r, self ts = POk t r -> g_type d ts r t) ->
  forall ts t r, type_step self e ts = POk t r -> g_type d ts r t.
Proof.
  intros Hs ts t r. unfold type_step.
  destruct ts as [|[t0| | | |] ts]; try (intros H; now apply la_fail_not_ok in H).
  destruct (prim_of_token (tk t0)) as [p|] eqn:Ep.
  { intros H; ok_inv H. eapply gt_prim; eauto. }
  revert Ep. destruct (tk t0) eqn:Ek; intros Ep; try (intros H; now apply la_fail_not_ok in H); try discriminate Ep.
  - (* ident *) intros H; ok_inv H. apply gt_id. exists t0. split; [split; auto|reflexivity].
  - (* tuple *) intros H. binv H as sp1 r1 Ho. tokinv Ho as o_.
    destruct (peek_in type_first r1) eqn:Epk; [|now apply la_fail_not_ok in H].
    binv H as tys r2 Hl. eapply delimited_items_ok in Hl; [|exact Hs]. destruct Hl as (tr & Hl & _).
    destruct tys as [|x l]; try discriminate. binv H as sp2 r3 Hc. tokinv Hc as c_. ok_inv H.
    eapply gt_tuple; eauto; try (split; auto); try discriminate. apply seplist_g_types; eauto.
  - (* list *) intros H. unfold angle1 in H. binv H as sp1 r1 Ho. tokinv Ho as o_. binv H as x r2 Hx.
    binv H as sp2 r3 Hc. tokinv Hc as c_. ok_inv H. eapply gt_list; eauto. split; auto.
  - (* option *) intros H. unfold angle1 in H. binv H as sp1 r1 Ho. tokinv Ho as o_. binv H as x r2 Hx.
    binv H as sp2 r3 Hc. tokinv Hc as c_. ok_inv H. eapply gt_option; eauto. split; auto.
  - (* result *) intros H. binv H as res r5 Hopt.
    eapply (parse_optional_ok _ _ (fun ts r x => exists r2 r3 ok err c,
        g_result_arg ts r2 ok /\ opt TComma g_result_arg r2 r3 err /\
        result_shape_ok d ok err = true /\ tok TCloseAngle r3 r c /\
        x = (ok, match err with Some x => x | None => None end, span_join (tsp t0) (tsp c)))) in Hopt.
    2:{ clear H Hopt. intros ts0 x r0 H. binv H as ok r2 Hok. apply result_arg_sound in Hok; [|exact Hs].
        binv H as err r3 Herr.
        eapply parse_optional_ok in Herr; [|intros ? ? ? Hx; apply result_arg_sound in Hx; [exact Hx|exact Hs]].
        destruct (result_shape_ok (dv e) ok err) eqn:Esh; try discriminate.
        binv H as sp2 r4 Hc. tokinv Hc as c_. ok_inv H. exists r2, r3, ok, err, c_. repeat split; auto; apply Hc. }
    destruct Hopt as [ts0|ts0 r1 r2 o x Ho (r3 & r4 & ok & err & c & Hok & Herr & Hsh & Hc & ->)].
    + ok_inv H. apply gt_result. split; auto.
    + ok_inv H. unfold result_shape_ok in Hsh.
      destruct Hok as [(u & Hu & ->)|(t1 & Ht1 & ->)];
      (destruct Herr as [ts1|ts1 r5 r6 cm oe Hcm [(u2 & Hu2 & ->)|(t2 & Ht2 & ->)]]); cbn in Hsh.
      * rewrite orb_false_r in Hsh. eapply gt_result_u; eauto. split; auto.
      * rewrite orb_false_r in Hsh. eapply gt_result_uu; eauto. split; auto.
      * eapply gt_result_err; eauto. split; auto.
      * eapply gt_result_ok; eauto. split; auto.
      * rewrite orb_false_r in Hsh. eapply gt_result_tu; eauto. split; auto.
      * eapply gt_result_both; eauto. split; auto.
  - (* borrow *) intros H. binv H as sp1 r1 Ho. tokinv Ho as o_. destruct (borrow_any_type (dv e)) eqn:Eb.
    + binv H as x r2 Hx. binv H as sp2 r3 Hc. tokinv Hc as c_. ok_inv H. apply Hs in Hx.
      destruct x; try (eapply gt_borrow_ty; eauto; [split; auto|intros ? ?; discriminate]).
      inversion Hx; subst; try discriminate. eapply gt_borrow; eauto. split; auto.
    + binv H as i r2 Hi. binv H as sp2 r3 Hc. tokinv Hc as c_. ok_inv H. apply parse_ident_sound in Hi.
      eapply gt_borrow; eauto. split; auto.
Qed.

Lemma parse_type_f_sound f : forall ts t r, parse_type_f f e ts = POk t r -> g_type d ts r t.
Proof. induction f as [|f IH]; cbn; [discriminate|]. apply type_step_sound. exact IH. Qed.

Lemma parse_type_sound ts t r : parse_type e ts = POk t r -> g_type d ts r t.
Proof. apply parse_type_f_sound. Qed.

End TypeSound.

(* ------------------------------------------------------------------ value types: completeness *)

(** Rewrite [parse_token e k ts] with a [tok] hypothesis. *)
Ltac tokc H := rewrite (parse_token_complete _ _ _ _ _ H); cbn [bind].

Section TypeComplete.
Variable e : env.
Let d := dv e.

Lemma prim_in_type_first k p : prim_of_token k = Some p -> mem_tok k type_first = true.
Proof. destruct k; cbn; intros H; try discriminate; reflexivity. Qed.

Lemma g_type_first ts r t : g_type d ts r t -> exists t0 ts', ts = LTok t0 :: ts' /\ mem_tok (tk t0) type_first = true.
Proof.
  destruct 1;
    repeat match goal with
           | H : tok _ ts _ _ |- _ => destruct H as [-> Hk]; do 2 eexists; split; [reflexivity|rewrite Hk; reflexivity]
           | H : g_id ts _ _ |- _ => destruct H as (t0 & [-> Hk] & _); do 2 eexists; split; [reflexivity|rewrite Hk; reflexivity]
           end.
  subst. do 2 eexists; split; [reflexivity|]. eapply prim_in_type_first; eauto.
Qed.

(** What may follow a type: not [<] (which would continue a bare [result]). *)
Definition type_follow (r : list lexitem) : Prop := not_next TOpenAngle r.

Lemma item_follow_type_follow until r : until <> TOpenAngle -> item_follow until r -> type_follow r.
Proof.
  intros Hu [H|H]; apply peek_kind_Some in H; destruct H as (t & r' & -> & Hk); cbn; rewrite Hk; congruence.
Qed.

Lemma tok_type_follow k ts r t : tok k ts r t -> k <> TOpenAngle -> type_follow ts.
Proof. intros [-> Hk] Hn. cbn. congruence. Qed.

Lemma result_arg_complete_u (self : parser ty) ts r u : tok TUnderscore ts r u -> result_arg self e ts = POk None r.
Proof. intros [-> Hk]. unfold result_arg. cbn [peek_kind]. rewrite Hk. reflexivity. Qed.

Lemma result_arg_complete_t (self : parser ty) ts r t :
  g_type d ts r t -> self ts = POk t r -> result_arg self e ts = POk (Some t) r.
Proof.
  intros Hg Hs. destruct (g_type_first _ _ _ Hg) as (t0 & ts' & -> & Hm). unfold result_arg. cbn [peek_kind].
  destruct (token_eqb (tk t0) TUnderscore) eqn:E.
  { apply token_eqb_eq in E. rewrite E in Hm. discriminate. }
  rewrite Hm, Hs. reflexivity.
Qed.

Lemma parse_optional_some {A} k (cb : parser A) ts r1 r t a :
  tok k ts r1 t -> cb r1 = POk a r -> parse_optional k cb ts = POk (Some a) r.
Proof. intros [-> Hk] Hc. unfold parse_optional. rewrite Hk, token_eqb_refl, Hc. reflexivity. Qed.

Lemma parse_optional_none {A} k (cb : parser A) ts : not_next k ts -> parse_optional k cb ts = POk None ts.
Proof.
  unfold parse_optional. destruct ts as [|[t| | | |] ts]; cbn; try tauto.
  intros H. apply token_eqb_neq in H. now rewrite H.
Qed.

Lemma parse_type_f_complete f :
  forall ts r t, g_type d ts r t -> length ts <= f -> length ts < fuel e -> type_follow r ->
  parse_type_f f e ts = POk t r /\ length r < length ts.
Proof.
  induction f as [|f IH]; intros ts r t Hg Hlen Hfe Hfol.
  { destruct (g_type_first _ _ _ Hg) as (? & ? & -> & _). cbn in Hlen. lia. }
  cbn [parse_type_f]. set (self := parse_type_f f e).
  assert (Hself : forall ts r t, g_type d ts r t -> length ts <= f -> length ts < fuel e -> type_follow r ->
                                 self ts = POk t r /\ length r < length ts) by exact IH.
  clearbody self. clear IH.
  destruct Hg.
  - (* prim *) subst. unfold type_step. rewrite H0. split; [reflexivity|cbn; lia].
  - (* tuple *)
    destruct H as [-> Hk]. destruct H0 as [-> Hko]. cbn in Hlen.
    destruct (delim_loop_complete (g_type d) e TCloseAngle type_first self (Nat.min f (fuel e - 1))) with (ts := r2) (x := (tys, tr)) (r := r3)
      as [Hd Hl3]; try reflexivity; try discriminate.
    { intros ts0 r0 a Ha Hl Hf. split; [eapply g_type_first; eauto|].
      apply Hself; auto; try lia. eapply item_follow_type_follow; eauto. discriminate. }
    { apply g_types_seplist; auto. }
    { cbn in Hfe. lia. }
    { eapply tok_peek; eauto. }
    unfold type_step. rewrite Hk. cbn [prim_of_token].
    rewrite (parse_token_complete e TOpenAngle (LTok o :: r2) o r2) by (split; auto). cbn [bind].
    assert (peek_in type_first r2 = true) as ->.
    { inversion H1; subst; try contradiction;
        match goal with Hx : g_type _ r2 _ _ |- _ =>
          destruct (g_type_first _ _ _ Hx) as (? & ? & -> & Hm); unfold peek_in; cbn; exact Hm end. }
    unfold delimited_items, delimited. rewrite Hd by (cbn in Hfe; lia). cbn [bind].
    destruct tys; [contradiction|]. tokc H3. split; [reflexivity|]. pose proof (tok_len _ _ _ _ H3). cbn. lia.
  - (* list *)
    destruct H as [-> Hk]. destruct H0 as [-> Hko]. cbn in Hlen.
    destruct (Hself _ _ _ Hg) as [Hp Hl]; [lia|cbn in Hfe; lia|eapply tok_type_follow; eauto; discriminate|].
    unfold type_step. rewrite Hk. cbn [prim_of_token]. unfold angle1.
    rewrite (parse_token_complete e TOpenAngle (LTok o :: r2) o r2) by (split; auto). cbn [bind].
    rewrite Hp. cbn [bind]. tokc H1. split; [reflexivity|]. pose proof (tok_len _ _ _ _ H1). cbn. lia.
  - (* option *)
    destruct H as [-> Hk]. destruct H0 as [-> Hko]. cbn in Hlen.
    destruct (Hself _ _ _ Hg) as [Hp Hl]; [lia|cbn in Hfe; lia|eapply tok_type_follow; eauto; discriminate|].
    unfold type_step. rewrite Hk. cbn [prim_of_token]. unfold angle1.
    rewrite (parse_token_complete e TOpenAngle (LTok o :: r2) o r2) by (split; auto). cbn [bind].
    rewrite Hp. cbn [bind]. tokc H1. split; [reflexivity|]. pose proof (tok_len _ _ _ _ H1). cbn. lia.
  - (* result *)
    destruct H as [-> Hk]. unfold type_step. rewrite Hk. cbn [prim_of_token].
    rewrite parse_optional_none by exact Hfol. split; [reflexivity|cbn; lia].
  - (* result<T> *)
    destruct H as [-> Hk]. destruct H0 as [-> Hko]. cbn in Hlen.
    destruct (Hself _ _ _ Hg) as [Hp Hl]; [lia|cbn in Hfe; lia|eapply tok_type_follow; eauto; discriminate|].
    unfold type_step. rewrite Hk. cbn [prim_of_token].
    erewrite parse_optional_some; [| split; [reflexivity|exact Hko] |].
    2:{ rewrite (result_arg_complete_t _ _ _ _ Hg Hp). cbn [bind].
        rewrite parse_optional_none by (destruct H1 as [-> Hc]; cbn; congruence). cbn [bind].
        unfold result_shape_ok. cbn [orb]. rewrite orb_true_r. tokc H1. reflexivity. }
    cbn [bind]. split; [reflexivity|]. pose proof (tok_len _ _ _ _ H1). cbn. lia.
  - (* result<_, T> *)
    destruct H as [-> Hk]. destruct H0 as [-> Hko]. cbn in Hlen.
    pose proof (tok_len _ _ _ _ H1) as L1. pose proof (tok_len _ _ _ _ H2) as L2.
    destruct (Hself _ _ _ Hg) as [Hp Hl]; [lia|cbn in Hfe; lia|eapply tok_type_follow; eauto; discriminate|].
    unfold type_step. rewrite Hk. cbn [prim_of_token].
    erewrite parse_optional_some; [| split; [reflexivity|exact Hko] |].
    2:{ rewrite (result_arg_complete_u _ _ _ _ H1). cbn [bind].
        erewrite parse_optional_some; [|exact H2|eapply result_arg_complete_t; eauto]. cbn [bind].
        unfold result_shape_ok. rewrite orb_true_r. tokc H3. reflexivity. }
    cbn [bind]. split; [reflexivity|]. pose proof (tok_len _ _ _ _ H3). cbn. lia.
  - (* result<T, T> *)
    destruct H as [-> Hk]. destruct H0 as [-> Hko]. cbn in Hlen.
    destruct (Hself _ _ _ Hg1) as [Hp1 Hl1]; [lia|cbn in Hfe; lia|eapply tok_type_follow; eauto; discriminate|].
    pose proof (tok_len _ _ _ _ H1) as L1.
    destruct (Hself _ _ _ Hg2) as [Hp2 Hl2]; [lia|cbn in Hfe; lia|eapply tok_type_follow; eauto; discriminate|].
    unfold type_step. rewrite Hk. cbn [prim_of_token].
    erewrite parse_optional_some; [| split; [reflexivity|exact Hko] |].
    2:{ rewrite (result_arg_complete_t _ _ _ _ Hg1 Hp1). cbn [bind].
        erewrite parse_optional_some; [|exact H1|eapply result_arg_complete_t; eauto]. cbn [bind].
        unfold result_shape_ok. rewrite orb_true_r. tokc H2. reflexivity. }
    cbn [bind]. split; [reflexivity|]. pose proof (tok_len _ _ _ _ H2). cbn. lia.
  - (* result<_> *)
    destruct H0 as [-> Hk]. destruct H1 as [-> Hko].
    unfold type_step. rewrite Hk. cbn [prim_of_token].
    erewrite parse_optional_some; [| split; [reflexivity|exact Hko] |].
    2:{ rewrite (result_arg_complete_u _ _ _ _ H2). cbn [bind].
        rewrite parse_optional_none by (destruct H3 as [-> Hc]; cbn; congruence). cbn [bind].
        unfold result_shape_ok. fold d. rewrite H. cbn [orb]. tokc H3. reflexivity. }
    cbn [bind]. split; [reflexivity|]. pose proof (tok_len _ _ _ _ H2). pose proof (tok_len _ _ _ _ H3). cbn. lia.
  - (* result<_, _> *)
    destruct H0 as [-> Hk]. destruct H1 as [-> Hko].
    unfold type_step. rewrite Hk. cbn [prim_of_token].
    erewrite parse_optional_some; [| split; [reflexivity|exact Hko] |].
    2:{ rewrite (result_arg_complete_u _ _ _ _ H2). cbn [bind].
        erewrite parse_optional_some; [|exact H3|eapply result_arg_complete_u; eauto]. cbn [bind].
        unfold result_shape_ok. fold d. rewrite H. cbn [orb]. tokc H5. reflexivity. }
    cbn [bind]. split; [reflexivity|].
    pose proof (tok_len _ _ _ _ H2). pose proof (tok_len _ _ _ _ H3). pose proof (tok_len _ _ _ _ H4).
    pose proof (tok_len _ _ _ _ H5). cbn. lia.
  - (* result<T, _> *)
    destruct H0 as [-> Hk]. destruct H1 as [-> Hko]. cbn in Hlen.
    destruct (Hself _ _ _ Hg) as [Hp Hl]; [lia|cbn in Hfe; lia|eapply tok_type_follow; eauto; discriminate|].
    unfold type_step. rewrite Hk. cbn [prim_of_token].
    erewrite parse_optional_some; [| split; [reflexivity|exact Hko] |].
    2:{ rewrite (result_arg_complete_t _ _ _ _ Hg Hp). cbn [bind].
        erewrite parse_optional_some; [|exact H2|eapply result_arg_complete_u; eauto]. cbn [bind].
        unfold result_shape_ok. fold d. rewrite H. cbn [orb]. tokc H4. reflexivity. }
    cbn [bind]. split; [reflexivity|].
    pose proof (tok_len _ _ _ _ H2). pose proof (tok_len _ _ _ _ H3). pose proof (tok_len _ _ _ _ H4). cbn. lia.
  - (* borrow<id> *)
    destruct H as [-> Hk]. destruct H0 as [-> Hko]. cbn in Hlen.
    unfold type_step. rewrite Hk. cbn [prim_of_token].
    rewrite (parse_token_complete e TOpenAngle (LTok o :: r2) o r2) by (split; auto). cbn [bind].
    pose proof (g_id_len _ _ _ H1) as L1. pose proof (tok_len _ _ _ _ H2) as L2.
    destruct (borrow_any_type (dv e)) eqn:Eb.
    + destruct (Hself r2 r3 (TyIdent i)) as [Hp Hl]; [apply gt_id; auto|lia|cbn in Hfe; lia|eapply tok_type_follow; eauto; discriminate|].
      rewrite Hp. cbn [bind]. tokc H2. split; [reflexivity|cbn; lia].
    + rewrite (parse_ident_complete e _ _ _ H1). cbn [bind]. tokc H2. split; [reflexivity|cbn; lia].
  - (* borrow<type> *)
    destruct H0 as [-> Hk]. destruct H1 as [-> Hko]. cbn in Hlen.
    destruct (Hself _ _ _ Hg) as [Hp Hl]; [lia|cbn in Hfe; lia|eapply tok_type_follow; eauto; discriminate|].
    unfold type_step. rewrite Hk. cbn [prim_of_token].
    rewrite (parse_token_complete e TOpenAngle (LTok o :: r2) o r2) by (split; auto). cbn [bind].
    fold d. rewrite H, Hp. cbn [bind]. tokc H3. split; [|pose proof (tok_len _ _ _ _ H3); cbn; lia].
    destruct t; try reflexivity. exfalso. eapply H2; reflexivity.
  - (* id *)
    destruct H as (t0 & [-> Hk] & ->). unfold type_step. rewrite Hk. cbn [prim_of_token]. split; [reflexivity|cbn; lia].
Qed.

Lemma parse_type_complete ts r t :
  g_type d ts r t -> length ts < fuel e -> type_follow r -> parse_type e ts = POk t r /\ length r < length ts.
Proof. intros Hg Hl Hf. apply parse_type_f_complete; auto. lia. Qed.

End TypeComplete.

(* ------------------------------------------------------------------ automation for the non-recursive productions *)

(** [sstep H]: use a known soundness lemma on [H : parse_X e ts = POk a r]. Extended below. *)
Ltac sstep H := fail.

Ltac sinv H :=
  lazymatch type of H with
  | bind ?m ?k = POk _ _ =>
      let a := fresh "a" in let r := fresh "r" in let H1 := fresh "Hs" in
      apply bind_ok in H; destruct H as (a & r & H1 & H); cbv beta in H; sinv H1; sinv H
  | POk _ _ = POk _ _ => inversion H; subst; clear H
  | PErr _ = POk _ _ => discriminate H
  | PPanic _ = POk _ _ => discriminate H
  | parse_token _ _ _ = POk _ _ =>
      let t := fresh "t" in apply parse_token_ok in H; destruct H as (t & H & ->)
  | any_tok _ = POk _ _ => apply any_tok_ok in H
  | la_fail _ _ _ = POk _ _ => exfalso; exact (la_fail_not_ok _ _ _ _ _ H)
  | (if ?c then _ else _) = POk _ _ => let E := fresh "Eb" in destruct c eqn:E; sinv H
  | (match ?x with [] => _ | _ :: _ => _ end) = POk _ _ => let E := fresh "El" in destruct x eqn:E; sinv H
  | (let '(a, b) := ?x in _) _ = POk _ _ => destruct x; sinv H
  | _ => first [sstep H | idtac]
  end.

Ltac sstep H ::=
  first [ apply parse_ident_sound in H | apply parse_string_sound in H
        | apply parse_package_name_sound in H | apply parse_package_path_sound in H
        | apply parse_type_sound in H ].

(** After inversion: provide the witnesses of a relation defined with [exists]. *)
Ltac gsolve :=
  repeat match goal with |- exists _, _ => eexists end;
  repeat match goal with |- _ /\ _ => split end;
  try eassumption; try reflexivity.

Section Productions.
Variable e : env.
Let d := dv e.

Lemma parse_named_type_sound ts n r : parse_named_type e ts = POk n r -> g_named_type d ts r n.
Proof. unfold parse_named_type. intros H. sinv H. red. gsolve. Qed.

Lemma g_named_type_first ts r n : g_named_type d ts r n -> exists t ts', ts = LTok t :: ts' /\ mem_tok (tk t) [TIdent] = true.
Proof. intros (r1 & r2 & i & c & t & (t0 & [-> Hk] & _) & _). do 2 eexists. split; [reflexivity|]. now rewrite Hk. Qed.

Lemma parse_named_type_complete ts n r :
  g_named_type d ts r n -> length ts < fuel e -> type_follow r ->
  parse_named_type e ts = POk n r /\ length r < length ts.
Proof.
  intros (r1 & r2 & i & c & t & Hi & Hc & Ht & ->) Hl Hf. unfold parse_named_type.
  pose proof (g_id_len _ _ _ Hi). pose proof (tok_len _ _ _ _ Hc).
  destruct (parse_type_complete e _ _ _ Ht) as [Hp Hl2]; [lia|exact Hf|].
  rewrite (parse_ident_complete e _ _ _ Hi). cbn [bind]. tokc Hc. rewrite Hp. cbn [bind]. split; [reflexivity|lia].
Qed.

(** [alt]: one case per branch. *)
Ltac altinv H :=
  let k := fresh "k" in let first := fresh "first" in let p := fresh "p" in
  let Hpk := fresh "Hpk" in let Hfind := fresh "Hfind" in let Hin := fresh "Hin" in let Hmem := fresh "Hmem" in
  apply alt_ok in H; destruct H as (k & first & p & Hpk & Hfind & H & Hin & Hmem);
  cbn [In] in Hin;
  repeat (destruct Hin as [Hin|Hin]; [inversion Hin; subst first p; clear Hin|]); try contradiction.

Ltac sall := repeat match goal with Hx : _ = POk _ _ |- _ => progress sinv Hx end.
Ltac altany := match goal with Hx : alt _ _ _ = POk _ _ |- _ => altinv Hx end.

(* -- params *)

Lemma parse_params_sound until ts ps r :
  parse_params e until ts = POk ps r -> g_params d ts r ps /\ next_is until r.
Proof.
  unfold parse_params. intros H. eapply delimited_items_ok in H; [|apply parse_named_type_sound].
  destruct H as (tr & Hs & Hn). split; [exists tr; exact Hs|exact Hn].
Qed.

Lemma parse_params_complete until ts ps r :
  g_params d ts r ps -> until <> TComma -> until <> TIdent -> until <> TOpenAngle ->
  length ts < fuel e -> next_is until r ->
  parse_params e until ts = POk ps r /\ length r <= length ts.
Proof.
  intros (tr & Hs) Hc Hi Ha Hl Hn. unfold parse_params, delimited_items, delimited.
  destruct (delim_loop_complete (g_named_type d) e until [TIdent] (parse_named_type e) (fuel e - 1)) with (ts := ts) (x := (ps, tr)) (r := r)
    as [Hd Hl2]; auto.
  { cbn [mem_tok]. rewrite orb_false_r. apply token_eqb_neq. congruence. }
  { intros ts0 r0 a Ha0 Hl0 Hf. split; [eapply g_named_type_first; eauto|].
    apply parse_named_type_complete; auto; [lia|]. eapply item_follow_type_follow; eauto. }
  { lia. }
  rewrite Hd by lia. cbn [bind]. auto.
Qed.

(* -- results, func-type *)

Lemma parse_result_list_sound ts x r : parse_result_list e ts = POk x r -> g_results d ts r x.
Proof.
  unfold parse_result_list. intros H. sinv H.
  - apply gr_scalar. assumption.
  - apply andb_true_iff in Eb0. destruct Eb0 as [Hn Hp]. unfold peek_in in Hp. cbn [peek_kind mem_tok] in Hp.
    rewrite orb_false_r in Hp. apply token_eqb_eq in Hp.
    apply parse_params_sound in Hs0. destruct Hs0 as [Hps _].
    eapply gr_named; eauto; [split; auto|discriminate].
  - apply gr_empty. assumption.
Qed.

(** What follows a function type in every production that uses one: [;]. *)
Definition semi_follow (r : list lexitem) : Prop := next_is TSemicolon r.

Lemma semi_type_follow r : semi_follow r -> type_follow r.
Proof. intros H. apply peek_kind_Some in H. destruct H as (t & r' & -> & Hk). cbn. congruence. Qed.

Lemma peek_in_false_semi l r : semi_follow r -> mem_tok TSemicolon l = false -> peek_in l r = false.
Proof. intros H Hm. unfold peek_in. red in H. unfold next_is in H. now rewrite H. Qed.

Lemma parse_result_list_complete ts x r :
  g_results d ts r x -> length ts < fuel e -> semi_follow r ->
  parse_result_list e ts = POk x r /\ length r <= length ts.
Proof.
  intros Hg Hl Hf. unfold parse_result_list. destruct Hg.
  - destruct (g_type_first _ _ _ _ H) as (t0 & ts' & -> & Hm).
    destruct (parse_type_complete e _ _ _ H) as [Hp Hl2]; [lia|now apply semi_type_follow|].
    unfold peek_in. cbn [peek_kind]. rewrite Hm, Hp. cbn [bind]. split; [reflexivity|lia].
  - destruct H0 as [-> Hk]. pose proof (tok_len _ _ _ _ H3) as L3.
    destruct (parse_params_complete TCloseParen _ _ _ H1) as [Hp Hl2]; try discriminate; [cbn in Hl; lia|eapply tok_peek; eauto|].
    unfold peek_in. cbn [peek_kind]. rewrite Hk. cbn [mem_tok token_eqb token_code N.eqb orb andb Pos.eqb].
    fold d. rewrite H. cbn [andb any_tok bind]. rewrite Hp. cbn [bind].
    destruct ps; [contradiction|]. tokc H3. split; [reflexivity|cbn; lia].
  - fold d. rewrite H. rewrite peek_in_false_semi by (auto; reflexivity).
    rewrite (peek_in_false_semi [TOpenParen]) by (auto; reflexivity). rewrite andb_false_r. split; [reflexivity|lia].
Qed.

Lemma parse_func_type_sound ts f r : parse_func_type e ts = POk f r -> g_func_type d ts r f.
Proof.
  unfold parse_func_type. intros H. sinv H. apply parse_params_sound in Hs1. destruct Hs1 as [Hps _].
  eapply parse_optional_ok in Hs3; [|apply parse_result_list_sound]. red. gsolve.
Qed.

Lemma parse_func_type_complete ts f r :
  g_func_type d ts r f -> length ts < fuel e -> semi_follow r ->
  parse_func_type e ts = POk f r /\ length r < length ts.
Proof.
  intros (r1 & r2 & r3 & r4 & kw & o & c & ps & res & Hkw & Ho & Hps & Hc & Hres & ->) Hl Hf.
  pose proof (tok_len _ _ _ _ Hkw). pose proof (tok_len _ _ _ _ Ho). pose proof (tok_len _ _ _ _ Hc).
  destruct (parse_params_complete TCloseParen _ _ _ Hps) as [Hp Hl2]; try discriminate; [lia|eapply tok_peek; eauto|].
  unfold parse_func_type. tokc Hkw. tokc Ho. rewrite Hp. cbn [bind]. tokc Hc.
  destruct Hres as [ts0|ts0 r5 r6 ar x Har Hx].
  - rewrite parse_optional_none.
    + cbn [bind]. split; [reflexivity|lia].
    + apply peek_kind_Some in Hf. destruct Hf as (t & r' & -> & Hk). cbn. congruence.
  - pose proof (tok_len _ _ _ _ Har).
    destruct (parse_result_list_complete _ _ _ Hx) as [Hr Hl3]; [lia|exact Hf|].
    erewrite parse_optional_some; eauto. cbn [bind]. split; [reflexivity|lia].
Qed.

(* -- items of the braced declarations *)

Lemma item_follow_not_next until k r : until <> k -> k <> TComma -> item_follow until r -> not_next k r.
Proof.
  intros H1 H2 [H|H]; apply peek_kind_Some in H; destruct H as (t & r' & -> & Hk); cbn; rewrite Hk; congruence.
Qed.

Lemma g_id_first ts r i : g_id ts r i -> exists t ts', ts = LTok t :: ts' /\ mem_tok (tk t) [TIdent] = true.
Proof. intros (t0 & [-> Hk] & _). do 2 eexists. split; [reflexivity|]. now rewrite Hk. Qed.

Lemma parse_variant_case_sound ts v r : parse_variant_case e ts = POk v r -> g_variant_case d ts r v.
Proof.
  unfold parse_variant_case. intros H. sinv H.
  eapply (parse_optional_ok _ _ (fun a b x => exists b1 c, g_type d a b1 x /\ tok TCloseParen b1 b c)) in Hs0.
  2:{ intros tsA xA rA HA. sinv HA. gsolve. }
  red. gsolve.
Qed.

Lemma parse_variant_case_complete ts v r :
  g_variant_case d ts r v -> length ts < fuel e -> item_follow TCloseBrace r ->
  (exists t ts', ts = LTok t :: ts' /\ mem_tok (tk t) [TIdent] = true) /\
  parse_variant_case e ts = POk v r /\ length r < length ts.
Proof.
  intros (r1 & i & t & Hi & Ho & ->) Hl Hf. split; [eapply g_id_first; eauto|].
  pose proof (g_id_len _ _ _ Hi). unfold parse_variant_case. rewrite (parse_ident_complete e _ _ _ Hi). cbn [bind].
  destruct Ho as [ts0|ts0 r2 r3 o x Hop (b1 & c & Hx & Hc)].
  - rewrite parse_optional_none by (eapply item_follow_not_next; eauto; discriminate). cbn [bind]. split; [reflexivity|lia].
  - pose proof (tok_len _ _ _ _ Hop). pose proof (tok_len _ _ _ _ Hc).
    destruct (parse_type_complete e _ _ _ Hx) as [Hp Hl2]; [lia|eapply tok_type_follow; eauto; discriminate|].
    erewrite parse_optional_some; [|exact Hop|rewrite Hp; cbn [bind]; tokc Hc; reflexivity].
    cbn [bind]. split; [reflexivity|lia].
Qed.

Lemma parse_field_sound ts v r : parse_field e ts = POk v r -> g_field d ts r v.
Proof. unfold parse_field. intros H. sinv H. apply parse_named_type_sound in Hs. red. gsolve. Qed.

Lemma parse_field_complete ts v r :
  g_field d ts r v -> length ts < fuel e -> item_follow TCloseBrace r ->
  (exists t ts', ts = LTok t :: ts' /\ mem_tok (tk t) [TIdent] = true) /\
  parse_field e ts = POk v r /\ length r < length ts.
Proof.
  intros (n & Hn & ->) Hl Hf. split; [eapply g_named_type_first; eauto|].
  destruct (parse_named_type_complete _ _ _ Hn) as [Hp Hl2]; [exact Hl|eapply item_follow_type_follow; eauto; discriminate|].
  unfold parse_field. rewrite Hp. cbn [bind]. auto.
Qed.

Lemma parse_flag_sound ts v r : parse_flag e ts = POk v r -> g_flag ts r v.
Proof. unfold parse_flag. intros H. sinv H. red. gsolve. Qed.

Lemma parse_flag_complete ts v r :
  g_flag ts r v -> length ts < fuel e -> item_follow TCloseBrace r ->
  (exists t ts', ts = LTok t :: ts' /\ mem_tok (tk t) [TIdent] = true) /\
  parse_flag e ts = POk v r /\ length r < length ts.
Proof.
  intros (i & Hi & ->) Hl Hf. split; [eapply g_id_first; eauto|]. pose proof (g_id_len _ _ _ Hi).
  unfold parse_flag. rewrite (parse_ident_complete e _ _ _ Hi). cbn [bind]. split; [reflexivity|lia].
Qed.

Lemma parse_enum_case_sound ts v r : parse_enum_case e ts = POk v r -> g_enum_case ts r v.
Proof. unfold parse_enum_case. intros H. sinv H. red. gsolve. Qed.

Lemma parse_enum_case_complete ts v r :
  g_enum_case ts r v -> length ts < fuel e -> item_follow TCloseBrace r ->
  (exists t ts', ts = LTok t :: ts' /\ mem_tok (tk t) [TIdent] = true) /\
  parse_enum_case e ts = POk v r /\ length r < length ts.
Proof.
  intros (i & Hi & ->) Hl Hf. split; [eapply g_id_first; eauto|]. pose proof (g_id_len _ _ _ Hi).
  unfold parse_enum_case. rewrite (parse_ident_complete e _ _ _ Hi). cbn [bind]. split; [reflexivity|lia].
Qed.

(* -- kw id '{' items '}' *)

Lemma braced_nonempty_sound {A} kw which (item : parser A) (R : drel A) mk ts x r :
  (forall ts a r, item ts = POk a r -> R ts r a) ->
  braced_nonempty e kw which item mk ts = POk x r -> g_braced kw R mk ts r x.
Proof.
  intros Hi. unfold braced_nonempty. intros H. sinv H.
  eapply delimited_items_ok in Hs2; [|exact Hi]. destruct Hs2 as (tr & Hl & _).
  red. gsolve. discriminate.
Qed.

Lemma braced_nonempty_complete {A} kw which (item : parser A) (R : drel A) mk ts x r :
  (forall ts r a, R ts r a -> length ts < fuel e -> item_follow TCloseBrace r ->
     (exists t ts', ts = LTok t :: ts' /\ mem_tok (tk t) [TIdent] = true) /\ item ts = POk a r /\ length r < length ts) ->
  g_braced kw R mk ts r x -> length ts < fuel e ->
  braced_nonempty e kw which item mk ts = POk x r /\ length r < length ts.
Proof.
  intros Hi (r1 & r2 & r3 & r4 & k & i & o & c & items & tr & Hk & Hid & Ho & Hs & Hne & Hc & ->) Hl.
  pose proof (tok_len _ _ _ _ Hk). pose proof (g_id_len _ _ _ Hid). pose proof (tok_len _ _ _ _ Ho).
  pose proof (tok_len _ _ _ _ Hc).
  destruct (delim_loop_complete R e TCloseBrace [TIdent] item (fuel e - 1)) with (ts := r3) (x := (items, tr)) (r := r4)
    as [Hd Hl2]; auto; try discriminate.
  { intros ts0 r0 a Ha0 Hl0 Hf. apply Hi; auto. lia. }
  { lia. }
  { eapply tok_peek; eauto. }
  unfold braced_nonempty. tokc Hk. rewrite (parse_ident_complete e _ _ _ Hid). cbn [bind]. tokc Ho.
  unfold delimited_items, delimited. rewrite Hd by lia. cbn [bind]. tokc Hc.
  destruct items; [contradiction|]. split; [reflexivity|lia].
Qed.

Lemma alt_complete_tok {A} (bs : list (list token * parser A)) ts k r0 t p a r :
  tok k ts r0 t -> alt_find k bs = Some p -> p ts = POk a r -> alt e bs ts = POk a r.
Proof. intros Ht. eapply alt_complete. eapply tok_peek; eauto. Qed.

Lemma g_func_type_tok ts r f : g_func_type d ts r f -> exists r0 t, tok TFuncKeyword ts r0 t.
Proof. intros (r1 & r2 & r3 & r4 & kw & o & c & ps & res & Hkw & _). eauto. Qed.

Lemma type_first_not k other :
  mem_tok k type_first = true -> mem_tok other type_first = false -> token_eqb other k = false.
Proof. intros H1 H2. apply token_eqb_neq. intros ->. congruence. Qed.

(* -- type alias, type-decl *)

Lemma parse_type_alias_sound ts x r : parse_type_alias e ts = POk x r -> g_type_decl d ts r x.
Proof.
  unfold parse_type_alias. intros H. sall. altany; sall.
  - match goal with Hx : parse_func_type _ _ = _ |- _ => apply parse_func_type_sound in Hx end.
    eapply gd_alias_func; eauto.
  - eapply gd_alias_type; eauto.
Qed.

Lemma parse_type_alias_complete ts x r :
  (exists r1 r2 r3 r4 kw i eq s,
     tok TTypeKeyword ts r1 kw /\ g_id r1 r2 i /\ tok TEquals r2 r3 eq /\ tok TSemicolon r4 r s /\
     ((exists f, g_func_type d r3 r4 f /\ x = DAlias (docs_of ts) i (TAFunc f)) \/
      (exists t, g_type d r3 r4 t /\ x = DAlias (docs_of ts) i (TAType t)))) ->
  length ts < fuel e -> parse_type_alias e ts = POk x r /\ length r < length ts.
Proof.
  intros (r1 & r2 & r3 & r4 & kw & i & eq & s & Hkw & Hi & Heq & Hs & Hk) Hl.
  pose proof (tok_len _ _ _ _ Hkw). pose proof (g_id_len _ _ _ Hi). pose proof (tok_len _ _ _ _ Heq).
  pose proof (tok_len _ _ _ _ Hs).
  unfold parse_type_alias. tokc Hkw. rewrite (parse_ident_complete e _ _ _ Hi). cbn [bind]. tokc Heq.
  destruct Hk as [(f & Hf & ->)|(t & Ht & ->)].
  - destruct (parse_func_type_complete _ _ _ Hf) as [Hp Hl2]; [lia|eapply tok_peek; eauto|].
    destruct (g_func_type_tok _ _ _ Hf) as (r0 & t0 & Ht0).
    erewrite alt_complete_tok; [|exact Ht0|reflexivity|cbv beta; rewrite Hp; reflexivity]. cbn [bind]. tokc Hs. split; [reflexivity|lia].
  - destruct (parse_type_complete e _ _ _ Ht) as [Hp Hl2]; [lia|eapply tok_type_follow; eauto; discriminate|].
    destruct (g_type_first e _ _ _ Ht) as (t0 & ts' & -> & Hm).
    unfold alt. cbn [peek_kind alt_find mem_tok]. rewrite (type_first_not _ TFuncKeyword Hm eq_refl). cbn [orb].
    fold (mem_tok (tk t0) type_first). rewrite Hm, Hp. cbn [bind]. tokc Hs. split; [reflexivity|lia].
Qed.

Lemma parse_type_decl_sound ts x r : parse_type_decl e ts = POk x r -> g_type_decl d ts r x.
Proof.
  unfold parse_type_decl, type_decl_branches. intros H. altinv H.
  - apply gd_variant. eapply braced_nonempty_sound; [apply parse_variant_case_sound|exact H].
  - apply gd_record. eapply braced_nonempty_sound; [apply parse_field_sound|exact H].
  - apply gd_flags. eapply braced_nonempty_sound; [apply parse_flag_sound|exact H].
  - apply gd_enum. eapply braced_nonempty_sound; [apply parse_enum_case_sound|exact H].
  - now apply parse_type_alias_sound.
Qed.

Lemma g_braced_tok {A} kw (R : drel A) mk ts r x : g_braced kw R mk ts r x -> exists r0 t, tok kw ts r0 t.
Proof. intros (r1 & r2 & r3 & r4 & k & i & o & c & items & tr & Hk & _). eauto. Qed.

(** The first token of a type declaration, and the parse through the branch it selects. *)
Lemma type_decl_branch ts x r :
  g_type_decl d ts r x -> length ts < fuel e ->
  exists k r0 t p, tok k ts r0 t /\ mem_tok k type_decl_first = true /\
                   alt_find k (type_decl_branches e) = Some p /\ p ts = POk x r /\ length r < length ts.
Proof.
  intros Hg Hl. destruct Hg.
  - destruct (g_braced_tok _ _ _ _ _ _ H) as (r0 & t & Ht).
    destruct (braced_nonempty_complete TVariantKeyword 0%N (parse_variant_case e) _ DVariant _ _ _ (fun ts r a => parse_variant_case_complete ts a r) H Hl).
    exists TVariantKeyword, r0, t. eexists. split; [exact Ht|]. split; [reflexivity|]. split; [reflexivity|]. split; assumption.
  - destruct (g_braced_tok _ _ _ _ _ _ H) as (r0 & t & Ht).
    destruct (braced_nonempty_complete TRecordKeyword 1%N (parse_field e) _ DRecord _ _ _ (fun ts r a => parse_field_complete ts a r) H Hl).
    exists TRecordKeyword, r0, t. eexists. split; [exact Ht|]. split; [reflexivity|]. split; [reflexivity|]. split; assumption.
  - destruct (g_braced_tok _ _ _ _ _ _ H) as (r0 & t & Ht).
    destruct (braced_nonempty_complete TFlagsKeyword 2%N (parse_flag e) _ DFlags _ _ _ (fun ts r a => parse_flag_complete ts a r) H Hl).
    exists TFlagsKeyword, r0, t. eexists. split; [exact Ht|]. split; [reflexivity|]. split; [reflexivity|]. split; assumption.
  - destruct (g_braced_tok _ _ _ _ _ _ H) as (r0 & t & Ht).
    destruct (braced_nonempty_complete TEnumKeyword 3%N (parse_enum_case e) _ DEnum _ _ _ (fun ts r a => parse_enum_case_complete ts a r) H Hl).
    exists TEnumKeyword, r0, t. eexists. split; [exact Ht|]. split; [reflexivity|]. split; [reflexivity|]. split; assumption.
  - destruct (parse_type_alias_complete ts (DAlias (docs_of ts) i (TAFunc f)) r) as [Hp Hl2]; auto.
    { exists r1, r2, r3, r4, kw, i, eq, s. split; [exact H|]. split; [exact H0|]. split; [exact H1|]. split; [exact H3|]. left. eauto. }
    exists TTypeKeyword, r1, kw. eexists. split; [exact H|]. split; [reflexivity|]. split; [reflexivity|]. split; assumption.
  - destruct (parse_type_alias_complete ts (DAlias (docs_of ts) i (TAType t)) r) as [Hp Hl2]; auto.
    { exists r1, r2, r3, r4, kw, i, eq, s. split; [exact H|]. split; [exact H0|]. split; [exact H1|]. split; [exact H3|]. right. eauto. }
    exists TTypeKeyword, r1, kw. eexists. split; [exact H|]. split; [reflexivity|]. split; [reflexivity|]. split; assumption.
Qed.

Lemma parse_type_decl_complete ts x r :
  g_type_decl d ts r x -> length ts < fuel e -> parse_type_decl e ts = POk x r /\ length r < length ts.
Proof.
  intros Hg Hl. destruct (type_decl_branch _ _ _ Hg Hl) as (k & r0 & t & p & Ht & _ & Hf & Hp & Hl2).
  split; [|exact Hl2]. unfold parse_type_decl. eapply alt_complete_tok; eauto.
Qed.

(* -- resources *)

Lemma parse_resource_method_sound ts x r : parse_resource_method e ts = POk x r -> g_resource_item d ts r x.
Proof.
  unfold parse_resource_method. intros H. altinv H.
  - unfold parse_constructor in H. sall.
    match goal with Hx : parse_params _ _ _ = _ |- _ => apply parse_params_sound in Hx; destruct Hx as [Hx _] end.
    eapply gri_constructor; eauto.
  - unfold parse_method in H. sall;
      match goal with Hx : parse_func_type _ _ = _ |- _ => apply parse_func_type_sound in Hx end.
    + unfold peek_in in Eb. cbn [peek_kind mem_tok] in Eb. rewrite orb_false_r in Eb. apply token_eqb_eq in Eb.
      eapply (gri_method d _ _ _ _ _ _ _ _ (Some tt)); eauto.
      eapply opt_some; [split; [reflexivity|symmetry; exact Eb]|reflexivity].
    + eapply (gri_method d _ _ _ _ _ _ _ _ None); eauto. constructor.
Qed.

Lemma g_resource_item_first ts r x :
  g_resource_item d ts r x -> exists t ts', ts = LTok t :: ts' /\ mem_tok (tk t) [TConstructorKeyword; TIdent] = true.
Proof.
  destruct 1.
  - destruct H as [-> Hk]. do 2 eexists. split; [reflexivity|]. now rewrite Hk.
  - destruct H as (t0 & [-> Hk] & _). do 2 eexists. split; [reflexivity|]. now rewrite Hk.
Qed.

Lemma parse_resource_method_complete ts x r :
  g_resource_item d ts r x -> length ts < fuel e ->
  parse_resource_method e ts = POk x r /\ length r < length ts /\ (exists t r', ts = LTok t :: r').
Proof.
  intros Hg Hl. destruct Hg.
  - pose proof (tok_len _ _ _ _ H). pose proof (tok_len _ _ _ _ H0). pose proof (tok_len _ _ _ _ H2).
    pose proof (tok_len _ _ _ _ H3).
    destruct (parse_params_complete TCloseParen _ _ _ H1) as [Hp Hl2]; try discriminate; [lia|eapply tok_peek; eauto|].
    split; [|split; [lia|destruct H as [-> _]; eauto]].
    unfold parse_resource_method. eapply alt_complete_tok; [exact H|reflexivity|].
    unfold parse_constructor. tokc H. tokc H0. rewrite Hp. cbn [bind]. tokc H2. tokc H3. reflexivity.
  - pose proof (g_id_len _ _ _ H). pose proof (tok_len _ _ _ _ H0). pose proof (tok_len _ _ _ _ H3).
    destruct H as (t0 & Ht0 & ->).
    assert (length r3 <= length r2) as L3 by (destruct H1 as [|? ? ? ? ? Hst ->]; [lia|pose proof (tok_len _ _ _ _ Hst); lia]).
    destruct (parse_func_type_complete _ _ _ H2) as [Hp Hl2]; [lia|eapply tok_peek; eauto|].
    split; [|split; [lia|destruct Ht0 as [-> _]; eauto]].
    unfold parse_resource_method. eapply alt_complete_tok; [exact Ht0|reflexivity|].
    unfold parse_method. rewrite (parse_ident_complete e ts (mk_ident t0) r1) by (exists t0; auto). cbn [bind]. tokc H0.
    destruct H1 as [ts0|ts0 r5 r6 t1 u Hst ->].
    + destruct (g_func_type_tok _ _ _ H2) as (r9 & t9 & [-> Hk9]). unfold peek_in. cbn [peek_kind mem_tok]. rewrite Hk9.
      cbn [token_eqb token_code N.eqb Pos.eqb orb bind]. rewrite Hp. cbn [bind]. tokc H3. reflexivity.
    + destruct Hst as [-> Hk9]. unfold peek_in. cbn [peek_kind mem_tok]. rewrite Hk9.
      cbn [token_eqb token_code N.eqb Pos.eqb orb bind any_tok]. rewrite Hp. cbn [bind]. tokc H3. destruct u. reflexivity.
Qed.

Lemma parse_item_type_decl_sound ts x r : parse_item_type_decl e ts = POk x r -> g_item_type_decl d ts r x.
Proof.
  unfold parse_item_type_decl, type_decl_branches. intros H. altinv H.
  - unfold parse_resource_decl in H. sall. altany; sall.
    + cbn [peek_kind] in Hpk0. inversion Hpk0; subst k0. cbn [mem_tok] in Hmem0. rewrite orb_false_r in Hmem0.
      apply token_eqb_eq in Hmem0. eapply gi_resource_semi; eauto. split; [reflexivity|now symmetry].
    + match goal with Hx : delimited_items _ _ _ _ _ _ = _ |- _ =>
        eapply delimited_items_many_ok in Hx; [|apply parse_resource_method_sound]; destruct Hx as [Hx _] end.
      eapply gi_resource_body; eauto.
  - apply gi_type_decl, gd_variant. eapply braced_nonempty_sound; [apply parse_variant_case_sound|exact H].
  - apply gi_type_decl, gd_record. eapply braced_nonempty_sound; [apply parse_field_sound|exact H].
  - apply gi_type_decl, gd_flags. eapply braced_nonempty_sound; [apply parse_flag_sound|exact H].
  - apply gi_type_decl, gd_enum. eapply braced_nonempty_sound; [apply parse_enum_case_sound|exact H].
  - apply gi_type_decl. now apply parse_type_alias_sound.
Qed.

Lemma many_resource_complete ts ms r :
  many (g_resource_item d) ts r ms -> length ts < fuel e -> next_is TCloseBrace r ->
  delimited_items e TCloseBrace false [TConstructorKeyword; TIdent] (parse_resource_method e) ts = POk ms r /\ length r <= length ts.
Proof.
  intros Hm Hl Hn.
  destruct (delim_loop_many_complete (g_resource_item d) e TCloseBrace [TConstructorKeyword; TIdent] (parse_resource_method e) (fuel e - 1))
    with (ts := ts) (l := ms) (r := r) as [Hd Hl2]; auto; try lia.
  { intros ts0 r0 a Ha Hl0. destruct (parse_resource_method_complete _ _ _ Ha) as (Hp & Hl1 & Hne); [lia|].
    split; [eapply g_resource_item_first; eauto|]. split; [exact Hp|exact Hl1]. }
  destruct (Hd (fuel e)) as (tr & Hd'); [lia|]. unfold delimited_items, delimited. rewrite Hd'. cbn [bind]. auto.
Qed.

Lemma parse_item_type_decl_complete ts x r :
  g_item_type_decl d ts r x -> length ts < fuel e ->
  parse_item_type_decl e ts = POk x r /\ length r < length ts /\
  (exists t ts', ts = LTok t :: ts' /\ mem_tok (tk t) item_type_decl_first = true).
Proof.
  intros Hg Hl. destruct Hg.
  - pose proof (tok_len _ _ _ _ H). pose proof (g_id_len _ _ _ H0). pose proof (tok_len _ _ _ _ H1).
    split; [|split; [lia|destruct H as [-> Hk]; do 2 eexists; split; [reflexivity|now rewrite Hk]]].
    unfold parse_item_type_decl. eapply alt_complete_tok; [exact H|reflexivity|].
    unfold parse_resource_decl. tokc H. rewrite (parse_ident_complete e _ _ _ H0). cbn [bind].
    erewrite alt_complete_tok; [|exact H1|reflexivity|]. 2:{ cbv beta. destruct H1 as [-> _]. reflexivity. }
    reflexivity.
  - pose proof (tok_len _ _ _ _ H). pose proof (g_id_len _ _ _ H0). pose proof (tok_len _ _ _ _ H1).
    pose proof (tok_len _ _ _ _ H3).
    destruct (many_resource_complete _ _ _ H2) as [Hp Hl2]; [lia|eapply tok_peek; eauto|].
    split; [|split; [lia|destruct H as [-> Hk]; do 2 eexists; split; [reflexivity|now rewrite Hk]]].
    unfold parse_item_type_decl. eapply alt_complete_tok; [exact H|reflexivity|].
    unfold parse_resource_decl. tokc H. rewrite (parse_ident_complete e _ _ _ H0). cbn [bind].
    erewrite alt_complete_tok; [|exact H1|reflexivity|].
    2:{ cbv beta. tokc H1. rewrite Hp. cbn [bind]. tokc H3. reflexivity. }
    reflexivity.
  - destruct (type_decl_branch _ _ _ H Hl) as (k & r0 & t & p & Ht & Hm & Hf & Hp & Hl2).
    split; [|split; [exact Hl2|destruct Ht as [-> Hk]; do 2 eexists; split; [reflexivity|]]].
    + unfold parse_item_type_decl. eapply alt_complete_tok; [exact Ht| |exact Hp].
      cbn [alt_find mem_tok]. assert (token_eqb TResourceKeyword k = false) as ->; [|exact Hf].
      apply token_eqb_neq. intros <-. discriminate Hm.
    + rewrite Hk. unfold item_type_decl_first. cbn [mem_tok]. fold (mem_tok k type_decl_first). rewrite Hm. apply orb_true_r.
Qed.

(* -- use *)

Lemma parse_use_path_sound ts x r : parse_use_path e ts = POk x r -> g_use_path ts r x.
Proof. unfold parse_use_path. intros H. altinv H; sall; constructor; assumption. Qed.

Lemma parse_use_path_complete ts x r : g_use_path ts r x -> parse_use_path e ts = POk x r /\ length ts = S (length r).
Proof.
  destruct 1 as [ts r p (t & Ht & Hp)|ts r i (t & Ht & ->)]; (split; [|eapply tok_len; eauto]); unfold parse_use_path.
  - eapply alt_complete_tok; [exact Ht|reflexivity|]. cbv beta.
    rewrite (parse_package_path_complete e ts p r) by (exists t; auto). reflexivity.
  - eapply alt_complete_tok; [exact Ht|reflexivity|]. cbv beta.
    rewrite (parse_ident_complete e ts (mk_ident t) r) by (exists t; auto). reflexivity.
Qed.

Lemma parse_use_item_sound ts x r : parse_use_item e ts = POk x r -> g_use_item ts r x.
Proof.
  unfold parse_use_item. intros H. sall.
  match goal with Hx : parse_optional _ _ _ = _ |- _ => eapply parse_optional_ok in Hx; [|apply parse_ident_sound] end.
  red. gsolve.
Qed.

Lemma parse_use_item_complete ts x r :
  g_use_item ts r x -> length ts < fuel e -> item_follow TCloseBrace r ->
  (exists t ts', ts = LTok t :: ts' /\ mem_tok (tk t) [TIdent] = true) /\
  parse_use_item e ts = POk x r /\ length r < length ts.
Proof.
  intros (r1 & i & a & Hi & Ho & ->) Hl Hf. split; [eapply g_id_first; eauto|].
  pose proof (g_id_len _ _ _ Hi). unfold parse_use_item. rewrite (parse_ident_complete e _ _ _ Hi). cbn [bind].
  destruct Ho as [ts0|ts0 r2 r3 o x Hop Hx].
  - rewrite parse_optional_none by (eapply item_follow_not_next; eauto; discriminate). cbn [bind]. split; [reflexivity|lia].
  - pose proof (tok_len _ _ _ _ Hop). pose proof (g_id_len _ _ _ Hx).
    erewrite parse_optional_some; [|exact Hop|apply parse_ident_complete; exact Hx].
    cbn [bind]. split; [reflexivity|lia].
Qed.

Lemma parse_use_sound ts x r : parse_use e ts = POk x r -> g_use d ts r x.
Proof.
  unfold parse_use. intros H. sall;
    match goal with Hx : parse_use_path _ _ = _ |- _ => apply parse_use_path_sound in Hx end;
    match goal with Hx : delimited_items _ _ _ _ _ _ = _ |- _ =>
      eapply delimited_items_ok in Hx; [|apply parse_use_item_sound]; destruct Hx as (tr & Hx & _) end.
  - red. gsolve. right. assumption.
  - red. gsolve. left. discriminate.
Qed.

Lemma parse_use_complete ts x r :
  g_use d ts r x -> length ts < fuel e -> parse_use e ts = POk x r /\ length r < length ts.
Proof.
  intros (r1 & r2 & r3 & r4 & r5 & r6 & kw & p & dt & o & c & s & items & tr &
          Hkw & Hp & Hdt & Ho & Hs & Hne & Hc & Hsemi & ->) Hl.
  pose proof (tok_len _ _ _ _ Hkw). pose proof (tok_len _ _ _ _ Hdt). pose proof (tok_len _ _ _ _ Ho).
  pose proof (tok_len _ _ _ _ Hc). pose proof (tok_len _ _ _ _ Hsemi).
  destruct (parse_use_path_complete _ _ _ Hp) as [Hpp Hlp].
  destruct (delim_loop_complete g_use_item e TCloseBrace [TIdent] (parse_use_item e) (fuel e - 1)) with (ts := r4) (x := (items, tr)) (r := r5)
    as [Hd Hl2]; auto; try discriminate.
  { intros ts0 r0 a Ha0 Hl0 Hf. apply parse_use_item_complete; auto. lia. }
  { lia. }
  { eapply tok_peek; eauto. }
  unfold parse_use. tokc Hkw. rewrite Hpp. cbn [bind]. tokc Hdt. tokc Ho.
  unfold delimited_items, delimited. rewrite Hd by lia. cbn [bind].
  assert ((match items with
           | [] => if empty_use_items (dv e) then POk tt r5 else PErr (PE_DocRestriction 4)
           | _ :: _ => POk tt r5 end) = POk tt r5) as ->.
  { destruct items; auto. destruct Hne as [Hne|Hne]; [contradiction|]. fold d. now rewrite Hne. }
  cbn [bind]. tokc Hc. tokc Hsemi. split; [reflexivity|lia].
Qed.

(* -- interface items *)

Lemma parse_func_type_ref_sound ts x r : parse_func_type_ref e ts = POk x r -> g_func_type_ref d ts r x.
Proof.
  unfold parse_func_type_ref. intros H. altinv H; sall.
  - match goal with Hx : parse_func_type _ _ = _ |- _ => apply parse_func_type_sound in Hx end. now constructor.
  - now constructor.
Qed.

Lemma parse_func_type_ref_complete ts x r :
  g_func_type_ref d ts r x -> length ts < fuel e -> semi_follow r ->
  parse_func_type_ref e ts = POk x r /\ length r < length ts.
Proof.
  intros Hg Hl Hf. destruct Hg as [ts r f Hfn|ts r i (t & Ht & ->)]; unfold parse_func_type_ref.
  - destruct (parse_func_type_complete _ _ _ Hfn Hl Hf) as [Hp Hl2]. destruct (g_func_type_tok _ _ _ Hfn) as (r0 & t0 & Ht0).
    split; [|exact Hl2]. eapply alt_complete_tok; [exact Ht0|reflexivity|]. cbv beta. rewrite Hp. reflexivity.
  - split; [|pose proof (tok_len _ _ _ _ Ht); lia]. eapply alt_complete_tok; [exact Ht|reflexivity|]. cbv beta.
    rewrite (parse_ident_complete e ts (mk_ident t) r) by (exists t; auto). reflexivity.
Qed.

Lemma parse_interface_item_sound ts x r : parse_interface_item e ts = POk x r -> g_interface_item d ts r x.
Proof.
  unfold parse_interface_item. intros H. altinv H; sall.
  - match goal with Hx : parse_use _ _ = _ |- _ => apply parse_use_sound in Hx end. now constructor.
  - unfold parse_interface_export in H. sall.
    match goal with Hx : parse_func_type_ref _ _ = _ |- _ => apply parse_func_type_ref_sound in Hx end.
    eapply gii_export; eauto.
  - match goal with Hx : parse_item_type_decl _ _ = _ |- _ => apply parse_item_type_decl_sound in Hx end. now constructor.
Qed.

Lemma g_use_tok ts r x : g_use d ts r x -> exists r0 t, tok TUseKeyword ts r0 t.
Proof. intros (r1 & r2 & r3 & r4 & r5 & r6 & kw & rest). destruct rest as (p & dt & o & c & s & items & tr & Hkw & _). eauto. Qed.

Lemma parse_interface_item_complete ts x r :
  g_interface_item d ts r x -> length ts < fuel e ->
  (exists t ts', ts = LTok t :: ts' /\ mem_tok (tk t) interface_item_first = true) /\
  parse_interface_item e ts = POk x r /\ length r < length ts.
Proof.
  intros Hg Hl. destruct Hg.
  - destruct (parse_use_complete _ _ _ H Hl) as [Hp Hl2]. destruct (g_use_tok _ _ _ H) as (r0 & t0 & Ht0).
    split; [destruct Ht0 as [-> Hk]; do 2 eexists; split; [reflexivity|now rewrite Hk]|]. split; [|exact Hl2].
    unfold parse_interface_item. eapply alt_complete_tok; [exact Ht0|reflexivity|]. cbv beta. rewrite Hp. reflexivity.
  - destruct (parse_item_type_decl_complete _ _ _ H Hl) as (Hp & Hl2 & (t0 & ts' & -> & Hm)).
    split; [do 2 eexists; split; [reflexivity|]|].
    { unfold interface_item_first. cbn [mem_tok]. fold (mem_tok (tk t0) item_type_decl_first). rewrite Hm. now rewrite !orb_true_r. }
    split; [|exact Hl2]. unfold parse_interface_item, alt. cbn [peek_kind alt_find mem_tok].
    assert (token_eqb TUseKeyword (tk t0) = false) as ->.
    { apply token_eqb_neq. intros E. rewrite <- E in Hm. discriminate Hm. }
    assert (token_eqb TIdent (tk t0) = false) as ->.
    { apply token_eqb_neq. intros E. rewrite <- E in Hm. discriminate Hm. }
    cbn [orb]. fold (mem_tok (tk t0) item_type_decl_first). rewrite Hm, Hp. reflexivity.
  - pose proof (g_id_len _ _ _ H). pose proof (tok_len _ _ _ _ H0). pose proof (tok_len _ _ _ _ H2).
    destruct (parse_func_type_ref_complete _ _ _ H1) as [Hp Hl2]; [lia|eapply tok_peek; eauto|].
    destruct H as (t0 & Ht0 & ->).
    split; [destruct Ht0 as [-> Hk]; do 2 eexists; split; [reflexivity|now rewrite Hk]|]. split; [|lia].
    unfold parse_interface_item. eapply alt_complete_tok; [exact Ht0|reflexivity|].
    unfold parse_interface_export. rewrite (parse_ident_complete e ts (mk_ident t0) r1) by (exists t0; auto). cbn [bind].
    tokc H0. rewrite Hp. cbn [bind]. tokc H2. reflexivity.
Qed.

Lemma parse_interface_body_sound ts x r : parse_interface_body e ts = POk x r -> g_interface_body d ts r x.
Proof.
  unfold parse_interface_body. intros H. sall.
  match goal with Hx : delimited_items _ _ _ _ _ _ = _ |- _ =>
    eapply delimited_items_many_ok in Hx; [|apply parse_interface_item_sound]; destruct Hx as [Hx _] end.
  red. gsolve.
Qed.

Lemma parse_interface_body_complete ts x r :
  g_interface_body d ts r x -> length ts < fuel e -> parse_interface_body e ts = POk x r /\ length r < length ts.
Proof.
  intros (r1 & r2 & o & c & Ho & Hm & Hc) Hl. pose proof (tok_len _ _ _ _ Ho). pose proof (tok_len _ _ _ _ Hc).
  destruct (delim_loop_many_complete (g_interface_item d) e TCloseBrace interface_item_first (parse_interface_item e) (fuel e - 1))
    with (ts := r1) (l := x) (r := r2) as [Hd Hl2]; auto; try lia.
  { intros ts0 r0 a Ha Hl0. apply parse_interface_item_complete; auto. lia. }
  { eapply tok_peek; eauto. }
  destruct (Hd (fuel e)) as (tr & Hd'); [lia|].
  unfold parse_interface_body. tokc Ho. unfold delimited_items, delimited. rewrite Hd'. cbn [bind]. tokc Hc.
  split; [reflexivity|lia].
Qed.

Lemma parse_inline_interface_sound ts x r : parse_inline_interface e ts = POk x r -> g_inline_interface d ts r x.
Proof.
  unfold parse_inline_interface. intros H. sall.
  match goal with Hx : parse_interface_body _ _ = _ |- _ => apply parse_interface_body_sound in Hx end. red. gsolve.
Qed.

Lemma parse_inline_interface_complete ts x r :
  g_inline_interface d ts r x -> length ts < fuel e -> parse_inline_interface e ts = POk x r /\ length r < length ts.
Proof.
  intros (r1 & kw & Hkw & Hb) Hl. pose proof (tok_len _ _ _ _ Hkw).
  destruct (parse_interface_body_complete _ _ _ Hb) as [Hp Hl2]; [lia|].
  unfold parse_inline_interface. tokc Hkw. rewrite Hp. split; [reflexivity|lia].
Qed.

(* -- worlds *)

Lemma g_inline_interface_tok ts r x : g_inline_interface d ts r x -> exists r0 t, tok TInterfaceKeyword ts r0 t.
Proof. intros (r1 & kw & Hkw & _). eauto. Qed.

Lemma parse_extern_type_sound ts x r : parse_extern_type e ts = POk x r -> g_extern_type d ts r x.
Proof.
  unfold parse_extern_type. intros H. altinv H; sall.
  - now constructor.
  - match goal with Hx : parse_func_type _ _ = _ |- _ => apply parse_func_type_sound in Hx end. now constructor.
  - match goal with Hx : parse_inline_interface _ _ = _ |- _ => apply parse_inline_interface_sound in Hx end. now constructor.
Qed.

Lemma parse_extern_type_complete ts x r :
  g_extern_type d ts r x -> length ts < fuel e -> semi_follow r ->
  parse_extern_type e ts = POk x r /\ length r < length ts.
Proof.
  intros Hg Hl Hf. destruct Hg as [ts r f Hfn|ts r b Hb|ts r i (t & Ht & ->)]; unfold parse_extern_type.
  - destruct (parse_func_type_complete _ _ _ Hfn Hl Hf) as [Hp Hl2]. destruct (g_func_type_tok _ _ _ Hfn) as (r0 & t0 & Ht0).
    split; [|exact Hl2]. eapply alt_complete_tok; [exact Ht0|reflexivity|]. cbv beta. rewrite Hp. reflexivity.
  - destruct (parse_inline_interface_complete _ _ _ Hb Hl) as [Hp Hl2].
    destruct (g_inline_interface_tok _ _ _ Hb) as (r0 & t0 & Ht0).
    split; [|exact Hl2]. eapply alt_complete_tok; [exact Ht0|reflexivity|]. cbv beta. rewrite Hp. reflexivity.
  - split; [|pose proof (tok_len _ _ _ _ Ht); lia]. eapply alt_complete_tok; [exact Ht|reflexivity|]. cbv beta.
    rewrite (parse_ident_complete e ts (mk_ident t) r) by (exists t; auto). reflexivity.
Qed.

Lemma is_colon_true k : is_colon k = true -> k = Some TColon.
Proof. destruct k as [k|]; cbn; [|discriminate]. intros H. apply token_eqb_eq in H. now subst. Qed.

Lemma parse_world_item_path_sound ts x r : parse_world_item_path e ts = POk x r -> g_world_item_path d ts r x.
Proof.
  unfold parse_world_item_path. intros H. altinv H; sall.
  - now constructor.
  - match goal with Hx : parse_extern_type _ _ = _ |- _ => apply parse_extern_type_sound in Hx end.
    eapply gwp_named; eauto.
  - now constructor.
Qed.

Lemma parse_world_item_path_complete ts x r :
  g_world_item_path d ts r x -> length ts < fuel e -> semi_follow r ->
  parse_world_item_path e ts = POk x r /\ length r < length ts.
Proof.
  intros Hg Hl Hf. destruct Hg as [ts r1 r2 r i c t Hi Hc Ht|ts r p (t & Ht & Hp)|ts r i (t & Ht & ->)];
    unfold parse_world_item_path.
  - pose proof (g_id_len _ _ _ Hi). pose proof (tok_len _ _ _ _ Hc).
    destruct (parse_extern_type_complete _ _ _ Ht) as [Hp Hl2]; [lia|exact Hf|].
    destruct Hi as (t0 & Ht0 & ->). split; [|lia].
    eapply alt_complete_tok; [exact Ht0|reflexivity|]. cbv beta.
    assert (is_colon (peek2_kind ts) = true) as ->.
    { destruct Ht0 as [-> _]. destruct Hc as [-> Hk]. cbn. rewrite Hk. reflexivity. }
    rewrite (parse_ident_complete e ts (mk_ident t0) r1) by (exists t0; auto). cbn [bind]. tokc Hc. rewrite Hp. reflexivity.
  - split; [|pose proof (tok_len _ _ _ _ Ht); lia]. eapply alt_complete_tok; [exact Ht|reflexivity|]. cbv beta.
    rewrite (parse_package_path_complete e ts p r) by (exists t; auto). reflexivity.
  - split; [|pose proof (tok_len _ _ _ _ Ht); lia]. eapply alt_complete_tok; [exact Ht|reflexivity|]. cbv beta.
    assert (is_colon (peek2_kind ts) = false) as ->.
    { destruct Ht as [-> _]. apply peek_kind_Some in Hf. destruct Hf as (t1 & r' & -> & Hk). cbn. now rewrite Hk. }
    rewrite (parse_ident_complete e ts (mk_ident t) r) by (exists t; auto). reflexivity.
Qed.

Lemma parse_world_ref_sound ts x r : parse_world_ref e ts = POk x r -> g_world_ref ts r x.
Proof. unfold parse_world_ref. intros H. altinv H; sall; constructor; assumption. Qed.

Lemma parse_world_ref_complete ts x r : g_world_ref ts r x -> parse_world_ref e ts = POk x r /\ length ts = S (length r).
Proof.
  destruct 1 as [ts r p (t & Ht & Hp)|ts r i (t & Ht & ->)]; (split; [|eapply tok_len; eauto]); unfold parse_world_ref.
  - eapply alt_complete_tok; [exact Ht|reflexivity|]. cbv beta.
    rewrite (parse_package_path_complete e ts p r) by (exists t; auto). reflexivity.
  - eapply alt_complete_tok; [exact Ht|reflexivity|]. cbv beta.
    rewrite (parse_ident_complete e ts (mk_ident t) r) by (exists t; auto). reflexivity.
Qed.

Lemma parse_include_item_sound ts x r : parse_include_item e ts = POk x r -> g_include_item ts r x.
Proof. unfold parse_include_item. intros H. sall. red. gsolve. Qed.

Lemma parse_include_item_complete ts x r :
  g_include_item ts r x -> length ts < fuel e -> item_follow TCloseBrace r ->
  (exists t ts', ts = LTok t :: ts' /\ mem_tok (tk t) [TIdent] = true) /\
  parse_include_item e ts = POk x r /\ length r < length ts.
Proof.
  intros (r1 & r2 & a & kw & b & Ha & Hkw & Hb & ->) Hl Hf. split; [eapply g_id_first; eauto|].
  pose proof (g_id_len _ _ _ Ha). pose proof (tok_len _ _ _ _ Hkw). pose proof (g_id_len _ _ _ Hb).
  unfold parse_include_item. rewrite (parse_ident_complete e _ _ _ Ha). cbn [bind]. tokc Hkw.
  rewrite (parse_ident_complete e _ _ _ Hb). cbn [bind]. split; [reflexivity|lia].
Qed.

Definition g_with_clause : drel (list include_item) := fun a b items => exists b1 b2 o c tr,
  tok TOpenBrace a b1 o /\ seplist g_include_item b1 b2 (items, tr) /\
  (items <> [] \/ empty_include_with d = true) /\ tok TCloseBrace b2 b c.

Lemma parse_world_include_sound ts x r : parse_world_include e ts = POk x r -> g_world_item d ts r x.
Proof.
  unfold parse_world_include. intros H. sall.
  match goal with Hx : parse_world_ref _ _ = _ |- _ => apply parse_world_ref_sound in Hx end.
  match goal with Hx : parse_optional _ _ _ = _ |- _ => eapply (parse_optional_ok _ _ g_with_clause) in Hx end.
  2:{ intros tsA xA rA HA. sall;
        match goal with Hx : delimited_items _ _ _ _ _ _ = _ |- _ =>
          eapply delimited_items_ok in Hx; [|apply parse_include_item_sound]; destruct Hx as (tr & Hx & _) end.
      - red. gsolve. right. assumption.
      - red. gsolve. left. discriminate. }
  eapply gwi_include; eauto.
Qed.

Lemma parse_world_item_sound ts x r : parse_world_item e ts = POk x r -> g_world_item d ts r x.
Proof.
  unfold parse_world_item. intros H. altinv H; sall.
  - match goal with Hx : parse_use _ _ = _ |- _ => apply parse_use_sound in Hx end. now constructor.
  - unfold parse_world_port in H. sall.
    match goal with Hx : parse_world_item_path _ _ = _ |- _ => apply parse_world_item_path_sound in Hx end.
    eapply gwi_import; eauto.
  - unfold parse_world_port in H. sall.
    match goal with Hx : parse_world_item_path _ _ = _ |- _ => apply parse_world_item_path_sound in Hx end.
    eapply gwi_export; eauto.
  - now apply parse_world_include_sound.
  - match goal with Hx : parse_item_type_decl _ _ = _ |- _ => apply parse_item_type_decl_sound in Hx end. now constructor.
Qed.

Lemma parse_world_item_complete ts x r :
  g_world_item d ts r x -> length ts < fuel e ->
  (exists t ts', ts = LTok t :: ts' /\ mem_tok (tk t) world_item_first = true) /\
  parse_world_item e ts = POk x r /\ length r < length ts.
Proof.
  intros Hg Hl. destruct Hg.
  - destruct (parse_use_complete _ _ _ H Hl) as [Hp Hl2]. destruct (g_use_tok _ _ _ H) as (r0 & t0 & Ht0).
    split; [destruct Ht0 as [-> Hk]; do 2 eexists; split; [reflexivity|now rewrite Hk]|]. split; [|exact Hl2].
    unfold parse_world_item. eapply alt_complete_tok; [exact Ht0|reflexivity|]. cbv beta. rewrite Hp. reflexivity.
  - destruct (parse_item_type_decl_complete _ _ _ H Hl) as (Hp & Hl2 & (t0 & ts' & -> & Hm)).
    split; [do 2 eexists; split; [reflexivity|]|].
    { unfold world_item_first. cbn [mem_tok]. fold (mem_tok (tk t0) item_type_decl_first). rewrite Hm. now rewrite !orb_true_r. }
    split; [|exact Hl2]. unfold parse_world_item, alt. cbn [peek_kind alt_find mem_tok].
    assert (token_eqb TUseKeyword (tk t0) = false) as -> by (apply token_eqb_neq; intros E; rewrite <- E in Hm; discriminate Hm).
    assert (token_eqb TImportKeyword (tk t0) = false) as -> by (apply token_eqb_neq; intros E; rewrite <- E in Hm; discriminate Hm).
    assert (token_eqb TExportKeyword (tk t0) = false) as -> by (apply token_eqb_neq; intros E; rewrite <- E in Hm; discriminate Hm).
    assert (token_eqb TIncludeKeyword (tk t0) = false) as -> by (apply token_eqb_neq; intros E; rewrite <- E in Hm; discriminate Hm).
    cbn [orb]. fold (mem_tok (tk t0) item_type_decl_first). rewrite Hm, Hp. reflexivity.
  - pose proof (tok_len _ _ _ _ H). pose proof (tok_len _ _ _ _ H1).
    destruct (parse_world_item_path_complete _ _ _ H0) as [Hp Hl2]; [lia|eapply tok_peek; eauto|].
    split; [destruct H as [-> Hk]; do 2 eexists; split; [reflexivity|now rewrite Hk]|]. split; [|lia].
    unfold parse_world_item. eapply alt_complete_tok; [exact H|reflexivity|].
    unfold parse_world_port. tokc H. rewrite Hp. cbn [bind]. tokc H1. reflexivity.
  - pose proof (tok_len _ _ _ _ H). pose proof (tok_len _ _ _ _ H1).
    destruct (parse_world_item_path_complete _ _ _ H0) as [Hp Hl2]; [lia|eapply tok_peek; eauto|].
    split; [destruct H as [-> Hk]; do 2 eexists; split; [reflexivity|now rewrite Hk]|]. split; [|lia].
    unfold parse_world_item. eapply alt_complete_tok; [exact H|reflexivity|].
    unfold parse_world_port. tokc H. rewrite Hp. cbn [bind]. tokc H1. reflexivity.
  - pose proof (tok_len _ _ _ _ H). pose proof (tok_len _ _ _ _ H2).
    destruct (parse_world_ref_complete _ _ _ H0) as [Hp Hlp].
    split; [destruct H as [-> Hk]; do 2 eexists; split; [reflexivity|now rewrite Hk]|].
    assert (parse_optional TWithKeyword (fun r2 =>
              parse_token e TOpenBrace r2 >>= fun _ r3 =>
              delimited_items e TCloseBrace true [TIdent] (parse_include_item e) r3 >>= fun items r4 =>
              match items with
              | [] => if empty_include_with (dv e) then POk tt r4 else PErr (PE_DocRestriction 5)
              | _ :: _ => POk tt r4
              end >>= fun _ r4 =>
              parse_token e TCloseBrace r4 >>= fun _ r5 => POk items r5) r2 = POk wi r3 /\ length r3 <= length r2) as [Ho Hl3].
    { destruct H1 as [ts0|ts0 r5 r6 wt items Hw (b1 & b2 & o & c & tr & Ho & Hs & Hne & Hc)].
      - split; [|lia]. apply parse_optional_none. destruct H2 as [-> Hk]. cbn. congruence.
      - pose proof (tok_len _ _ _ _ Hw). pose proof (tok_len _ _ _ _ Ho). pose proof (tok_len _ _ _ _ Hc).
        destruct (delim_loop_complete g_include_item e TCloseBrace [TIdent] (parse_include_item e) (fuel e - 1))
          with (ts := b1) (x := (items, tr)) (r := b2) as [Hd Hl2]; auto; try discriminate.
        { intros ts1 r1' a Ha0 Hl0 Hf. apply parse_include_item_complete; auto. lia. }
        { lia. }
        { eapply tok_peek; eauto. }
        split; [|lia]. erewrite parse_optional_some; [reflexivity|exact Hw|]. tokc Ho.
        unfold delimited_items, delimited. rewrite Hd by lia. cbn [bind].
        assert ((match items with
                 | [] => if empty_include_with (dv e) then POk tt b2 else PErr (PE_DocRestriction 5)
                 | _ :: _ => POk tt b2 end) = POk tt b2) as ->.
        { destruct items; auto. destruct Hne as [Hne|Hne]; [contradiction|]. fold d. now rewrite Hne. }
        cbn [bind]. tokc Hc. reflexivity. }
    split; [|lia]. unfold parse_world_item. eapply alt_complete_tok; [exact H|reflexivity|].
    unfold parse_world_include. tokc H. rewrite Hp. cbn [bind]. rewrite Ho. cbn [bind]. tokc H2. reflexivity.
Qed.

(* -- type statements *)

Lemma parse_type_statement_sound ts x r : parse_type_statement e ts = POk x r -> g_type_statement d ts r x.
Proof.
  unfold parse_type_statement. intros H. altinv H; sall.
  - unfold parse_interface_decl in H. sall.
    match goal with Hx : parse_interface_body _ _ = _ |- _ => apply parse_interface_body_sound in Hx end.
    eapply gts_interface; eauto.
  - unfold parse_world_decl in H. sall.
    match goal with Hx : delimited_items _ _ _ _ _ _ = _ |- _ =>
      eapply delimited_items_many_ok in Hx; [|apply parse_world_item_sound]; destruct Hx as [Hx _] end.
    eapply gts_world; eauto.
  - match goal with Hx : parse_type_decl _ _ = _ |- _ => apply parse_type_decl_sound in Hx end. now constructor.
Qed.

Lemma parse_type_statement_complete ts x r :
  g_type_statement d ts r x -> length ts < fuel e ->
  (exists t ts', ts = LTok t :: ts' /\ mem_tok (tk t) type_statement_first = true) /\
  parse_type_statement e ts = POk x r /\ length r < length ts.
Proof.
  intros Hg Hl. destruct Hg.
  - pose proof (tok_len _ _ _ _ H). pose proof (g_id_len _ _ _ H0).
    destruct (parse_interface_body_complete _ _ _ H1) as [Hp Hl2]; [lia|].
    split; [destruct H as [-> Hk]; do 2 eexists; split; [reflexivity|now rewrite Hk]|]. split; [|lia].
    unfold parse_type_statement. eapply alt_complete_tok; [exact H|reflexivity|].
    unfold parse_interface_decl. tokc H. rewrite (parse_ident_complete e _ _ _ H0). cbn [bind]. rewrite Hp. reflexivity.
  - pose proof (tok_len _ _ _ _ H). pose proof (g_id_len _ _ _ H0). pose proof (tok_len _ _ _ _ H1).
    pose proof (tok_len _ _ _ _ H3).
    destruct (delim_loop_many_complete (g_world_item d) e TCloseBrace world_item_first (parse_world_item e) (fuel e - 1))
      with (ts := r3) (l := items) (r := r4) as [Hd Hl2]; auto; try lia.
    { intros ts0 r0 a Ha Hl0. apply parse_world_item_complete; auto. lia. }
    { eapply tok_peek; eauto. }
    destruct (Hd (fuel e)) as (tr & Hd'); [lia|].
    split; [destruct H as [-> Hk]; do 2 eexists; split; [reflexivity|now rewrite Hk]|]. split; [|lia].
    unfold parse_type_statement. eapply alt_complete_tok; [exact H|reflexivity|].
    unfold parse_world_decl. tokc H. rewrite (parse_ident_complete e _ _ _ H0). cbn [bind]. tokc H1.
    unfold delimited_items, delimited. rewrite Hd'. cbn [bind]. tokc H3. reflexivity.
  - destruct (type_decl_branch _ _ _ H Hl) as (k & r0 & t & p & Ht & Hm & Hf & Hp & Hl2).
    split; [destruct Ht as [-> Hk]; do 2 eexists; split; [reflexivity|]|].
    { rewrite Hk. unfold type_statement_first. cbn [mem_tok]. fold (mem_tok k type_decl_first). rewrite Hm. now rewrite !orb_true_r. }
    split; [|exact Hl2]. unfold parse_type_statement. eapply alt_complete_tok; [exact Ht| |].
    + cbn [alt_find mem_tok].
      assert (token_eqb TInterfaceKeyword k = false) as -> by (apply token_eqb_neq; intros <-; discriminate Hm).
      assert (token_eqb TWorldKeyword k = false) as -> by (apply token_eqb_neq; intros <-; discriminate Hm).
      cbn [orb]. fold (mem_tok k type_decl_first). rewrite Hm. reflexivity.
    + cbv beta. unfold parse_type_decl. erewrite alt_complete_tok; [reflexivity|exact Ht|exact Hf|exact Hp].
Qed.

(* ------------------------------------------------------------------ expressions *)

Lemma parse_arg_name_sound ts x r : parse_arg_name e ts = POk x r -> g_arg_name ts r x.
Proof. unfold parse_arg_name. intros H. altinv H; sall; constructor; assumption. Qed.

Lemma parse_arg_name_complete ts x r : g_arg_name ts r x -> parse_arg_name e ts = POk x r /\ length ts = S (length r).
Proof.
  destruct 1 as [ts r i (t & Ht & ->)|ts r s (t & Ht & Hs)]; (split; [|eapply tok_len; eauto]); unfold parse_arg_name.
  - eapply alt_complete_tok; [exact Ht|reflexivity|]. cbv beta.
    rewrite (parse_ident_complete e ts (mk_ident t) r) by (exists t; auto). reflexivity.
  - eapply alt_complete_tok; [exact Ht|reflexivity|]. cbv beta.
    rewrite (parse_string_complete e ts s r) by (exists t; auto). reflexivity.
Qed.

Lemma g_arg_name_first ts r x : g_arg_name ts r x -> exists t ts', ts = LTok t :: ts' /\ mem_tok (tk t) [TIdent; TString] = true.
Proof.
  destruct 1 as [ts r i (t & [-> Hk] & _)|ts r s (t & [-> Hk] & _)]; do 2 eexists; (split; [reflexivity|now rewrite Hk]).
Qed.

(** What may follow an expression: anything but a postfix operator. *)
Definition expr_follow (r : list lexitem) : Prop := peek_kind r <> Some TDot /\ peek_kind r <> Some TOpenBracket.

Lemma postfix_loop_sound n : forall ts post r, postfix_loop n e ts = POk post r -> many g_postfix ts r post.
Proof.
  induction n as [|n IH]; intros ts post r; cbn [postfix_loop]; [discriminate|].
  destruct (peek_kind ts) as [k|] eqn:Ek.
  - destruct (token_eqb k TDot) eqn:Ed.
    + intros H. sall. match goal with Hx : postfix_loop _ _ _ = _ |- _ => apply IH in Hx end.
      econstructor; [|eassumption]. eapply gpf_access; eauto.
    + destruct (token_eqb k TOpenBracket) eqn:Eo.
      * intros H. sall. match goal with Hx : postfix_loop _ _ _ = _ |- _ => apply IH in Hx end.
        econstructor; [|eassumption]. eapply gpf_named; eauto.
      * intros H. sall. constructor.
  - intros H. sall. constructor.
Qed.

Lemma postfix_loop_complete ts post r :
  many g_postfix ts r post -> expr_follow r ->
  forall n, length ts < n -> postfix_loop n e ts = POk post r /\ length r <= length ts.
Proof.
  intros Hm Hf. induction Hm as [ts|ts r1 r a l Ha Hm IH]; intros n Hl; (destruct n as [|n]; [lia|]); cbn [postfix_loop].
  - split; [|lia]. destruct Hf as [Hf1 Hf2]. destruct (peek_kind ts) as [k|] eqn:Ek; auto.
    destruct (token_eqb k TDot) eqn:Ed; [apply token_eqb_eq in Ed; congruence|].
    destruct (token_eqb k TOpenBracket) eqn:Eo; [apply token_eqb_eq in Eo; congruence|]. reflexivity.
  - destruct Ha.
    + pose proof (tok_len _ _ _ _ H). pose proof (g_id_len _ _ _ H0).
      destruct (IH Hf n) as [Hp Hl2]; [lia|]. split; [|lia].
      rewrite (tok_peek _ _ _ _ H). cbn [token_eqb token_code N.eqb Pos.eqb]. tokc H.
      rewrite (parse_ident_complete e _ _ _ H0). cbn [bind]. rewrite Hp. reflexivity.
    + pose proof (tok_len _ _ _ _ H). pose proof (tok_len _ _ _ _ H1).
      destruct H0 as (t0 & Ht0 & Hs0). pose proof (tok_len _ _ _ _ Ht0).
      destruct (IH Hf n) as [Hp Hl2]; [lia|]. split; [|lia].
      rewrite (tok_peek _ _ _ _ H). cbn [token_eqb token_code N.eqb Pos.eqb]. tokc H.
      rewrite (parse_string_complete e r1 s r2) by (exists t0; auto). cbn [bind]. tokc H1. rewrite Hp. reflexivity.
Qed.

Lemma parse_inst_arg_sound (self : parser expr) :
  (forall ts x r, self ts = POk x r -> g_expr d ts r x) ->
  forall ts a r, parse_inst_arg self e ts = POk a r -> g_arg d ts r a.
Proof.
  intros Hs ts a r. unfold parse_inst_arg. destruct (peek_kind ts) as [k|] eqn:Ek; [|intros H; sall].
  destruct (token_eqb k TEllipsis) eqn:Ee.
  - apply token_eqb_eq in Ee. subst k. intros H. sall.
    + cbn [peek_kind] in Ek. inversion Ek. apply gar_fill. split; auto.
    + cbn [peek_kind] in Ek. inversion Ek. eapply gar_spread; eauto. split; auto.
  - destruct (mem_tok k [TIdent; TString]) eqn:Em; [|intros H; sall].
    destruct (is_colon (peek2_kind ts)) eqn:Ec; intros H; sall.
    + match goal with Hx : parse_arg_name _ _ = _ |- _ => apply parse_arg_name_sound in Hx end.
      match goal with Hx : self _ = _ |- _ => apply Hs in Hx end. eapply gar_named; eauto.
    + now apply gar_inferred.
Qed.

Lemma g_arg_first ts r a : g_arg d ts r a -> exists t ts', ts = LTok t :: ts' /\ mem_tok (tk t) inst_arg_first = true.
Proof.
  destruct 1.
  - destruct H as (t & [-> Hk] & _). do 2 eexists. split; [reflexivity|now rewrite Hk].
  - destruct H as [-> Hk]. do 2 eexists. split; [reflexivity|now rewrite Hk].
  - destruct (g_arg_name_first _ _ _ H) as (t & ts' & -> & Hm). do 2 eexists. split; [reflexivity|].
    unfold inst_arg_first. cbn [mem_tok] in *. rewrite Hm. apply orb_true_r.
  - destruct H as [-> Hk]. do 2 eexists. split; [reflexivity|now rewrite Hk].
Qed.

Lemma item_follow_expr_follow until r : until <> TDot -> until <> TOpenBracket -> item_follow until r -> expr_follow r.
Proof. intros H1 H2 [H|H]; split; rewrite H; congruence. Qed.

Lemma parse_inst_arg_complete (self : parser expr) m :
  (forall ts r x, g_expr d ts r x -> length ts <= m -> expr_follow r -> self ts = POk x r /\ length r < length ts) ->
  forall ts r a, g_arg d ts r a -> length ts <= S m -> item_follow TCloseBrace r ->
  parse_inst_arg self e ts = POk a r /\ length r < length ts.
Proof.
  intros Hs ts r a Hg Hl Hf. destruct Hg.
  - (* inferred *) destruct H as (t & [-> Hk] & ->). split; [|cbn; lia].
    unfold parse_inst_arg. cbn [peek_kind]. rewrite Hk. cbn [token_eqb token_code N.eqb Pos.eqb mem_tok orb].
    assert (is_colon (peek2_kind (LTok t :: r)) = false) as ->.
    { cbn [peek2_kind]. destruct Hf as [Hf|Hf]; rewrite Hf; reflexivity. }
    unfold parse_ident, next_tok. rewrite Hk. reflexivity.
  - (* spread *) destruct H as [-> Hk]. pose proof (g_id_len _ _ _ H0). split; [|cbn; lia].
    unfold parse_inst_arg. cbn [peek_kind]. rewrite Hk. cbn [token_eqb token_code N.eqb Pos.eqb any_tok bind].
    assert (peek_in [TComma; TCloseBrace] r1 = false) as ->.
    { destruct H0 as (t & [-> Hk1] & _). unfold peek_in. cbn [peek_kind]. now rewrite Hk1. }
    rewrite (parse_ident_complete e _ _ _ H0). reflexivity.
  - (* named *) destruct (parse_arg_name_complete _ _ _ H) as [Hp Hlp]. pose proof (tok_len _ _ _ _ H0).
    destruct (Hs _ _ _ H1) as [Hx Hl2]; [lia|eapply item_follow_expr_follow; eauto; discriminate|]. split; [|lia].
    destruct (g_arg_name_first _ _ _ H) as (t & ts' & -> & Hm).
    unfold parse_inst_arg. cbn [peek_kind].
    assert (token_eqb (tk t) TEllipsis = false) as ->.
    { apply token_eqb_neq. intros E. rewrite E in Hm. discriminate Hm. }
    rewrite Hm.
    assert (is_colon (peek2_kind (LTok t :: ts')) = true) as ->.
    { cbn [peek2_kind]. assert (ts' = r1) as -> by (inversion H as [? ? ? (t1 & [E _] & _)|? ? ? (t1 & [E _] & _)]; subst; now inversion E).
      rewrite (tok_peek _ _ _ _ H0). reflexivity. }
    rewrite Hp. cbn [bind]. tokc H0. rewrite Hx. reflexivity.
  - (* fill *) destruct H as [-> Hk]. split; [|cbn; lia].
    unfold parse_inst_arg. cbn [peek_kind]. rewrite Hk. cbn [token_eqb token_code N.eqb Pos.eqb any_tok bind].
    assert (peek_in [TComma; TCloseBrace] r = true) as ->.
    { unfold peek_in. destruct Hf as [Hf|Hf]; rewrite Hf; reflexivity. }
    reflexivity.
Qed.

Lemma expr_step_sound (self : parser expr) :
  (forall ts x r, self ts = POk x r -> g_expr d ts r x) ->
  forall ts x r, expr_step self e ts = POk x r -> g_expr d ts r x.
Proof.
  intros Hs ts x r. unfold expr_step. intros H. sall.
  match goal with Hx : postfix_loop _ _ _ = _ |- _ => apply postfix_loop_sound in Hx end.
  econstructor; [|eassumption].
  match goal with Hx : primary_step _ _ _ = _ |- _ => unfold primary_step in Hx; altinv Hx end; sall.
  - match goal with Hx : delimited _ _ _ _ _ _ = _ |- _ =>
      unfold delimited in Hx; eapply delim_loop_ok in Hx; [|apply parse_inst_arg_sound; exact Hs]; destruct Hx as [Hx _] end.
    eapply gp_new; eauto. apply seplist_g_args; eauto.
  - match goal with Hx : self _ = _ |- _ => apply Hs in Hx end. eapply gp_nested; eauto.
  - now apply gp_id.
Qed.

Lemma parse_expr_f_sound f : forall ts x r, parse_expr_f f e ts = POk x r -> g_expr d ts r x.
Proof. induction f as [|f IH]; cbn; [discriminate|]. apply expr_step_sound. exact IH. Qed.

Lemma parse_expr_sound ts x r : parse_expr e ts = POk x r -> g_expr d ts r x.
Proof. apply parse_expr_f_sound. Qed.

Lemma parse_expr_f_complete f :
  forall ts r x, g_expr d ts r x -> length ts <= f -> length ts < fuel e -> expr_follow r ->
  parse_expr_f f e ts = POk x r /\ length r < length ts.
Proof.
  induction f as [|f IH]; intros ts r x Hg Hlen Hfe Hfol.
  { destruct Hg as [ts r1 r p post Hp _]. destruct Hp as [? ? ? ? ? ? ? ? ? ? ? ? [-> _]|? ? ? ? ? ? ? [-> _]|? ? ? (t & [-> _] & _)]; cbn in Hlen; lia. }
  cbn [parse_expr_f]. set (self := parse_expr_f f e).
  assert (Hself : forall ts r x, g_expr d ts r x -> length ts <= Nat.min f (fuel e - 1) -> expr_follow r ->
                                 self ts = POk x r /\ length r < length ts).
  { intros tsA rA xA HgA HlA HfA. apply IH; auto; lia. }
  clearbody self. clear IH.
  destruct Hg as [ts r1 r p post Hp Hpost]. unfold expr_step.
  assert (primary_step self e ts = POk p r1 /\ length r1 < length ts) as [Hprim Hl1].
  { destruct Hp as [ts q1 q2 q3 q4 r1 kw pkg o c args tr Hkw Hpkg Ho Hargs Hok Hc
                   |ts q1 q2 r1 o c x Ho Hx Hc
                   |ts r1 i Hi].
    - (* new *)
      pose proof (tok_len _ _ _ _ Hkw). pose proof (tok_len _ _ _ _ Ho). pose proof (tok_len _ _ _ _ Hc).
      destruct Hpkg as (tp & Htp & Hpk). pose proof (tok_len _ _ _ _ Htp).
      destruct (delim_loop_complete (g_arg d) e TCloseBrace inst_arg_first (parse_inst_arg self e) (Nat.min f (fuel e - 1)))
        with (ts := q3) (x := (args, tr)) (r := q4) as [Hd Hl2]; auto; try discriminate.
      { intros tsA rA aA HaA HlA HfA. split; [eapply g_arg_first; eauto|].
        eapply parse_inst_arg_complete; eauto. }
      { apply g_args_seplist; auto. }
      { lia. }
      { eapply tok_peek; eauto. }
      split; [|lia]. unfold primary_step. eapply alt_complete_tok; [exact Hkw|reflexivity|]. cbv beta.
      tokc Hkw. rewrite (parse_package_name_complete e q1 pkg q2) by (exists tp; auto). cbn [bind]. tokc Ho.
      unfold delimited. rewrite Hd by lia. cbn [bind]. fold d. rewrite Hok. tokc Hc. reflexivity.
    - (* nested *)
      pose proof (tok_len _ _ _ _ Ho). pose proof (tok_len _ _ _ _ Hc).
      destruct (Hself _ _ _ Hx) as [Hxx Hl2]; [lia|split; rewrite (tok_peek _ _ _ _ Hc); congruence|].
      split; [|lia]. unfold primary_step. eapply alt_complete_tok; [exact Ho|reflexivity|]. cbv beta.
      tokc Ho. rewrite Hxx. cbn [bind]. tokc Hc. reflexivity.
    - (* id *)
      destruct Hi as (t & Ht & ->). pose proof (tok_len _ _ _ _ Ht). split; [|lia].
      unfold primary_step. eapply alt_complete_tok; [exact Ht|reflexivity|]. cbv beta.
      rewrite (parse_ident_complete e ts (mk_ident t) r1) by (exists t; auto). reflexivity. }
  destruct (postfix_loop_complete _ _ _ Hpost Hfol (fuel e)) as [Hpl Hl2]; [lia|].
  rewrite Hprim. cbn [bind]. rewrite Hpl. cbn [bind]. split; [reflexivity|lia].
Qed.

Lemma parse_expr_complete ts r x :
  g_expr d ts r x -> length ts < fuel e -> expr_follow r -> parse_expr e ts = POk x r /\ length r < length ts.
Proof. intros Hg Hl Hf. apply parse_expr_f_complete; auto. lia. Qed.

(* ------------------------------------------------------------------ statements *)

Lemma parse_extern_name_sound ts x r : parse_extern_name e ts = POk x r -> g_extern_name ts r x.
Proof. unfold parse_extern_name. intros H. altinv H; sall; constructor; assumption. Qed.

Lemma parse_extern_name_complete ts x r : g_extern_name ts r x -> parse_extern_name e ts = POk x r /\ length ts = S (length r).
Proof.
  destruct 1 as [ts r i (t & Ht & ->)|ts r s (t & Ht & Hs)]; (split; [|eapply tok_len; eauto]); unfold parse_extern_name.
  - eapply alt_complete_tok; [exact Ht|reflexivity|]. cbv beta.
    rewrite (parse_ident_complete e ts (mk_ident t) r) by (exists t; auto). reflexivity.
  - eapply alt_complete_tok; [exact Ht|reflexivity|]. cbv beta.
    rewrite (parse_string_complete e ts s r) by (exists t; auto). reflexivity.
Qed.

Lemma parse_import_type_sound ts x r : parse_import_type e ts = POk x r -> g_import_type d ts r x.
Proof.
  unfold parse_import_type. intros H. altinv H; sall.
  - match goal with Hx : parse_func_type _ _ = _ |- _ => apply parse_func_type_sound in Hx end. now constructor.
  - match goal with Hx : parse_inline_interface _ _ = _ |- _ => apply parse_inline_interface_sound in Hx end. now constructor.
  - now constructor.
  - now constructor.
Qed.

Lemma parse_import_type_complete ts x r :
  g_import_type d ts r x -> length ts < fuel e -> semi_follow r ->
  parse_import_type e ts = POk x r /\ length r < length ts.
Proof.
  intros Hg Hl Hf. destruct Hg as [ts r p (t & Ht & Hp)|ts r f Hfn|ts r b Hb|ts r i (t & Ht & ->)]; unfold parse_import_type.
  - split; [|pose proof (tok_len _ _ _ _ Ht); lia]. eapply alt_complete_tok; [exact Ht|reflexivity|]. cbv beta.
    rewrite (parse_package_path_complete e ts p r) by (exists t; auto). reflexivity.
  - destruct (parse_func_type_complete _ _ _ Hfn Hl Hf) as [Hp Hl2]. destruct (g_func_type_tok _ _ _ Hfn) as (r0 & t0 & Ht0).
    split; [|exact Hl2]. eapply alt_complete_tok; [exact Ht0|reflexivity|]. cbv beta. rewrite Hp. reflexivity.
  - destruct (parse_inline_interface_complete _ _ _ Hb Hl) as [Hp Hl2].
    destruct (g_inline_interface_tok _ _ _ Hb) as (r0 & t0 & Ht0).
    split; [|exact Hl2]. eapply alt_complete_tok; [exact Ht0|reflexivity|]. cbv beta. rewrite Hp. reflexivity.
  - split; [|pose proof (tok_len _ _ _ _ Ht); lia]. eapply alt_complete_tok; [exact Ht|reflexivity|]. cbv beta.
    rewrite (parse_ident_complete e ts (mk_ident t) r) by (exists t; auto). reflexivity.
Qed.

Lemma parse_export_options_sound ts x r : parse_export_options e ts = POk x r -> g_export_options ts r x.
Proof.
  unfold parse_export_options. intros H. sall.
  - now constructor.
  - match goal with Hx : parse_extern_name _ _ = _ |- _ => apply parse_extern_name_sound in Hx end.
    eapply geo_rename; eauto.
  - constructor.
Qed.

Lemma parse_export_options_complete ts x r :
  g_export_options ts r x -> semi_follow r -> parse_export_options e ts = POk x r /\ length r <= length ts.
Proof.
  intros Hg Hf. destruct Hg as [ts|ts r el Hel|ts r1 r kw n Hkw Hn]; unfold parse_export_options.
  - rewrite !peek_in_false_semi by (auto; reflexivity). split; [reflexivity|lia].
  - pose proof (tok_len _ _ _ _ Hel). split; [|lia].
    assert (peek_in [TEllipsis] ts = true) as ->.
    { destruct Hel as [-> Hk]. unfold peek_in. cbn [peek_kind]. now rewrite Hk. }
    tokc Hel. reflexivity.
  - pose proof (tok_len _ _ _ _ Hkw). destruct (parse_extern_name_complete _ _ _ Hn) as [Hp Hl2]. split; [|lia].
    assert (peek_in [TEllipsis] ts = false) as ->.
    { destruct Hkw as [-> Hk]. unfold peek_in. cbn [peek_kind]. now rewrite Hk. }
    assert (peek_in [TAsKeyword] ts = true) as ->.
    { destruct Hkw as [-> Hk]. unfold peek_in. cbn [peek_kind]. now rewrite Hk. }
    tokc Hkw. rewrite Hp. reflexivity.
Qed.

Lemma parse_statement_sound ts x r : parse_statement e ts = POk x r -> g_statement d ts r x.
Proof.
  unfold parse_statement. intros H. altinv H; sall.
  - unfold parse_import_statement in H. sall.
    match goal with Hx : parse_optional _ _ _ = _ |- _ => eapply parse_optional_ok in Hx; [|apply parse_extern_name_sound] end.
    match goal with Hx : parse_import_type _ _ = _ |- _ => apply parse_import_type_sound in Hx end.
    eapply gs_import; eauto.
  - unfold parse_let_statement in H. sall.
    match goal with Hx : parse_expr _ _ = _ |- _ => apply parse_expr_sound in Hx end. eapply gs_let; eauto.
  - unfold parse_export_statement in H. sall.
    match goal with Hx : parse_expr _ _ = _ |- _ => apply parse_expr_sound in Hx end.
    match goal with Hx : parse_export_options _ _ = _ |- _ => apply parse_export_options_sound in Hx end.
    eapply gs_export; eauto.
  - match goal with Hx : parse_type_statement _ _ = _ |- _ => apply parse_type_statement_sound in Hx end. now constructor.
Qed.

Lemma semi_expr_follow r : semi_follow r -> expr_follow r.
Proof. intros H. red in H. unfold next_is in H. split; rewrite H; congruence. Qed.

Lemma parse_statement_complete ts x r :
  g_statement d ts r x -> length ts < fuel e -> parse_statement e ts = POk x r /\ length r < length ts.
Proof.
  intros Hg Hl. destruct Hg.
  - (* import *)
    pose proof (tok_len _ _ _ _ H). pose proof (g_id_len _ _ _ H0). pose proof (tok_len _ _ _ _ H2).
    pose proof (tok_len _ _ _ _ H4).
    assert (parse_optional TAsKeyword (parse_extern_name e) r2 = POk name r3 /\ length r3 <= length r2) as [Ho Hl3].
    { destruct H1 as [ts0|ts0 r6 r7 a n Ha Hn].
      - split; [|lia]. apply parse_optional_none. destruct H2 as [-> Hk]. cbn. congruence.
      - pose proof (tok_len _ _ _ _ Ha). destruct (parse_extern_name_complete _ _ _ Hn) as [Hp Hl2]. split; [|lia].
        erewrite parse_optional_some; eauto. }
    destruct (parse_import_type_complete _ _ _ H3) as [Hp Hl2]; [lia|eapply tok_peek; eauto|]. split; [|lia].
    unfold parse_statement. eapply alt_complete_tok; [exact H|reflexivity|].
    unfold parse_import_statement. tokc H. rewrite (parse_ident_complete e _ _ _ H0). cbn [bind]. rewrite Ho. cbn [bind].
    tokc H2. rewrite Hp. cbn [bind]. tokc H4. reflexivity.
  - (* type statement *)
    destruct (parse_type_statement_complete _ _ _ H Hl) as ((t0 & ts' & -> & Hm) & Hp & Hl2). split; [|exact Hl2].
    unfold parse_statement, alt. cbn [peek_kind alt_find mem_tok].
    assert (token_eqb TImportKeyword (tk t0) = false) as -> by (apply token_eqb_neq; intros E; rewrite <- E in Hm; discriminate Hm).
    assert (token_eqb TLetKeyword (tk t0) = false) as -> by (apply token_eqb_neq; intros E; rewrite <- E in Hm; discriminate Hm).
    assert (token_eqb TExportKeyword (tk t0) = false) as -> by (apply token_eqb_neq; intros E; rewrite <- E in Hm; discriminate Hm).
    cbn [orb]. fold (mem_tok (tk t0) type_statement_first). rewrite Hm, Hp. reflexivity.
  - (* let *)
    pose proof (tok_len _ _ _ _ H). pose proof (g_id_len _ _ _ H0). pose proof (tok_len _ _ _ _ H1).
    pose proof (tok_len _ _ _ _ H3).
    destruct (parse_expr_complete _ _ _ H2) as [Hp Hl2]; [lia|apply semi_expr_follow; eapply tok_peek; eauto|]. split; [|lia].
    unfold parse_statement. eapply alt_complete_tok; [exact H|reflexivity|].
    unfold parse_let_statement. tokc H. rewrite (parse_ident_complete e _ _ _ H0). cbn [bind]. tokc H1.
    rewrite Hp. cbn [bind]. tokc H3. reflexivity.
  - (* export *)
    pose proof (tok_len _ _ _ _ H). pose proof (tok_len _ _ _ _ H2).
    destruct (parse_export_options_complete _ _ _ H1) as [Ho Hl3]; [eapply tok_peek; eauto|].
    destruct (parse_expr_complete _ _ _ H0) as [Hp Hl2]; [lia| |].
    { destruct H1 as [ts0|ts0 r6 el Hel|ts0 r6 r7 kw0 n Hkw0 Hn].
      - apply semi_expr_follow. eapply tok_peek; eauto.
      - split; rewrite (tok_peek _ _ _ _ Hel); congruence.
      - split; rewrite (tok_peek _ _ _ _ Hkw0); congruence. }
    split; [|lia]. unfold parse_statement. eapply alt_complete_tok; [exact H|reflexivity|].
    unfold parse_export_statement. tokc H. rewrite Hp. cbn [bind]. rewrite Ho. cbn [bind]. tokc H2. reflexivity.
Qed.

Lemma statements_loop_sound n : forall ts ss r, statements_loop n e ts = POk ss r -> many (g_statement d) ts r ss /\ r = [].
Proof.
  induction n as [|n IH]; intros ts ss r; cbn [statements_loop]; [discriminate|].
  destruct ts as [|x ts].
  - intros H. sall. split; [constructor|reflexivity].
  - intros H. sall. match goal with Hx : statements_loop _ _ _ = _ |- _ => apply IH in Hx; destruct Hx as [Hx ->] end.
    match goal with Hx : parse_statement _ _ = _ |- _ => apply parse_statement_sound in Hx end.
    split; [econstructor; eauto|reflexivity].
Qed.

Lemma statements_loop_complete ts ss :
  many (g_statement d) ts [] ss -> length ts < fuel e ->
  forall n, length ts < n -> statements_loop n e ts = POk ss [].
Proof.
  intros Hm. remember [] as r eqn:Er. induction Hm as [ts|ts r1 r a l Ha Hm IH]; intros Hl n Hn;
    (destruct n as [|n]; [lia|]); cbn [statements_loop].
  - subst. reflexivity.
  - destruct (parse_statement_complete _ _ _ Ha Hl) as [Hp Hl2].
    destruct ts as [|x ts]; [cbn in Hl2; lia|]. rewrite Hp. cbn [bind].
    rewrite (IH Er) by (cbn in *; lia). reflexivity.
Qed.

Lemma parse_directive_sound ts x r : parse_directive e ts = POk x r -> g_package_decl ts r x.
Proof.
  unfold parse_directive. intros H. sall.
  match goal with Hx : parse_optional _ _ _ = _ |- _ => eapply parse_optional_ok in Hx; [|apply parse_package_path_sound] end.
  red. gsolve.
Qed.

Lemma parse_directive_complete ts x r :
  g_package_decl ts r x -> parse_directive e ts = POk x r /\ length r < length ts.
Proof.
  intros (r1 & r2 & r3 & kw & p & t & s & Hkw & Hp & Ht & Hs & ->).
  pose proof (tok_len _ _ _ _ Hkw). pose proof (tok_len _ _ _ _ Hs). destruct Hp as (tp & Htp & Hpn). pose proof (tok_len _ _ _ _ Htp).
  assert (parse_optional TTargetsKeyword (parse_package_path e) r2 = POk t r3 /\ length r3 <= length r2) as [Ho Hl3].
  { destruct Ht as [ts0|ts0 r6 r7 a n Ha (tq & Htq & Hq)].
    - split; [|lia]. apply parse_optional_none. destruct Hs as [-> Hk]. cbn. congruence.
    - pose proof (tok_len _ _ _ _ Ha). pose proof (tok_len _ _ _ _ Htq). split; [|lia].
      erewrite parse_optional_some; [reflexivity|exact Ha|]. apply parse_package_path_complete. exists tq; auto. }
  split; [|lia]. unfold parse_directive. tokc Hkw. rewrite (parse_package_name_complete e r1 p r2) by (exists tp; auto).
  cbn [bind]. rewrite Ho. cbn [bind]. tokc Hs. reflexivity.
Qed.

Lemma parse_document_items_sound ts x r : parse_document_items e ts = POk x r -> g_document d ts r x /\ r = [].
Proof.
  unfold parse_document_items. intros H. sall.
  match goal with Hx : parse_directive _ _ = _ |- _ => apply parse_directive_sound in Hx end.
  match goal with Hx : statements_loop _ _ _ = _ |- _ => apply statements_loop_sound in Hx; destruct Hx as [Hx _] end.
  split; [|reflexivity]. red. gsolve.
Qed.

Lemma parse_document_items_complete ts x :
  g_document d ts [] x -> length ts < fuel e -> parse_document_items e ts = POk x [].
Proof.
  intros (r1 & pd & ss & Hpd & Hss & ->) Hl. destruct (parse_directive_complete _ _ _ Hpd) as [Hp Hl2].
  unfold parse_document_items. rewrite Hp. cbn [bind].
  rewrite (statements_loop_complete _ _ Hss) by lia. reflexivity.
Qed.

End Productions.
