(** C05, part B: value types, function types and the plain type declarations.
    Each lemma has the shape "the resolver step returns [DOk] => the arenas are extended, the denotation is
    defined, and the result unfolds (in the new arenas) to the denoted tree". *)
From Coq Require Import String.
From Coq Require Import ZArith ZifyBool ZifyN Lia.
From WacV Require Import Str StrLit Types CheckerEq CheckerValue CheckerProofs Decls WitDenote DeclsProofsA.
From WacV Require Ast.
Set Warnings "-unused-intro-pattern".

(** * An induction principle for [Ast.ty] *)
Definition optP (P : Ast.ty -> Prop) (o : option Ast.ty) : Prop := match o with Some y => P y | None => True end.
Section TyInd.
  Variable P : Ast.ty -> Prop.
  Hypothesis Hprim : forall p sp, P (Ast.TyPrim p sp).
  Hypothesis Htuple : forall ts sp, Forall P ts -> P (Ast.TyTuple ts sp).
  Hypothesis Hlist : forall t sp, P t -> P (Ast.TyList t sp).
  Hypothesis Hopt : forall t sp, P t -> P (Ast.TyOption t sp).
  Hypothesis Hres : forall o e sp, optP P o -> optP P e -> P (Ast.TyResult o e sp).
  Hypothesis Hborrow : forall i sp, P (Ast.TyBorrow i sp).
  Hypothesis Hborrowty : forall t sp, P t -> P (Ast.TyBorrowTy t sp).
  Hypothesis Hident : forall i, P (Ast.TyIdent i).
  Fixpoint ty_ind' (x : Ast.ty) : P x :=
    match x with
    | Ast.TyPrim p sp => Hprim p sp
    | Ast.TyTuple ts sp =>
      Htuple ts sp ((fix go (l : list Ast.ty) : Forall P l :=
                       match l with [] => Forall_nil P | y :: r => Forall_cons y (ty_ind' y) (go r) end) ts)
    | Ast.TyList t sp => Hlist t sp (ty_ind' t)
    | Ast.TyOption t sp => Hopt t sp (ty_ind' t)
    | Ast.TyResult o e sp =>
      Hres o e sp
           (match o as o0 return optP P o0 with Some y => ty_ind' y | None => I end)
           (match e as e0 return optP P e0 with Some y => ty_ind' y | None => I end)
    | Ast.TyBorrow i sp => Hborrow i sp
    | Ast.TyBorrowTy t sp => Hborrowty t sp (ty_ind' t)
    | Ast.TyIdent i => Hident i
    end.
End TyInd.

(** * Value types: [resolve_ty] against [den_ty] *)
Lemma prim_of_den p : prim_of p = den_prim p.
Proof. destruct p; reflexivity. Qed.

Lemma defined_ok t d v t' :
  defined t d = DOk (v, t') -> aext t t' /\ exists i, v = VDefined i /\ get_def t' i = Some d.
Proof.
  unfold defined, add_defined. intro H. injection H as <- <-. split.
  - apply (aext_add_defined t d).
  - eexists. split; [reflexivity | apply (get_def_new t d)].
Qed.
Lemma value_ty_ok t d x t' :
  value_ty t d = DOk (x, t') -> aext t t' /\ exists i, x = TValue (VDefined i) /\ get_def t' i = Some d.
Proof.
  unfold value_ty, add_defined. intro H. injection H as <- <-. split.
  - apply (aext_add_defined t d).
  - eexists. split; [reflexivity | apply (get_def_new t d)].
Qed.

Lemma lookup_in_ok sc i x : lookup_in sc i = DOk x -> assoc (nm i) sc = Some x.
Proof. unfold lookup_in. change (name_of i) with (nm i). destruct (assoc (nm i) sc); [|discriminate]. intro H. now injection H as <-. Qed.

Definition tys_go (cur : scope) :=
  fix go (t : types) (l : list Ast.ty) {struct l} : dres (list valtype * types) :=
    match l with
    | [] => DOk ([], t)
    | y :: r => do (v, t1) <- resolve_ty cur t y ;;
                do (vs, t2) <- go t1 r ;;
                DOk (v :: vs, t2)
    end.
Lemma resolve_tuple_eq cur t ts sp :
  resolve_ty cur t (Ast.TyTuple ts sp) = (do (vs, t1) <- tys_go cur t ts ;; defined t1 (DTuple vs)).
Proof. reflexivity. Qed.

Definition ty_sim (x : Ast.ty) : Prop :=
  forall cur t e v t', Renv t cur e -> resolve_ty cur t x = DOk (v, t') ->
    aext t t' /\ exists tr, den_ty e x = Some tr /\ uv t' v tr.

Lemma tys_go_sim ts : Forall ty_sim ts ->
  forall cur t e vs t', Renv t cur e -> tys_go cur t ts = DOk (vs, t') ->
    aext t t' /\ exists trs, all_some (map (den_ty e) ts) = Some trs /\ Forall2 (uv t') vs trs.
Proof.
  induction 1 as [|y r Hy _ IH]; intros cur t e vs t' He H.
  - cbn in H. injection H as <- <-. split; [apply aext_refl|]. exists []. split; [reflexivity | constructor].
  - cbn [tys_go] in H. dinv H as [[v t1] [E1 H]]. dinv H as [[vs' t2] [E2 H]]. injection H as <- <-.
    destruct (Hy _ _ _ _ _ He E1) as [X1 [tr [D1 U1]]].
    destruct (IH _ _ _ _ _ (Renv_aext _ _ _ _ X1 He) E2) as [X2 [trs [D2 U2]]].
    split; [eapply aext_trans; eassumption|]. exists (tr :: trs). cbn [map all_some]. rewrite D1, D2.
    split; [reflexivity|]. constructor; [eapply uv_aext; eassumption | exact U2].
Qed.

Definition oty_step (cur : scope) (t : types) (o : option Ast.ty) : dres (option valtype * types) :=
  match o with
  | Some y => do (v, t1) <- resolve_ty cur t y ;; DOk (Some v, t1)
  | None => DOk (None, t)
  end.
Lemma oty_sim o : optP ty_sim o ->
  forall cur t e ov t', Renv t cur e -> oty_step cur t o = DOk (ov, t') ->
    aext t t' /\ exists o', omap (den_ty e) o = Some o' /\ uvo t' ov o'.
Proof.
  destruct o as [y|]; intros Hy cur t e ov t' He H; cbn [oty_step] in H.
  - dinv H as [[v t1] [E1 H]]. injection H as <- <-. destruct (Hy _ _ _ _ _ He E1) as [X1 [tr [D1 U1]]].
    split; [exact X1|]. exists (Some tr). cbn [omap]. rewrite D1. split; [reflexivity | exact U1].
  - injection H as <- <-. split; [apply aext_refl|]. exists None. split; [reflexivity | exact I].
Qed.

Lemma resolve_ty_sim : forall x, ty_sim x.
Proof.
  apply ty_ind'; unfold ty_sim.
  - (* prim *) intros p sp cur t e v t' He H. cbn in H. injection H as <- <-. split; [apply aext_refl|].
    exists (VTPrim (den_prim p)). split; [reflexivity|]. rewrite prim_of_den. apply uv_prim.
  - (* tuple *) intros ts sp Hts cur t e v t' He H. rewrite resolve_tuple_eq in H. dinv H as [[vs t1] [E1 H]].
    destruct (tys_go_sim ts Hts _ _ _ _ _ He E1) as [X1 [trs [D1 U1]]].
    destruct (defined_ok _ _ _ _ H) as [X2 [i [-> G]]].
    split; [eapply aext_trans; eassumption|]. exists (VTTuple trs). cbn [den_ty]. rewrite D1. split; [reflexivity|].
    apply (uv_tuple _ _ _ _ G). eapply Forall2_imp; [|exact U1]. intros a b. now apply uv_aext.
  - (* list *) intros y sp IH cur t e v t' He H. cbn [resolve_ty] in H. dinv H as [[v1 t1] [E1 H]].
    destruct (IH _ _ _ _ _ He E1) as [X1 [tr [D1 U1]]]. destruct (defined_ok _ _ _ _ H) as [X2 [i [-> G]]].
    split; [eapply aext_trans; eassumption|]. exists (VTList tr). cbn [den_ty]. rewrite D1. split; [reflexivity|].
    apply (uv_list _ _ _ _ G). eapply uv_aext; eassumption.
  - (* option *) intros y sp IH cur t e v t' He H. cbn [resolve_ty] in H. dinv H as [[v1 t1] [E1 H]].
    destruct (IH _ _ _ _ _ He E1) as [X1 [tr [D1 U1]]]. destruct (defined_ok _ _ _ _ H) as [X2 [i [-> G]]].
    split; [eapply aext_trans; eassumption|]. exists (VTOption tr). cbn [den_ty]. rewrite D1. split; [reflexivity|].
    apply (uv_option _ _ _ _ G). eapply uv_aext; eassumption.
  - (* result *) intros o r sp Ho Hr cur t e v t' He H.
    change (resolve_ty cur t (Ast.TyResult o r sp))
      with (do (ov, t1) <- oty_step cur t o ;; do (ev, t2) <- oty_step cur t1 r ;; defined t2 (DResult ov ev)) in H.
    dinv H as [[ov t1] [E1 H]]. dinv H as [[ev t2] [E2 H]].
    destruct (oty_sim o Ho _ _ _ _ _ He E1) as [X1 [o' [D1 U1]]].
    destruct (oty_sim r Hr _ _ _ _ _ (Renv_aext _ _ _ _ X1 He) E2) as [X2 [r' [D2 U2]]].
    destruct (defined_ok _ _ _ _ H) as [X3 [i [-> G]]].
    split; [eapply aext_trans; [eassumption|]; eapply aext_trans; eassumption|].
    exists (VTResult o' r'). cbn [den_ty]. rewrite D1, D2. split; [reflexivity|].
    apply (uv_result _ _ _ _ _ _ G).
    + eapply uvo_aext; [|exact U1]. eapply aext_trans; eassumption.
    + eapply uvo_aext; eassumption.
  - (* borrow *) intros i sp cur t e v t' He H. cbn [resolve_ty] in H. dinv H as [it [E1 H]].
    apply lookup_in_ok in E1. destruct (R2_assoc_some _ _ _ _ _ He E1) as [s [As Hs]].
    destruct it; try discriminate. injection H as <- <-. inversion Hs as [|r' n Hun| | |]; subst.
    split; [apply aext_refl|]. exists (VTBorrow n). cbn [den_ty]. rewrite As. split; [reflexivity | now apply uv_borrow].
  - (* borrow<type> *) intros y sp _ cur t e v t' He H. discriminate H.
  - (* ident *) intros i cur t e v t' He H. cbn [resolve_ty] in H. dinv H as [it [E1 H]].
    apply lookup_in_ok in E1. destruct (R2_assoc_some _ _ _ _ _ He E1) as [s [As Hs]].
    destruct it; try discriminate; injection H as <- <-.
    + inversion Hs as [|r' n Hun| | |]; subst.
      split; [apply aext_refl|]. exists (VTOwn n). cbn [den_ty]. rewrite As. split; [reflexivity | now apply uv_own].
    + inversion Hs as [v' tr Huv| | | |]; subst.
      split; [apply aext_refl|]. exists tr. cbn [den_ty]. rewrite As. split; [reflexivity | exact Huv].
Qed.

(** * Parameter, case and field lists *)
Lemma den_params_cons e p r :
  den_params e (p :: r) = match den_ty e (Ast.nt_ty p) with
                          | Some v => match den_params e r with Some l => Some ((nm (Ast.nt_id p), v) :: l) | None => None end
                          | None => None
                          end.
Proof. unfold den_params. cbn [map all_some]. destruct (den_ty e (Ast.nt_ty p)); reflexivity. Qed.
Lemma den_fields_cons e p r :
  den_fields e (p :: r) = match den_ty e (Ast.fd_ty p) with
                          | Some v => match den_fields e r with Some l => Some ((nm (Ast.fd_id p), v) :: l) | None => None end
                          | None => None
                          end.
Proof. unfold den_fields. cbn [map all_some]. destruct (den_ty e (Ast.fd_ty p)); reflexivity. Qed.
Lemma den_cases_cons e p r :
  den_cases e (p :: r) = match omap (den_ty e) (Ast.vc_ty p) with
                         | Some v => match den_cases e r with Some l => Some ((nm (Ast.vc_id p), v) :: l) | None => None end
                         | None => None
                         end.
Proof. unfold den_cases. cbn [map all_some]. destruct (omap (den_ty e) (Ast.vc_ty p)); reflexivity. Qed.

Lemma distinct_keys_snoc {A B} (P : A -> B -> Prop) (acc : list (str * A)) (acc' : list (str * B)) n y :
  R2 P acc acc' -> has n acc = false -> distinct (map fst acc') = true -> distinct (map fst (acc' ++ [(n, y)])) = true.
Proof.
  intros Hr Hh Hd. rewrite map_app. cbn [map fst]. rewrite distinct_snoc, Hd.
  rewrite <- bound_keys, <- (R2_has _ _ _ n Hr), Hh. reflexivity.
Qed.

Lemma params_go_sim : forall ps cur t e acc acc' ps' t',
  Renv t cur e -> uvf t acc acc' -> params_go cur t acc ps = DOk (ps', t') ->
  aext t t' /\ exists l, den_params e ps = Some l /\ uvf t' ps' (acc' ++ l) /\
                         (distinct (map fst acc') = true -> distinct (map fst (acc' ++ l)) = true).
Proof.
  induction ps as [|p r IH]; intros cur t e acc acc' ps' t' He Ha H.
  - cbn in H. injection H as <- <-. split; [apply aext_refl|]. exists []. rewrite app_nil_r. auto.
  - cbn [params_go] in H. dinv H as [[v t1] [E1 H]].
    destruct (has (name_of (Ast.nt_id p)) acc) eqn:Eh; [discriminate|]. change (name_of (Ast.nt_id p)) with (nm (Ast.nt_id p)) in *.
    destruct (resolve_ty_sim _ _ _ _ _ _ He E1) as [X1 [tr [D1 U1]]].
    assert (Ha1 : uvf t1 (acc ++ [(nm (Ast.nt_id p), v)]) (acc' ++ [(nm (Ast.nt_id p), tr)])).
    { apply R2_snoc; [eapply uvf_aext; eassumption | exact U1]. }
    destruct (IH _ _ _ _ _ _ _ (Renv_aext _ _ _ _ X1 He) Ha1 H) as [X2 [l [D2 [U2 Hd]]]].
    split; [eapply aext_trans; eassumption|]. exists ((nm (Ast.nt_id p), tr) :: l).
    rewrite den_params_cons, D1, D2. rewrite <- app_assoc in U2, Hd. cbn [app] in U2, Hd.
    split; [reflexivity|]. split; [exact U2|]. intro Hd0. apply Hd. eapply distinct_keys_snoc; eassumption.
Qed.

Lemma fields_go_sim : forall ps cur t e acc acc' ps' t',
  Renv t cur e -> uvf t acc acc' -> fields_go cur t acc ps = DOk (ps', t') ->
  aext t t' /\ exists l, den_fields e ps = Some l /\ uvf t' ps' (acc' ++ l) /\
                         (distinct (map fst acc') = true -> distinct (map fst (acc' ++ l)) = true).
Proof.
  induction ps as [|p r IH]; intros cur t e acc acc' ps' t' He Ha H.
  - cbn in H. injection H as <- <-. split; [apply aext_refl|]. exists []. rewrite app_nil_r. auto.
  - cbn [fields_go] in H. dinv H as [[v t1] [E1 H]].
    destruct (has (name_of (Ast.fd_id p)) acc) eqn:Eh; [discriminate|]. change (name_of (Ast.fd_id p)) with (nm (Ast.fd_id p)) in *.
    destruct (resolve_ty_sim _ _ _ _ _ _ He E1) as [X1 [tr [D1 U1]]].
    assert (Ha1 : uvf t1 (acc ++ [(nm (Ast.fd_id p), v)]) (acc' ++ [(nm (Ast.fd_id p), tr)])).
    { apply R2_snoc; [eapply uvf_aext; eassumption | exact U1]. }
    destruct (IH _ _ _ _ _ _ _ (Renv_aext _ _ _ _ X1 He) Ha1 H) as [X2 [l [D2 [U2 Hd]]]].
    split; [eapply aext_trans; eassumption|]. exists ((nm (Ast.fd_id p), tr) :: l).
    rewrite den_fields_cons, D1, D2. rewrite <- app_assoc in U2, Hd. cbn [app] in U2, Hd.
    split; [reflexivity|]. split; [exact U2|]. intro Hd0. apply Hd. eapply distinct_keys_snoc; eassumption.
Qed.

Lemma cases_go_eq cur t acc c r :
  cases_go cur t acc (c :: r) =
  (do (ov, t1) <- oty_step cur t (Ast.vc_ty c) ;;
   if has (name_of (Ast.vc_id c)) acc then DErr EDuplicateVariantCase
   else cases_go cur t1 (acc ++ [(name_of (Ast.vc_id c), ov)]) r).
Proof. reflexivity. Qed.

Lemma oty_step_sim o cur t e ov t' : Renv t cur e -> oty_step cur t o = DOk (ov, t') ->
  aext t t' /\ exists o', omap (den_ty e) o = Some o' /\ uvo t' ov o'.
Proof. apply oty_sim. destruct o; [apply resolve_ty_sim | exact I]. Qed.

Lemma cases_go_sim : forall ps cur t e acc acc' ps' t',
  Renv t cur e -> uvc t acc acc' -> cases_go cur t acc ps = DOk (ps', t') ->
  aext t t' /\ exists l, den_cases e ps = Some l /\ uvc t' ps' (acc' ++ l) /\
                         (distinct (map fst acc') = true -> distinct (map fst (acc' ++ l)) = true).
Proof.
  induction ps as [|p r IH]; intros cur t e acc acc' ps' t' He Ha H.
  - cbn in H. injection H as <- <-. split; [apply aext_refl|]. exists []. rewrite app_nil_r. auto.
  - rewrite cases_go_eq in H. dinv H as [[v t1] [E1 H]].
    destruct (has (name_of (Ast.vc_id p)) acc) eqn:Eh; [discriminate|]. change (name_of (Ast.vc_id p)) with (nm (Ast.vc_id p)) in *.
    destruct (oty_step_sim _ _ _ _ _ _ He E1) as [X1 [tr [D1 U1]]].
    assert (Ha1 : uvc t1 (acc ++ [(nm (Ast.vc_id p), v)]) (acc' ++ [(nm (Ast.vc_id p), tr)])).
    { apply R2_snoc; [eapply uvc_aext; eassumption | exact U1]. }
    destruct (IH _ _ _ _ _ _ _ (Renv_aext _ _ _ _ X1 He) Ha1 H) as [X2 [l [D2 [U2 Hd]]]].
    split; [eapply aext_trans; eassumption|]. exists ((nm (Ast.vc_id p), tr) :: l).
    rewrite den_cases_cons, D1, D2. rewrite <- app_assoc in U2, Hd. cbn [app] in U2, Hd.
    split; [reflexivity|]. split; [exact U2|]. intro Hd0. apply Hd. eapply distinct_keys_snoc; eassumption.
Qed.

Lemma names_go_ok er : forall l acc l', names_go er acc l = DOk l' ->
  l' = acc ++ l /\ (distinct acc = true -> distinct (acc ++ l) = true).
Proof.
  induction l as [|n r IH]; intros acc l' H; cbn [names_go] in H.
  - injection H as <-. rewrite app_nil_r. auto.
  - destruct (mem n acc) eqn:Em; [discriminate|]. destruct (IH _ _ H) as [-> Hd]. rewrite <- app_assoc in *. cbn [app] in *.
    split; [reflexivity|]. intro Hd0. apply Hd. rewrite distinct_snoc, Hd0, <- mem_existsb, Em. reflexivity.
Qed.

(** * [contains_borrow] against [has_borrow] *)
Lemma any_o_cons {A} (p : A -> option bool) x r :
  any_o p (x :: r) = match p x with Some false => any_o p r | o => o end.
Proof. reflexivity. Qed.
Lemma any_o_spec {A B} (p : A -> option bool) (q : B -> bool) (R : A -> B -> Prop) l l' :
  (forall x y c, p x = Some c -> R x y -> c = q y) -> Forall2 R l l' ->
  forall b, any_o p l = Some b -> b = existsb q l'.
Proof.
  intros Hpq. induction 1 as [|x y l l' Hxy _ IH]; intros b H.
  - cbn in H. now injection H as <-.
  - rewrite any_o_cons in H. cbn [existsb]. destruct (p x) as [[|]|] eqn:E; [| |discriminate].
    + injection H as <-. now rewrite <- (Hpq _ _ _ E Hxy).
    + rewrite <- (Hpq _ _ _ E Hxy). cbn [orb]. now apply IH.
Qed.
Lemma opt_o_spec t (C : valtype -> option bool) o o' c :
  (forall v b tr, C v = Some b -> uv t v tr -> b = has_borrow tr) ->
  opt_o C o = Some c -> uvo t o o' -> c = match o' with Some y => has_borrow y | None => false end.
Proof.
  intros HC H Hu. destruct o as [v|], o' as [tr|]; cbn in Hu; try contradiction; cbn [opt_o] in H.
  - eapply HC; eassumption.
  - now injection H as <-.
Qed.

Lemma cb_vt_spec t : forall f v b tr, cb_vt f t v = Some b -> uv t v tr -> b = has_borrow tr.
Proof.
  induction f as [|f IH]; intros v b tr H Hu; [discriminate|]. cbn [cb_vt] in H.
  destruct v as [p|r|r|d].
  - injection H as <-. now rewrite (uv_prim_inv _ _ _ Hu).
  - injection H as <-. destruct (uv_borrow_inv _ _ _ Hu) as [n [-> _]]. reflexivity.
  - injection H as <-. destruct (uv_own_inv _ _ _ Hu) as [n [-> _]]. reflexivity.
  - destruct (get_def t d) as [x|] eqn:E; [|discriminate]. pose proof (uv_def_inv _ _ _ _ E Hu) as Hs.
    destruct x; cbn [uv_def_shape] in Hs.
    + destruct Hs as [l' [-> Hl]]. cbn [has_borrow]. eapply (any_o_spec _ has_borrow (uv t)); [|exact Hl|exact H].
      intros x y c. apply IH.
    + destruct Hs as [ty [-> Hy]]. cbn [has_borrow]. eapply IH; eassumption.
    + destruct Hs as [ty [-> Hy]]. cbn [has_borrow]. eapply IH; eassumption.
    + destruct Hs as [ty [-> Hy]]. cbn [has_borrow]. eapply IH; eassumption.
    + destruct Hs as [o' [e' [-> [Ho He]]]]. cbn [has_borrow].
      destruct (opt_o (cb_vt f t) ok) as [[|]|] eqn:Eo; [| |discriminate].
      * injection H as <-. rewrite <- (opt_o_spec t _ _ _ _ IH Eo Ho). reflexivity.
      * rewrite <- (opt_o_spec t _ _ _ _ IH Eo Ho). cbn [orb]. apply (opt_o_spec t _ _ _ _ IH H He).
    + destruct Hs as [c' [-> Hc]]. cbn [has_borrow].
      eapply (any_o_spec _ _ (fun a b => fst a = fst b /\ uvo t (snd a) (snd b))); [|exact Hc|exact H].
      intros x y c Hx [_ Hxy]. cbv beta in *. apply (opt_o_spec t _ _ _ _ IH Hx Hxy).
    + destruct Hs as [c' [-> Hc]]. cbn [has_borrow].
      eapply (any_o_spec _ _ (fun a b => fst a = fst b /\ uv t (snd a) (snd b))); [|exact Hc|exact H].
      intros x y c Hx [_ Hxy]. cbv beta in *. eapply IH; eassumption.
    + subst tr. now injection H as <-.
    + subst tr. now injection H as <-.
    + eapply IH; eassumption.
    + destruct Hs as [o' [-> Ho]]. cbn [has_borrow]. apply (opt_o_spec t _ _ _ _ IH H Ho).
    + destruct Hs as [o' [-> Ho]]. cbn [has_borrow]. apply (opt_o_spec t _ _ _ _ IH H Ho).
Qed.

(** * Function types *)
Definition kmap (k : fkind) : mkind :=
  match k with FFree => MFree | FMethod => MMethod | FStatic => MStatic | FConstructor => MCtor end.

Lemma method_name_member r m k : method_name r m k = member_name r m (kmap k).
Proof. destruct k; reflexivity. Qed.

Lemma func_type_sim cur t e ps rs k res rname i t' :
  Renv t cur e -> (forall r, res = Some r -> un t r rname) ->
  func_type cur t ps rs k res = DOk (i, t') ->
  aext t t' /\ exists ft, den_func e (kmap k) rname ps rs = Some ft /\ uf t' i ft.
Proof.
  intros He Hres H. unfold func_type in H.
  dinv H as [acc0 [E0 H]]. dinv H as [[params t1] [E1 H]]. dinv H as [[result t2] [E2 H]].
  unfold add_func in H. injection H as <- <-.
  (* the implicit [self] *)
  assert (Hpre : exists pre, uvf t acc0 pre /\ distinct (map fst pre) = true /\
            forall ps', match kmap k with MMethod => (L"self", VTBorrow rname) :: ps' | _ => ps' end = pre ++ ps').
  { destruct k; cbn [kmap]; try (injection E0 as <-; exists []; split; [apply R2_nil | split; [reflexivity | reflexivity]]).
    destruct res as [r|]; [|discriminate]. injection E0 as <-. exists [(L"self", VTBorrow rname)].
    split; [|split; reflexivity]. apply R2_cons; [|apply R2_nil]. apply uv_borrow. now apply Hres. }
  destruct Hpre as [pre [Hp0 [Hd0 Hpre]]].
  destruct (params_go_sim _ _ _ _ _ _ _ _ He Hp0 E1) as [X1 [l [D1 [U1 Hd1]]]].
  (* the result *)
  assert (Hr : aext t1 t2 /\ exists ro, uvo t2 result ro /\ forall pp,
            match rs with
            | Ast.RLEmpty => Some (mkft pp (match kmap k with MCtor => Some (VTOwn rname) | _ => None end) false)
            | Ast.RLScalar y => match den_ty e y with
                                | Some v => if has_borrow v then None else Some (mkft pp (Some v) false)
                                | None => None
                                end
            | Ast.RLNamed _ => None
            end = Some (mkft pp ro false)).
  { destruct rs as [|y|rs'].
    - destruct k; cbn [kmap]; try (injection E2 as <- <-; split; [apply aext_refl|]; exists None; split; [exact I | reflexivity]).
      destruct res as [r|]; [|discriminate]. injection E2 as <- <-. split; [apply aext_refl|]. exists (Some (VTOwn rname)).
      split; [|reflexivity]. cbn [uvo]. apply uv_own. eapply un_aext; [exact X1|]. now apply Hres.
    - dinv E2 as [[v t2'] [E3 E2]].
      destruct (cb_vt (cb_fuel t2') t2' v) as [[|]|] eqn:Ecb; try discriminate. injection E2 as <- <-.
      destruct (resolve_ty_sim _ _ _ _ _ _ (Renv_aext _ _ _ _ X1 He) E3) as [X2 [tr [D2 U2]]].
      split; [exact X2|]. exists (Some tr). split; [exact U2|]. intro pp. rewrite D2.
      rewrite <- (cb_vt_spec _ _ _ _ _ Ecb U2). reflexivity.
    - discriminate. }
  destruct Hr as [X2 [ro [Ur Hro]]].
  set (x := mkfunc params result false).
  split.
  - eapply aext_trans; [exact X1|]. eapply aext_trans; [exact X2|]. apply (aext_add_func t2 x).
  - exists (mkft (pre ++ l) ro false). split.
    + unfold den_func. rewrite D1. cbv zeta. rewrite Hpre, (Hd1 Hd0). cbn [negb]. apply Hro.
    + apply (uf_intro (fst (add_func t2 x)) (snd (add_func t2 x)) x (pre ++ l) ro).
      * apply get_func_new.
      * cbn [f_params x]. eapply uvf_aext; [|exact U1]. eapply aext_trans; [exact X2|]. apply (aext_add_func t2 x).
      * cbn [f_result x]. eapply uvo_aext; [|exact Ur]. apply (aext_add_func t2 x).
Qed.

Lemma func_type_ref_sim cur t e r f t' :
  Renv t cur e -> func_type_ref cur t r = DOk (f, t') ->
  aext t t' /\ exists ft, den_func_ref e r = Some ft /\ uf t' f ft.
Proof.
  intros He H. destruct r as [fn|i]; cbn [func_type_ref den_func_ref] in *.
  - apply (func_type_sim cur t e _ _ FFree None [] f t' He); [discriminate | exact H].
  - dinv H as [it [E1 H]]. apply lookup_in_ok in E1. destruct (R2_assoc_some _ _ _ _ _ He E1) as [s [As Hs]].
    destruct it; try discriminate. injection H as <- <-. inversion Hs as [| |f' ft Huf| |]; subst.
    split; [apply aext_refl|]. exists ft. rewrite As. auto.
Qed.

(** * Plain declarations *)
Lemma decl_name_dname d : decl_name d = dname d.
Proof. destruct d; reflexivity. Qed.

Lemma alias_generic cur t e y x t' :
  Renv t cur e -> (do (v, t1) <- resolve_ty cur t y ;; value_ty t1 (DAlias v)) = DOk (x, t') ->
  aext t t' /\ exists tr, den_ty e y = Some tr /\ rel_item t' x (SVal tr).
Proof.
  intros He H. dinv H as [[v t1] [E1 H]]. destruct (resolve_ty_sim _ _ _ _ _ _ He E1) as [X1 [tr [D1 U1]]].
  destruct (value_ty_ok _ _ _ _ H) as [X2 [i [-> G]]]. split; [eapply aext_trans; eassumption|].
  exists tr. split; [exact D1|]. constructor. apply (uv_alias _ _ _ _ G). eapply uv_aext; eassumption.
Qed.

Lemma type_alias_sim cur t e n docs id k x t' :
  Renv t cur e -> type_alias cur t n k = DOk (x, t') ->
  aext t t' /\ exists s, den_plain e (Ast.DAlias docs id k) = Some s /\ rel_item t' x s.
Proof.
  intros He H. destruct k as [fn|y].
  - cbn [type_alias] in H. dinv H as [[i t1] [E1 H]]. injection H as <- <-.
    destruct (func_type_sim cur t e _ _ FFree None [] i t1 He ltac:(discriminate) E1) as [X1 [ft [D1 U1]]].
    split; [exact X1|]. exists (SFunc ft). cbn [den_plain kmap] in *. rewrite D1. split; [reflexivity | now constructor].
  - destruct y as [p sp|ts sp|y sp|y sp|o r sp|i sp|y sp|i];
      try (cbn [type_alias] in H; destruct (alias_generic _ _ _ _ _ _ He H) as [X1 [tr [D1 U1]]];
           split; [exact X1|]; exists (SVal tr); cbn [den_plain]; rewrite D1; split; [reflexivity | exact U1]).
    cbn [type_alias] in H. dinv H as [it [E1 H]]. apply lookup_in_ok in E1.
    destruct (R2_assoc_some _ _ _ _ _ He E1) as [s [As Hs]]. cbn [den_plain]. rewrite As.
    destruct it as [r|f|v|j|w|m]; try discriminate.
    + (* resource alias *)
      inversion Hs as [|r' rn Hun| | |]; subst.
      destruct (get_res t r) as [x0|] eqn:G; [|discriminate].
      set (owner := match res_alias x0 with Some (o, _) => o | None => None end) in H.
      set (nr := mkres n (Some (owner, r))) in H. unfold add_resource in H. injection H as <- <-.
      split; [apply (aext_add_resource t nr)|]. exists (SRes rn). split; [reflexivity|]. constructor.
      apply (un_alias (fst (add_resource t nr)) (snd (add_resource t nr)) nr owner r rn).
      * apply get_res_new.
      * reflexivity.
      * eapply un_aext; [apply (aext_add_resource t nr) | exact Hun].
    + (* function alias *)
      inversion Hs as [| |f' ft Huf| |]; subst.
      destruct (get_func t f) as [x0|] eqn:G; [|discriminate]. unfold add_func in H. injection H as <- <-.
      split; [apply (aext_add_func t x0)|]. exists (SFunc ft). split; [reflexivity|]. constructor.
      destruct (uf_inv _ _ _ Huf) as [x1 [G1 [Hp [Hr Ha]]]]. rewrite G in G1. injection G1 as <-.
      destruct ft as [fps fr fa]. cbn [ft_params ft_result ft_async] in *. subst fa.
      apply (uf_intro (fst (add_func t x0)) (snd (add_func t x0)) x0 fps fr).
      * apply get_func_new.
      * eapply uvf_aext; [apply (aext_add_func t x0) | exact Hp].
      * eapply uvo_aext; [apply (aext_add_func t x0) | exact Hr].
    + (* value alias *)
      inversion Hs as [v' tr Huv| | | |]; subst.
      destruct (value_ty_ok _ _ _ _ H) as [X2 [i0 [-> G]]]. split; [exact X2|]. exists (SVal tr). split; [reflexivity|].
      constructor. apply (uv_alias _ _ _ _ G). eapply uv_aext; eassumption.
Qed.

Lemma plain_decl_sim cur t e d x t' :
  Renv t cur e -> plain_decl cur t d = DOk (x, t') ->
  aext t t' /\ exists s, den_plain e d = Some s /\ rel_item t' x s.
Proof.
  intros He H. destruct d as [docs id ms|docs id cs|docs id fs|docs id fl|docs id cs|docs id k]; cbn [plain_decl] in H.
  - discriminate.
  - dinv H as [[c t1] [E1 H]]. destruct (cases_go_sim _ _ _ _ _ _ _ _ He (R2_nil _) E1) as [X1 [l [D1 [U1 Hd]]]].
    destruct (value_ty_ok _ _ _ _ H) as [X2 [i [-> G]]]. split; [eapply aext_trans; eassumption|].
    exists (SVal (VTVariant l)). cbn [den_plain]. rewrite D1. cbn [app] in Hd. rewrite (Hd eq_refl). split; [reflexivity|].
    constructor. apply (uv_variant _ _ _ _ G). eapply uvc_aext; eassumption.
  - dinv H as [[c t1] [E1 H]]. destruct (fields_go_sim _ _ _ _ _ _ _ _ He (R2_nil _) E1) as [X1 [l [D1 [U1 Hd]]]].
    destruct (value_ty_ok _ _ _ _ H) as [X2 [i [-> G]]]. split; [eapply aext_trans; eassumption|].
    exists (SVal (VTRecord l)). cbn [den_plain]. rewrite D1. cbn [app] in Hd. rewrite (Hd eq_refl). split; [reflexivity|].
    constructor. apply (uv_record _ _ _ _ G). eapply uvf_aext; eassumption.
  - dinv H as [l [E1 H]]. destruct (names_go_ok _ _ _ _ E1) as [-> Hd]. cbn [app] in *.
    destruct (value_ty_ok _ _ _ _ H) as [X2 [i [-> G]]]. split; [exact X2|].
    eexists. cbn [den_plain]. cbv zeta. unfold name_of in *. unfold nm. rewrite (Hd eq_refl). split; [reflexivity|].
    constructor. apply (uv_flags _ _ _ G).
  - dinv H as [l [E1 H]]. destruct (names_go_ok _ _ _ _ E1) as [-> Hd]. cbn [app] in *.
    destruct (value_ty_ok _ _ _ _ H) as [X2 [i [-> G]]]. split; [exact X2|].
    eexists. cbn [den_plain]. cbv zeta. unfold name_of in *. unfold nm. rewrite (Hd eq_refl). split; [reflexivity|].
    constructor. apply (uv_enum _ _ _ G).
  - eapply type_alias_sim; eassumption.
Qed.
