(** C03 [imports_spec]: the import items the model encoder emits ITSELF (not those the type encoder
    makes for [use]d interfaces) are exactly [spec_imports]: one per canonical name of the aggregated
    requirements (explicit imports and unsatisfied arguments) with the requirement's sort, plus one
    component import per instantiated package when dependencies are imported — except that a
    requirement may be answered by an interface that is already imported (recorded in [e_dedup]). *)
From Coq Require Import List Arith Bool NArith Lia Permutation.
From WacV Require Import Str Ord Semver Names NamesProofs SemverProofs Graph Wiring WiringSpec EncodeModel
  WiringDecode EncodeBasics WiringOrder WiringSim WiringFinal AggProofs WiringImports.
Import ListNotations.
Local Open Scope nat_scope.
Arguments node_prov : simpl never.
Arguments node_sort : simpl never.
Arguments cnt : simpl never.
Arguments nat_assoc : simpl never.
Arguments pkg_assoc : simpl never.

(** the imports of a log that are not marked as made by the type encoder *)
Definition simports (l : log) : list (str * sort) :=
  flat_map (fun it => match it with IImport nm s => [(nm, s)] | _ => [] end) l.

Lemma simports_app a b : simports (a ++ b) = simports a ++ simports b.
Proof. apply flat_map_app. Qed.

Lemma simports_ty n its : ty_items_ok n its = true -> simports its = [].
Proof.
  revert n. induction its as [|it r IH]; intros n H; [reflexivity|].
  cbn [ty_items_ok] in H. apply andb_true_iff in H as [H1 H2].
  change (simports (it :: r)) with ((match it with IImport nm s => [(nm, s)] | _ => [] end) ++ simports r).
  rewrite (IH _ H2). destruct it; cbn in H1; try discriminate; reflexivity.
Qed.

(** [decode_imports] reports exactly these (flag [false]) and the type encoder's (flag [true]) *)
Lemma decode_imports_simports l : forall d d', decode_from d l = Some d' ->
  forall nm s, In (nm, s, false) (d_imports d') <-> In (nm, s, false) (d_imports d) \/ In (nm, s) (simports l).
Proof.
  induction l as [|it r IH]; intros d d' D nm s; cbn in D.
  - injection D as <-. cbn. tauto.
  - destruct (dstep d it) as [d1|] eqn:S; try discriminate. rewrite (IH _ _ D nm s). cbn [simports flat_map]. rewrite in_app_iff.
    assert (H1 : In (nm, s, false) (d_imports d1) <-> In (nm, s, false) (d_imports d) \/
                 In (nm, s) (match it with IImport nm0 s0 => [(nm0, s0)] | _ => [] end)).
    { destruct it; cbn in S;
        repeat match type of S with context [match ?x with _ => _ end] => destruct x; try discriminate end;
        injection S as <-; cbn; rewrite ?in_app_iff; cbn; try tauto.
      - split; [intros [?|[E|[]]]; [tauto | injection E as <- <-; tauto] | intros [?|[E|[]]]; [tauto | injection E as <- <-; tauto]].
      - split; [intros [?|[E|[]]]; [tauto | discriminate] | tauto]. }
    tauto.
Qed.

Section ImportsSpec.
  Variable e : wenv.
  Variable u : universe.
  Variable g : gstate.
  Variable dc : bool.
  Variable tau : tyenc.
  Variable ord : list nat.
  Hypothesis EI : EncInv e u g.
  Hypothesis T : Topo g ord.

  Notation import_nodes := (filter (is_import g) ord).
  Notation other := (filter (fun m => negb (is_import g m)) ord).

  (** ** one import request *)
  Lemma import_step_log st x st1 idx :
    import_ tau st x = ROk (st1, idx) ->
    (simports (e_log st1) = simports (e_log st) ++ [(ae_name x, ae_sort x)] /\ e_dedup st1 = e_dedup st) \/
    (e_log st1 = e_log st /\ exists under, e_dedup st1 = e_dedup st ++ [(ae_name x, under)]).
  Proof.
    intros R.
    assert (Fresh : (bind (run_ty tau st (TImport (ae_name x) (ae_sort x)))
               (fun p => let '(st1, _) := p in
                 let idx := cnt (ae_sort x) (e_log st1) in
                 let st2 := emit st1 (IImport (ae_name x) (ae_sort x)) in
                 ROk (match ae_sort x, ae_iid x with
                      | SInstance, Some i =>
                          {| e_log := e_log st2; e_nidx := e_nidx st2; e_pkgs := e_pkgs st2; e_reg := (i, (idx, ae_name x)) :: e_reg st2;
                             e_impl := e_impl st2; e_dedup := e_dedup st2 |}
                      | _, _ => st2
                      end, idx)) = ROk (st1, idx)) ->
             simports (e_log st1) = simports (e_log st) ++ [(ae_name x, ae_sort x)] /\ e_dedup st1 = e_dedup st).
    { intros Rf. apply bind_ok in Rf as [[st' ty] [Rt Rf]].
      apply run_ty_inv in Rt as [its [L [O [_ [_ [_ D0]]]]]].
      assert (L1 : e_log st1 = e_log st' ++ [IImport (ae_name x) (ae_sort x)] /\ e_dedup st1 = e_dedup st').
      { destruct (ae_iid x) as [i|].
        2:{ assert (Rf' : ROk (emit st' (IImport (ae_name x) (ae_sort x)), cnt (ae_sort x) (e_log st')) = ROk (st1, idx))
              by (destruct (ae_sort x); exact Rf).
            injection Rf' as <- _. cbn. auto. }
        destruct (ae_sort x); injection Rf as <- _; cbn; auto. }
      destruct L1 as [L1 D1]. rewrite L1, L, !simports_app, (simports_ty _ _ O), app_nil_r. cbn. split; congruence. }
    unfold import_ in R.
    destruct (ae_sort x) eqn:Esx; try (left; apply Fresh; exact R).
    destruct (ae_iid x) as [i|] eqn:Ei; [|left; apply Fresh; exact R].
    destruct (reg_lookup i (e_reg st)) as [[ix under]|] eqn:RL; [|left; apply Fresh; exact R].
    injection R as <- <-. right. cbn. eauto.
  Qed.

  (** ** the import phase, in terms of the log *)
  Lemma encode_imports_log st0 :
    encode_imports e u g tau est_init import_nodes = ROk st0 ->
    exists a, AggInv a (hist e u g ord) /\
      (forall nm s, In (nm, s) (simports (e_log st0)) -> exists x, In x (a_imps a) /\ ae_name x = nm /\ ae_sort x = s) /\
      (forall x, In x (a_imps a) -> In (ae_name x, ae_sort x) (simports (e_log st0)) \/ exists under, In (ae_name x, under) (e_dedup st0)).
  Proof.
    intros R. unfold encode_imports in R.
    apply bind_ok in R as [[a0 impl] [R1 R]]. apply bind_ok in R as [[a expl] [R2 R]].
    apply bind_ok in R as [[st1 encoded] [R3 R]]. apply bind_ok in R as [st2 [R4 R5]].
    destruct (resolve_implicit_ok e u g _ _ R1) as [AI0 _]. destruct (resolve_explicit_ok e u g ord _ _ _ AI0 R2) as [AI _].
    exists a. split; auto.
    set (order := filter is_instance_entry (a_imps a) ++ filter (fun x => negb (is_instance_entry x)) (a_imps a)) in *.
    assert (Iord : forall x, In x (a_imps a) <-> In x order).
    { intros x. unfold order. rewrite in_app_iff, !filter_In. destruct (is_instance_entry x); cbn; tauto. }
    assert (E3 : (forall nm s, In (nm, s) (simports (e_log st1)) -> exists x, In x order /\ ae_name x = nm /\ ae_sort x = s) /\
                 (forall x, In x order -> In (ae_name x, ae_sort x) (simports (e_log st1)) \/ exists under, In (ae_name x, under) (e_dedup st1))).
    { set (f := fun (s : est * list (str * (sort * nat))) (x : aentry) =>
                  let '(st, enc) := s in
                  bind (import_ tau st x) (fun p => let '(st', idx) := p in ROk (st', (ae_name x, (ae_sort x, idx)) :: enc))).
      apply (fold_res_ind f (fun pre s =>
               (forall nm s0, In (nm, s0) (simports (e_log (fst s))) -> exists x, In x pre /\ ae_name x = nm /\ ae_sort x = s0) /\
               (forall x, In x pre -> In (ae_name x, ae_sort x) (simports (e_log (fst s))) \/ exists under, In (ae_name x, under) (e_dedup (fst s)))) _ _ _ R3).
      - cbn. split; [intros ? ? [] | intros ? []].
      - intros pre x post [st enc] [st' enc'] _ [A B] Rs. unfold f in Rs.
        apply bind_ok in Rs as [[st'' idx] [Ri Rs]]. injection Rs as <- <-. cbn in *.
        destruct (import_step_log _ _ _ _ Ri) as [[L D]|[L [under D]]].
        + split.
          * intros nm s0 I. rewrite L, in_app_iff in I. destruct I as [I|[I|[]]].
            -- destruct (A _ _ I) as [y [? ?]]. exists y. split; auto. apply in_or_app. auto.
            -- injection I as <- <-. exists x. split; auto. apply in_or_app. right. cbn. auto.
          * intros y Iy. apply in_app_or in Iy as [Iy|[<-|[]]].
            -- destruct (B _ Iy) as [?|[un ?]]; [left; rewrite L; apply in_or_app; auto | right; exists un; now rewrite D].
            -- left. rewrite L. apply in_or_app. right. cbn. auto.
        + split.
          * intros nm s0 I. rewrite L in I. destruct (A _ _ I) as [y [? ?]]. exists y. split; auto. apply in_or_app. auto.
          * intros y Iy. apply in_app_or in Iy as [Iy|[<-|[]]].
            -- destruct (B _ Iy) as [?|[un ?]]; [left; now rewrite L | right; exists un; rewrite D; apply in_or_app; auto].
            -- right. exists under. rewrite D. apply in_or_app. right. cbn. auto. }
    (* the two table-filling folds change neither the log nor the de-duplication record *)
    assert (E4 : e_log st2 = e_log st1 /\ e_dedup st2 = e_dedup st1).
    { set (f := fun (st : est) (p : name * kid * nat) =>
                  let '(nm, _, node) := p in
                  match str_assoc (canonical_name a (nstr e nm)) encoded with
                  | Some (s, idx) =>
                      ROk {| e_log := e_log st; e_nidx := e_nidx st; e_pkgs := e_pkgs st; e_reg := e_reg st;
                             e_impl := e_impl st ++ [(node, (nstr e nm, s, idx))]; e_dedup := e_dedup st |}
                  | None => RErr (EPanic XEncodedMissing)
                  end).
      apply (fold_res_ind f (fun _ st => e_log st = e_log st1 /\ e_dedup st = e_dedup st1) _ _ _ R4); auto.
      intros pre [[nm k] node] post st st' _ [L D] Rs. unfold f in Rs.
      destruct (str_assoc _ encoded) as [[s idx]|]; try discriminate. injection Rs as <-. auto. }
    assert (E5 : e_log st0 = e_log st2 /\ e_dedup st0 = e_dedup st2).
    { set (f := fun (st : est) (p : str * nat) =>
                  match str_assoc (canonical_name a (fst p)) encoded with
                  | Some (_, idx) =>
                      ROk {| e_log := e_log st; e_nidx := (snd p, idx) :: e_nidx st; e_pkgs := e_pkgs st; e_reg := e_reg st;
                             e_impl := e_impl st; e_dedup := e_dedup st |}
                  | None => RErr (EPanic XEncodedMissing)
                  end).
      apply (fold_res_ind f (fun _ st => e_log st = e_log st2 /\ e_dedup st = e_dedup st2) _ _ _ R5); auto.
      intros pre p post st st' _ [L D] Rs. unfold f in Rs.
      destruct (str_assoc _ encoded) as [[s idx]|]; try discriminate. injection Rs as <-. auto. }
    destruct E3 as [A B], E4 as [L4 D4], E5 as [L5 D5]. rewrite L5, L4, D5, D4. split.
    - intros nm s I. destruct (A _ _ I) as [x [Ix ?]]. exists x. split; auto. now apply Iord.
    - intros x Ix. apply B. now apply Iord.
  Qed.

  (** ** the node loop, in terms of the log *)
  Record NInv (st0 : est) (done : list nat) (st : est) : Prop := {
    ni_new : forall nm s, In (nm, s) (simports (e_log st)) -> In (nm, s) (simports (e_log st0)) \/
             (dc = false /\ s = SComponent /\ exists p, In p (done_pkgs g done) /\ nm = pkg_import_name e p);
    ni_old : forall x, In x (simports (e_log st0)) -> In x (simports (e_log st));
    ni_pkgs : dc = false -> forall p, In p (done_pkgs g done) -> In (pkg_import_name e p, SComponent) (simports (e_log st)) }.

  Lemma NInv_same st0 done st st1 n :
    NInv st0 done st -> simports (e_log st1) = simports (e_log st) -> is_inst g n = false -> NInv st0 (done ++ [n]) st1.
  Proof.
    intros [A B C] L Ni. constructor; rewrite ?L, ?done_pkgs_snoc, ?Ni, ?app_nil_r; auto.
  Qed.

  Lemma step_node_imports st0 done st d n st1 :
    LInv e u g dc ord done st d -> NInv st0 done st -> enc_node e u g dc tau st n = ROk st1 -> NInv st0 (done ++ [n]) st1.
  Proof.
    intros LI NI R. unfold enc_node in R. destruct (get_node g n) as [nd|] eqn:G; try discriminate.
    destruct (nk nd) eqn:K; try discriminate.
    - (* definition *)
      unfold enc_definition in R. destruct (nexport nd); try discriminate.
      apply bind_ok in R as [[s' ty] [Rt R]]. destruct (negb _); try discriminate.
      apply set_nidx_inv in R as [_ [L _]]. cbn in L.
      apply run_ty_inv in Rt as [its [Lt [O _]]].
      eapply NInv_same; eauto.
      + rewrite L, simports_app, Lt, simports_app, (simports_ty _ _ O). cbn. now rewrite !app_nil_r.
      + unfold is_inst. now rewrite G, K.
    - (* instantiation *)
      assert (Hi : is_inst g n = true) by (unfold is_inst; now rewrite G, K).
      destruct (npkg nd) as [pid|] eqn:Np; [|unfold enc_instantiation in R; rewrite Np in R; discriminate].
      destruct (get_pkg g pid) as [p|] eqn:Gp; [|unfold enc_instantiation in R; rewrite Np, Gp in R; discriminate].
      destruct (inst_imports u g nd) as [imps|] eqn:Im; [|unfold enc_instantiation in R; rewrite Np, Gp, Im in R; discriminate].
      rewrite (enc_instantiation_eq e u g dc tau _ _ _ _ _ _ Np Gp Im) in R.
      apply bind_ok in R as [[s' ci] [Rc R]]. apply bind_ok in R as [args [_ R]].
      apply set_nidx_inv in R as [_ [L _]]. cbn in L.
      assert (Np' : node_pkg g n = Some p) by (unfold node_pkg; now rewrite G, Np).
      assert (Dp : done_pkgs g (done ++ [n]) = done_pkgs g done ++ [p]) by (rewrite done_pkgs_snoc, Hi, Np'; reflexivity).
      destruct NI as [A B C].
      unfold comp_phase in Rc. destruct (pkg_assoc pid (e_pkgs st)) as [ci0|] eqn:PA.
      + (* the package's component is known already *)
        injection Rc as <- <-.
        destruct (li_pkgs _ _ _ _ _ _ _ _ LI _ _ PA) as [p' [Gp' [Ip _]]]. assert (p' = p) by congruence. subst p'.
        assert (Ls : simports (e_log st1) = simports (e_log st)) by (rewrite L, simports_app; cbn; now rewrite app_nil_r).
        constructor; rewrite ?Ls, ?Dp.
        * intros nm s I. destruct (A _ _ I) as [?|[? [? [q [? ?]]]]]; auto. right. repeat split; auto. exists q. split; auto. apply in_or_app. auto.
        * auto.
        * intros Hd q Iq. apply in_app_or in Iq as [Iq|[<-|[]]]; auto.
      + apply bind_ok in Rc as [[s'' ci'] [Rc Rc']]. injection Rc' as <- <-. cbn in L.
        destruct dc eqn:DC.
        * injection Rc as <- <-. cbn in L.
          assert (Ls : simports (e_log st1) = simports (e_log st)) by (rewrite L, !simports_app; cbn; now rewrite !app_nil_r).
          constructor; rewrite ?Ls, ?Dp; auto.
          -- intros nm s I. destruct (A _ _ I) as [?|[Hd _]]; auto. congruence.
          -- intros Hd. congruence.
        * apply bind_ok in Rc as [[s0 ty] [Rt Rc]]. injection Rc as <- <-. cbn in L.
          apply run_ty_inv in Rt as [its [Lt [O _]]].
          assert (Ls : simports (e_log st1) = simports (e_log st) ++ [(pkg_import_name e p, SComponent)]).
          { rewrite L, !simports_app, Lt, simports_app, (simports_ty _ _ O). cbn. now rewrite !app_nil_r. }
          constructor; rewrite ?Ls, ?Dp.
          -- intros nm s I. apply in_app_or in I as [I|[I|[]]].
             ++ destruct (A _ _ I) as [?|[? [? [q [? ?]]]]]; auto. right. repeat split; auto. exists q. split; auto. apply in_or_app. auto.
             ++ injection I as <- <-. right. repeat split; auto. exists p. split; auto. apply in_or_app. right. cbn. auto.
          -- intros x I. apply in_or_app. auto.
          -- intros _ q Iq. apply in_or_app. apply in_app_or in Iq as [Iq|[<-|[]]]; [left; auto | right; cbn; auto].
    - (* alias *)
      unfold enc_alias in R. destruct (get_alias_source u g n) as [[src en]|]; try discriminate.
      destruct (get_node g src) as [sn|]; try discriminate. destruct (u_inst_exports u (nitem sn)) as [ex|]; try discriminate.
      destruct (alist_get N.eqb ex en); try discriminate. destruct (nat_assoc src (e_nidx st)); try discriminate.
      apply set_nidx_inv in R as [_ [L _]]. cbn in L.
      eapply NInv_same; eauto.
      + rewrite L, simports_app. cbn. now rewrite app_nil_r.
      + unfold is_inst. now rewrite G, K.
  Qed.

  Lemma node_loop_imports st0 d0 st1 :
    LInv e u g dc ord [] st0 d0 ->
    fold_left (fun acc n => bind acc (fun st => enc_node e u g dc tau st n)) other (ROk st0) = ROk st1 ->
    NInv st0 other st1.
  Proof.
    intros L0 F.
    assert (G : exists d, LInv e u g dc ord other st1 d /\ NInv st0 other st1).
    { apply (fold_res_ind (fun st n => enc_node e u g dc tau st n)
               (fun done st => exists d, LInv e u g dc ord done st d /\ NInv st0 done st) _ _ _ F).
      - exists d0. split; auto. constructor; auto. intros _ p [].
      - intros pre n post st st' Eo [d [LI NI]] R.
        destruct (step_node e u g dc tau ord EI T _ _ _ _ _ _ LI Eo R) as [d1 [LI1 _]]. exists d1. split; auto.
        eapply step_node_imports; eauto. }
    destruct G as [d [_ NI]]. exact NI.
  Qed.

  (** ** what the aggregated requirements are in terms of the specification *)
  Lemma spec_requirements nm s :
    In (nm, s) (flat_map (fun n => map (fun p : name * kid => (canon e u g (nstr e (fst p)), we_sort e (snd p))) (unsat_args u g n)) (node_ids g)
                ++ flat_map (fun n => match get_node g n with
                                      | Some nd => match nk nd with NImport nm0 => [(canon e u g (nstr e nm0), we_sort e (nitem nd))] | _ => [] end
                                      | None => [] end) (node_ids g))
    <-> exists nm0, In (nm0, s) (hist e u g ord) /\ nm = canon e u g nm0.
  Proof.
    unfold hist. rewrite in_app_iff. split.
    - intros [I|I].
      + apply in_flat_map in I as [n [In_n I]]. apply in_map_iff in I as [[nm0 k] [E I]]. cbn in E. injection E as <- <-.
        exists (nstr e nm0). split; auto. apply in_or_app. left. apply in_map_iff. exists (n, (nm0, k)). split; auto.
        unfold implicit_requests. apply in_flat_map. exists n. split.
        * apply filter_In. split; auto. unfold unsat_args in I. unfold is_inst.
          destruct (get_node g n) as [nd|]; [|destruct I]. destruct (nk nd); auto; destruct I.
        * apply in_map_iff. eauto.
      + apply in_flat_map in I as [n [In_n I]]. destruct (get_node g n) as [nd|] eqn:G; [|destruct I].
        destruct (nk nd) eqn:K; try (destruct I; fail). destruct I as [I|[]]. injection I as <- <-.
        exists (nstr e n0). split; auto. apply in_or_app. right. apply in_map_iff. exists n. split.
        * unfold imp_hist, imp_name, node_sort. now rewrite G, K.
        * apply filter_In. split; [now apply (to_all _ _ T)|]. unfold is_import. now rewrite G, K.
    - intros [nm0 [I ->]]. apply in_app_or in I as [I|I].
      + left. apply in_map_iff in I as [[n [nm1 k]] [E I]]. unfold req_hist in E. cbn in E. injection E as <- <-.
        unfold implicit_requests in I. apply in_flat_map in I as [m [Im I]]. apply in_map_iff in I as [p [Ep I]]. injection Ep as -> ->.
        apply filter_In in Im as [Im _]. apply in_flat_map. exists n. split; auto. apply in_map_iff. exists (nm1, k). auto.
      + right. apply in_map_iff in I as [n [E I]]. apply filter_In in I as [Io Im].
        destruct (is_import_true g _ Im) as [nd [G K]]. unfold imp_hist in E. injection E as <- <-.
        apply in_flat_map. exists n. split; [apply node_ids_In; now apply (to_live _ _ T)|].
        rewrite G, K. unfold node_sort. rewrite G. cbn. auto.
  Qed.

  (** ** the theorem *)
  Theorem imports_spec st names :
    encode_with_order e u g dc tau ord = ROk (st, names) ->
    (forall p, In p (e_dedup st) -> fst p = snd p) ->
    (forall nm s, In (nm, s) (simports (e_log st)) -> In (nm, s) (spec_imports e u g dc ord)) /\
    (forall nm s, In (nm, s) (spec_imports e u g dc ord) -> In (nm, s) (simports (e_log st)) \/ In (nm, nm) (e_dedup st)).
  Proof.
    intros R Cons. unfold encode_with_order in R. apply bind_ok in R as [st0 [R0 R]].
    (* the later phases, once more *)
    pose proof R as R'.
    apply bind_ok in R' as [st1 [R1 R']]. apply bind_ok in R' as [st2 [R2 R']]. apply bind_ok in R' as [nms [R3 R']]. injection R' as -> ->.
    assert (Lx : simports (e_log st) = simports (e_log st1)).
    { unfold enc_exports in R2.
      apply (fold_res_ind (export_step e g) (fun _ s => simports (e_log s) = simports (e_log st1)) _ _ _ R2); auto.
      intros pre p post s s1 _ IH Rs. unfold export_step in Rs. destruct (is_def g (snd p)); [injection Rs as <-; auto|].
      destruct (nat_assoc (snd p) (e_nidx s)); try discriminate. injection Rs as <-. cbn. rewrite simports_app. cbn. now rewrite app_nil_r. }
    (* the de-duplication record is that of the import phase *)
    assert (D : e_dedup st = e_dedup st0).
    { assert (W : exists w, True) by (exists 0; auto). clear W.
      assert (D1 : e_dedup st1 = e_dedup st0).
      { apply (fold_res_ind (fun st n => enc_node e u g dc tau st n) (fun _ s => e_dedup s = e_dedup st0) _ _ _ R1); auto.
        intros pre n post s s1 _ IH Rn. rewrite <- IH. clear -Rn.
        unfold enc_node in Rn. destruct (get_node g n) as [nd|]; try discriminate. destruct (nk nd); try discriminate.
        - unfold enc_definition in Rn. destruct (nexport nd); try discriminate.
          apply bind_ok in Rn as [[s' ty] [Rt Rn]]. destruct (negb _); try discriminate.
          apply set_nidx_inv in Rn as [_ [_ [_ [_ [_ Dn]]]]]. cbn in Dn.
          apply run_ty_inv in Rt as [its [_ [_ [_ [_ [_ Dt]]]]]]. congruence.
        - unfold enc_instantiation in Rn. destruct (npkg nd) as [pid|]; try discriminate.
          destruct (get_pkg g pid) as [p|]; try discriminate. destruct (inst_imports u g nd) as [imps|]; try discriminate.
          apply bind_ok in Rn as [[s' ci] [Rc Rn]]. apply bind_ok in Rn as [args [_ Rn]].
          apply set_nidx_inv in Rn as [_ [_ [_ [_ [_ Dn]]]]]. cbn in Dn. rewrite Dn. clear Dn.
          destruct (pkg_assoc pid (e_pkgs s)); [injection Rc as <- <-; auto|].
          apply bind_ok in Rc as [[s'' ci'] [Rc Rc']]. injection Rc' as <- <-. cbn.
          destruct dc; [injection Rc as <- <-; auto|].
          apply bind_ok in Rc as [[s0 ty] [Rt Rc]]. injection Rc as <- <-. cbn.
          apply run_ty_inv in Rt as [its [_ [_ [_ [_ [_ Dt]]]]]]. exact Dt.
        - unfold enc_alias in Rn. destruct (get_alias_source u g n) as [[src en]|]; try discriminate.
          destruct (get_node g src) as [sn|]; try discriminate. destruct (u_inst_exports u (nitem sn)) as [ex|]; try discriminate.
          destruct (alist_get N.eqb ex en); try discriminate. destruct (nat_assoc src (e_nidx s)); try discriminate.
          apply set_nidx_inv in Rn as [_ [_ [_ [_ [_ Dn]]]]]. exact Dn. }
      assert (D2 : e_dedup st = e_dedup st1).
      { unfold enc_exports in R2.
        apply (fold_res_ind (export_step e g) (fun _ s => e_dedup s = e_dedup st1) _ _ _ R2); auto.
        intros pre p post s s1 _ IH Rs. unfold export_step in Rs. destruct (is_def g (snd p)); [injection Rs as <-; auto|].
        destruct (nat_assoc (snd p) (e_nidx s)); try discriminate. injection Rs as <-. exact IH. }
      congruence. }
    assert (Cons0 : forall p, In p (e_dedup st0) -> fst p = snd p) by (rewrite <- D; exact Cons).
    destruct (encode_imports_ok e u g dc tau ord T st0 R0 Cons0) as [d0 L0].
    pose proof (node_loop_imports _ _ _ L0 R1) as [NA NB NC].
    destruct (encode_imports_log _ R0) as [a [AI [IA IB]]].
    assert (Pk : forall p, In p (done_pkgs g other) <-> In p (pkgs_in_order g ord)).
    { intros p. unfold pkgs_in_order, done_pkgs. rewrite nodup_nat_In, <- (filter_inst_other g ord). tauto. }
    unfold spec_imports. split.
    - intros nm s I. rewrite Lx in I. rewrite app_assoc, in_app_iff. destruct (NA _ _ I) as [I0|[Hd [-> [p [Ip ->]]]]].
      + left. apply spec_requirements. destruct (IA _ _ I0) as [x [Ix [En Es]]].
        assert (In_h : In nm (map fst (hist e u g ord))) by (apply (ai_hist_in _ _ AI); rewrite <- En; now apply in_map).
        apply in_map_iff in In_h as [[nm0 s0] [E0 Ih]]. cbn in E0. subst nm0.
        assert (s0 = s) by (rewrite <- Es; symmetry; eapply (ai_sort _ _ AI); eauto; rewrite En; apply compat_refl). subst s0.
        exists nm. split; auto.
        destruct (agg_canonical _ _ _ _ AI Ih) as [Ic Cc].
        rewrite <- (canonical_is_canon e u g ord T _ _ _ AI Ih).
        apply (ai_track _ _ AI); auto. rewrite <- En. now apply in_map.
      + right. rewrite Hd. apply in_map_iff. exists p. split; auto. now apply Pk.
    - intros nm s I. rewrite app_assoc, in_app_iff in I. destruct I as [I|I].
      + apply spec_requirements in I as [nm0 [Ih ->]].
        destruct (agg_canonical _ _ _ _ AI Ih) as [Ic Cc]. apply in_map_iff in Ic as [x [Ex Ix]].
        rewrite <- (canonical_is_canon e u g ord T _ _ _ AI Ih).
        pose proof (agg_entry_sort _ _ _ _ _ AI Ih Ix Ex) as Es.
        destruct (IB _ Ix) as [I0|[under Iu]].
        * left. rewrite Lx. apply NB. now rewrite <- Ex, <- Es.
        * right. rewrite D. pose proof (Cons0 _ Iu) as Eu. cbn in Eu. rewrite <- Ex. now rewrite <- Eu in Iu.
      + destruct dc eqn:DC; [destruct I|]. apply in_map_iff in I as [p [E Ip]]. injection E as <- <-.
        left. rewrite Lx. apply NC; auto. now apply Pk.
  Qed.
End ImportsSpec.

Theorem imports_spec_topo e u g dc tau ord st names :
  EncInv e u g -> topo_orderb g ord = true ->
  encode_with_order e u g dc tau ord = ROk (st, names) ->
  (forall p, In p (e_dedup st) -> fst p = snd p) ->
  (forall nm s, In (nm, s) (simports (e_log st)) -> In (nm, s) (spec_imports e u g dc ord)) /\
  (forall nm s, In (nm, s) (spec_imports e u g dc ord) -> In (nm, s) (simports (e_log st)) \/ In (nm, nm) (e_dedup st)).
Proof. intros EI TO. apply imports_spec; auto. now apply topo_orderb_Topo. Qed.
