(** C02: what the first phase of the model of [toposort] computes.
    - [phase1_perm]: on a graph whose edges have live endpoints (C06 invariant) the phase ends either at
      a self loop or with a duplicate-free enumeration of exactly the live nodes; the model's fuel
      [dfs_fuel] suffices (more fuel changes nothing: the fuel exit of [dfs_loop] is never taken);
    - [phase1_topo]: if the edge relation has no cycle the enumeration places every edge's source
      before its target and the self loop exit is not taken. *)
From Coq Require Import List Arith Bool NArith Lia Permutation Relation_Operators.
From WacV Require Import Str Graph Wiring WiringSpec EncodeModel GraphInv ToposortDfs.
Import ListNotations.
Local Open Scope nat_scope.

(** * paths and cycles of the edge relation (all three edge kinds) *)
Definition gedge (g : gstate) (a b : nat) : Prop := In b (succs g a).
Definition reach (g : gstate) : nat -> nat -> Prop := clos_trans nat (gedge g).
Definition has_cycle (g : gstate) : Prop := exists n, reach g n n.
Definition RankedBy (g : gstate) (rk : nat -> nat) : Prop := forall e, In e (edges g) -> rk (esrc e) < rk (etgt e).

Lemma reach_rank g rk : RankedBy g rk -> forall a b, reach g a b -> rk a < rk b.
Proof.
  intros HR a b H. induction H as [a b H|a b c _ IH1 _ IH2]; [|lia].
  apply succs_edge in H as [e [I [<- <-]]]. now apply HR.
Qed.

Lemma ranked_no_cycle g rk : RankedBy g rk -> ~ has_cycle g.
Proof. intros HR [n H]. apply (reach_rank g rk HR) in H. lia. Qed.

Lemma self_loop_cycle g : has_self_loop g -> has_cycle g.
Proof. intros [e [I E]]. exists (esrc e). apply t_step. apply succs_edge. exists e. auto. Qed.

(** * the finish stack is closed under successors, successors first *)
Inductive TopoFin (g : gstate) : list nat -> Prop :=
  | TF_nil : TopoFin g []
  | TF_cons x l : TopoFin g l -> (forall t, In t (succs g x) -> In t l) -> TopoFin g (x :: l).

Lemma TopoFin_closed g l : TopoFin g l -> forall s t, In s l -> In t (succs g s) -> In t l.
Proof.
  induction 1 as [|x l T IH C]; intros s t Hs Ht; [destruct Hs|].
  destruct Hs as [<-|Hs]; right; eauto.
Qed.

Lemma index_of_cons_eq x l : index_of x (x :: l) = 0.
Proof. cbn. now rewrite Nat.eqb_refl. Qed.
Lemma index_of_cons_ne x y l : x <> y -> index_of y (x :: l) = S (index_of y l).
Proof. intros H. cbn. apply Nat.eqb_neq in H. now rewrite H. Qed.

Lemma TopoFin_index g l : TopoFin g l -> NoDup l ->
  forall s t, In s l -> In t (succs g s) -> index_of s l < index_of t l.
Proof.
  induction 1 as [|x l T IH C]; intros ND s t Hs Ht; [destruct Hs|].
  inversion ND as [|? ? Nx ND']; subst.
  destruct Hs as [<-|Hs].
  - rewrite index_of_cons_eq. apply C in Ht.
    rewrite index_of_cons_ne by (intros ->; contradiction). lia.
  - assert (In t l) by (eapply TopoFin_closed; eauto).
    rewrite !index_of_cons_ne by (intros ->; contradiction).
    specialize (IH ND' s t Hs Ht). lia.
Qed.

Lemma NoDup_nodupb l : NoDup l -> nodupb l = true.
Proof.
  induction 1 as [|x l N _ IH]; cbn; auto.
  rewrite IH, andb_true_r. apply negb_true_iff. now apply existsb_eqb_notIn.
Qed.

Lemma topo_orderb_intro g ord :
  (forall e, In e (edges g) -> live g (esrc e) = true /\ live g (etgt e) = true) ->
  NoDup ord -> (forall n, In n ord <-> In n (node_ids g)) -> TopoFin g ord -> topo_orderb g ord = true.
Proof.
  intros EL ND Iff T. unfold topo_orderb. rewrite !andb_true_iff. repeat split.
  - now apply NoDup_nodupb.
  - apply forallb_forall. intros n Hn. apply existsb_eqb_In. now apply Iff.
  - apply forallb_forall. intros n Hn. apply node_ids_live_iff. now apply Iff.
  - apply forallb_forall. intros e He. unfold precedes. apply Nat.ltb_lt.
    apply (TopoFin_index g ord T ND).
    + apply Iff, node_ids_live_iff. now apply EL.
    + apply succs_edge. eauto.
Qed.

(** * the outer loop with an explicit fuel parameter *)
Definition d_init : dfs := {| df_disc := []; df_fin := []; df_out := [] |}.

Definition topo_step (g : gstate) (f : nat) (acc : option dfs) (i : nat) : option dfs :=
  match acc with
  | None => None
  | Some d => if memn i (df_disc d) then Some d else dfs_loop g f [i] d
  end.

Definition topo_fold (g : gstate) (f : nat) : option dfs := fold_left (topo_step g f) (rev (node_ids g)) (Some d_init).

Definition topo_phase1_fuel (g : gstate) (f : nat) : option (list nat) :=
  match topo_fold g f with Some d => Some (df_out d) | None => None end.

Lemma topo_phase1_eq g : topo_phase1 g = topo_phase1_fuel g (dfs_fuel g).
Proof. reflexivity. Qed.

Lemma topo_step_none g f l : fold_left (topo_step g f) l None = None.
Proof. induction l; cbn; auto. Qed.

Section Phase1.
  Variable g : gstate.
  Hypothesis EL : forall e, In e (edges g) -> live g (esrc e) = true /\ live g (etgt e) = true.
  (** the part of the invariant that speaks about paths *)
  Record RInv (st : list nat) (d : dfs) : Prop := {
    (** everything above the active entry of a grey node is a proper descendant of it *)
    ri_above : forall y w, grey d y -> In w (before y st) -> reach g y w;
    (** unless a cycle was met, the finish stack is successor-closed *)
    ri_topo : has_cycle g \/ TopoFin g (df_out d) }.

  Lemma dfs_step_rinv R nx rest d : DInv g R (nx :: rest) d -> RInv (nx :: rest) d ->
    match dfs_step g nx rest d with
    | None => True
    | Some (st', d') => RInv st' d'
    end.
  Proof.
    intros I Rr. unfold dfs_step.
    destruct (memn nx (df_disc d)) eqn:Dn.
    - apply memn_In in Dn.
      assert (Hab : forall y w, grey d y -> y <> nx -> In w (before y rest) -> reach g y w).
      { intros y w Gy Ne Hw. apply (ri_above _ _ Rr y w Gy). rewrite before_cons_ne by congruence. now right. }
      destruct (memn nx (df_fin d)) eqn:Fn.
      + apply memn_In in Fn. constructor; [|apply Rr].
        intros y w Gy Hw. apply Hab; auto. intros ->. destruct Gy; contradiction.
      + apply memn_notIn in Fn. constructor; cbn [df_out].
        * intros y w [Dy Fy] Hw. cbn [df_disc df_fin] in *.
          assert (Gy : grey d y) by (split; auto; intros H; apply Fy; now right).
          apply Hab; auto. intros ->. apply Fy. now left.
        * destruct (ri_topo _ _ Rr) as [C|T]; [now left|].
          assert (Gn : grey d nx) by (split; auto).
          (* a successor that is not finished is grey and below: a back edge *)
          assert (Hs : forall t, In t (succs g nx) -> In t (df_out d) \/ has_cycle g).
          { intros t Ht.
            destruct (di_succ _ _ _ _ I nx t Gn Ht) as [Dt|Bt]; [|rewrite before_cons_eq in Bt; destruct Bt].
            rewrite <- (di_out _ _ _ _ I).
            destruct (in_dec Nat.eq_dec t (df_fin d)) as [Ft|Ft]; auto. right.
            assert (Gt : grey d t) by (split; auto).
            destruct (Nat.eq_dec nx t) as [<-|Ne].
            - exists nx. now apply t_step.
            - exists t. apply t_trans with nx; [|now apply t_step].
              apply (ri_above _ _ Rr t nx Gt). rewrite before_cons_ne by exact Ne. now left. }
          assert (Hall : has_cycle g \/ forall t, In t (succs g nx) -> In t (df_out d)).
          { clear -Hs. induction (succs g nx) as [|t l IH]; [right; intros t []|].
            destruct (Hs t (or_introl eq_refl)) as [H1|H1]; [|now left].
            destruct IH as [H2|H2]; [intros t' Ht'; apply Hs; now right | now left|].
            right. intros t' [<-|Ht']; auto. }
          destruct Hall as [C|A]; [now left|]. right. now constructor.
    - apply memn_notIn in Dn.
      destruct (memn nx (succs g nx)) eqn:Sl; [exact Logic.I|].
      set (pu := pushed (nx :: df_disc d) (succs g nx)).
      assert (Pu : forall x, In x pu -> In x (succs g nx) /\ x <> nx /\ ~ In x (df_disc d)).
      { intros x Hx. apply pushed_In in Hx as [A B]. split; auto. split; intros H; apply B; [now left | now right]. }
      constructor; cbn [df_out]; [|apply Rr].
      intros y w [Dy Fy] Hw. cbn [df_disc df_fin] in *.
      destruct Dy as [<-|Dy].
      + rewrite before_app_notin in Hw by (intros H'; apply Pu in H'; tauto).
        rewrite before_cons_eq, app_nil_r in Hw. apply Pu in Hw as [Hw _]. now apply t_step.
      + assert (Gy : grey d y) by (split; auto).
        assert (Ne : nx <> y) by (intros ->; contradiction).
        rewrite before_app_notin in Hw by (intros H'; apply Pu in H'; tauto).
        assert (Hn : reach g y nx).
        { apply (ri_above _ _ Rr y nx Gy). rewrite before_cons_ne by exact Ne. now left. }
        apply in_app_or in Hw as [Hw|Hw].
        * apply Pu in Hw as [Hw _]. apply t_trans with nx; auto. now apply t_step.
        * now apply (ri_above _ _ Rr y w Gy).
  Qed.

  Definition FullInv (R st : list nat) (d : dfs) : Prop := DInv g R st d /\ RInv st d.

  Lemma full_loop R f st d : FullInv R st d -> dfs_mu g st d <= f ->
    (forall f', f <= f' -> dfs_loop g f' st d = dfs_loop g f st d) /\
    match dfs_loop g f st d with None => has_self_loop g | Some d' => FullInv R [] d' end.
  Proof.
    apply (dfs_loop_rule g (FullInv R) (has_self_loop g) (dfs_mu g)).
    - intros nx rest d0. unfold dfs_mu. cbn [length]. lia.
    - intros nx rest d0 [I Rr]. pose proof (dfs_step_inv g EL R nx rest d0 I) as S1.
      destruct (dfs_step g nx rest d0) as [[st' d']|] eqn:E; auto.
      destruct S1 as [I' Hlt]. split; auto. split; auto.
      pose proof (dfs_step_rinv R nx rest d0 I Rr) as S2. now rewrite E in S2.
  Qed.

  Lemma FullInv_start R d i : FullInv R [] d -> live g i = true -> FullInv (i :: df_disc d) [i] d.
  Proof.
    intros [I Rr] Li. split.
    - constructor; try apply I.
      + intros x Gx. destruct (di_grey_st _ _ _ _ I x Gx).
      + intros x [<-|[]]. exact Li.
      + intros x t Gx. destruct (di_grey_st _ _ _ _ I x Gx).
      + intros x [<-|Hx]; [right; now left | now left].
    - constructor; [|apply Rr].
      intros y w Gy. destruct (di_grey_st _ _ _ _ I y Gy).
  Qed.

  Lemma FullInv_weaken R st d : FullInv R st d -> FullInv [] st d.
  Proof. intros [I Rr]. split; auto. constructor; try apply I. intros x []. Qed.

  Lemma app_cons_move (i : nat) l seen x : In x ((i :: l) ++ seen) -> In x (l ++ i :: seen).
  Proof.
    cbn. intros [<-|Hx]; [apply in_or_app; right; now left|].
    apply in_app_or in Hx as [Hx|Hx]; apply in_or_app; [now left | right; now right].
  Qed.

  Definition OInv (seen : list nat) (d : dfs) : Prop := FullInv [] [] d /\ incl seen (df_disc d).

  Lemma outer_loop : forall l seen d f, dfs_fuel g <= f -> OInv seen d -> (forall i, In i l -> live g i = true) ->
    fold_left (topo_step g f) l (Some d) = fold_left (topo_step g (dfs_fuel g)) l (Some d) /\
    match fold_left (topo_step g (dfs_fuel g)) l (Some d) with
    | None => has_self_loop g
    | Some d' => OInv (l ++ seen) d'
    end.
  Proof.
    induction l as [|i l IH]; intros seen d f Hf [F S] Hl; cbn [fold_left].
    - split; auto. split; auto.
    - cbn [topo_step]. destruct (memn i (df_disc d)) eqn:Di.
      + apply memn_In in Di. destruct (IH (i :: seen) d f Hf) as [A B].
        * split; auto. intros x [<-|Hx]; auto.
        * intros j Hj. apply Hl. now right.
        * split; auto. destruct (fold_left (topo_step g (dfs_fuel g)) l (Some d)) as [d'|]; auto.
          destruct B as [B1 B2]. split; auto. intros x Hx. apply B2. now apply app_cons_move.
      + assert (Li : live g i = true) by (apply Hl; now left).
        pose proof (FullInv_start [] d i F Li) as F0.
        destruct (full_loop _ (dfs_fuel g) [i] d F0 (dfs_mu_bound g i d)) as [Hfu Hres].
        rewrite (Hfu f Hf).
        destruct (dfs_loop g (dfs_fuel g) [i] d) as [d1|].
        * destruct (IH (i :: seen) d1 f Hf) as [A B].
          -- split; [eapply FullInv_weaken; eauto|].
             destruct Hres as [I1 _]. intros x Hx.
             assert (Hr : In x (i :: df_disc d)) by (destruct Hx as [<-|Hx]; [now left | right; auto]).
             destruct (di_req _ _ _ _ I1 x Hr) as [H|[]]. exact H.
          -- intros j Hj. apply Hl. now right.
          -- split; auto. destruct (fold_left (topo_step g (dfs_fuel g)) l (Some d1)) as [d'|]; auto.
             destruct B as [B1 B2]. split; auto. intros x Hx. apply B2. now apply app_cons_move.
        * rewrite !topo_step_none. auto.
  Qed.

  Lemma FullInv_init : FullInv [] [] d_init.
  Proof.
    split.
    - constructor; cbn [d_init df_disc df_fin df_out]; auto; try (now constructor).
      + intros x [].
      + intros x [[] _].
      + intros x t [[] _].
    - constructor; cbn; [intros y w [[] _] | right; constructor].
  Qed.

  Lemma topo_fold_spec f : dfs_fuel g <= f ->
    topo_fold g f = topo_fold g (dfs_fuel g) /\
    match topo_fold g (dfs_fuel g) with
    | None => has_self_loop g
    | Some d => FullInv [] [] d /\ forall x, In x (node_ids g) -> In x (df_disc d)
    end.
  Proof.
    intros Hf. unfold topo_fold.
    destruct (outer_loop (rev (node_ids g)) [] d_init f Hf) as [A B].
    - split; [apply FullInv_init | intros x []].
    - intros i Hi. apply in_rev in Hi. now apply node_ids_live_iff.
    - split; auto. destruct (fold_left (topo_step g (dfs_fuel g)) (rev (node_ids g)) (Some d_init)) as [d|]; auto.
      destruct B as [B1 B2]. split; [exact B1|].
      intros x Hx. apply B2. apply in_or_app. left. now apply in_rev in Hx.
  Qed.

  Lemma phase1_fuel f : dfs_fuel g <= f -> topo_phase1_fuel g f = topo_phase1 g.
  Proof. intros Hf. rewrite topo_phase1_eq. unfold topo_phase1_fuel. now rewrite (proj1 (topo_fold_spec f Hf)). Qed.

  Lemma phase1_result :
    match topo_phase1 g with
    | None => has_self_loop g
    | Some ord => NoDup ord /\ (forall n, In n ord <-> In n (node_ids g)) /\ (has_cycle g \/ TopoFin g ord) /\
                  (forall n, In n ord -> ~ In n (succs g n))
    end.
  Proof.
    rewrite topo_phase1_eq. unfold topo_phase1_fuel.
    destruct (topo_fold_spec (dfs_fuel g) (le_n _)) as [_ B].
    destruct (topo_fold g (dfs_fuel g)) as [d|]; auto. destruct B as [[I Rr] All].
    split; [apply I|]. split; [|split].
    - intros n. split.
      + intros Hn. apply node_ids_live_iff. apply (di_live_disc _ _ _ _ I). apply (di_fin_disc _ _ _ _ I).
        now rewrite (di_out _ _ _ _ I).
      + intros Hn. eapply DInv_nil_disc_fin; eauto.
    - apply Rr.
    - intros n Hn. apply (di_noself _ _ _ _ I). apply (di_fin_disc _ _ _ _ I). now rewrite (di_out _ _ _ _ I).
  Qed.
End Phase1.

(** * the statements *)
Definition EdgesLive (g : gstate) : Prop :=
  forall e, In e (edges g) -> live g (esrc e) = true /\ live g (etgt e) = true.

Lemma phase1_perm g ord : EdgesLive g ->
  topo_phase1 g = Some ord -> Permutation ord (node_ids g) /\ NoDup ord.
Proof.
  intros EL E. pose proof (phase1_result g EL) as H. rewrite E in H.
  destruct H as [ND [Iff _]]. split; auto. apply NoDup_Permutation; auto. apply node_ids_nodup.
Qed.

Lemma phase1_none_self_loop g : EdgesLive g ->
  topo_phase1 g = None -> exists e, In e (edges g) /\ esrc e = etgt e.
Proof. intros EL E. pose proof (phase1_result g EL) as H. now rewrite E in H. Qed.

Lemma phase1_topo g : EdgesLive g -> ~ has_cycle g ->
  exists ord, topo_phase1 g = Some ord /\ topo_orderb g ord = true.
Proof.
  intros EL NC. pose proof (phase1_result g EL) as H.
  destruct (topo_phase1 g) as [ord|].
  - destruct H as [ND [Iff [[C|T] _]]]; [contradiction|]. exists ord. split; auto. apply topo_orderb_intro; auto.
  - exfalso. apply NC. now apply self_loop_cycle.
Qed.
