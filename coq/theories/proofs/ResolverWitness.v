(** C04: concrete witnesses (a tiny universe, programs parsed by the C12 parser model, evaluated with
    vm_compute): non-vacuity of the theorems and the two places where the reference AS WRITTEN is
    contradicted by the faithful resolver model. *)
From Coq Require Import List Arith Bool NArith String.
From WacV Require Import Str StrLit Token Lexer LexImpl Semver Names Ast Parser Graph Resolver LangSpec.
Import ListNotations.
Local Open Scope N_scope.

(** names: "f" "x:y/f" "baz" "out" "p" "a" *)
Definition w_pool : list str := [L"f"; L"x:y/f"; L"baz"; L"out"; L"p"; L"a"; L"g"; L"foo:bar/baz"].

Fixpoint index_of (s : str) (l : list str) (i : N) : N :=
  match l with [] => 999 | x :: r => if str_eqb x s then i else index_of s r (i + 1) end.

Definition w_graph : universe := {|
  (* kind 0: a function; kind 1: an instance exporting [f] and [x:y/f] (both functions);
     kind 2: an instance exporting [g] *)
  u_inst_exports := fun k => if k =? 1 then Some [(0, 0); (1, 0)] else if k =? 2 then Some [(6, 0)] else None;
  (* package 0 (test:both): no imports, instance kind 1; package 1 (test:sink): imports [f], [x:y/f], kind 2 *)
  u_pkgs := [ {| pd_inst := 1; pd_imports := [] |}; {| pd_inst := 2; pd_imports := [(0, 0); (1, 0)] |} ];
  u_tys := [];
  u_lkinds := [0; 1; 2];
  u_sub := N.eqb;
  u_import_name_ok := fun _ => true;
  u_export_name_ok := fun _ => true |}.

Definition w_universe : runiverse := {|
  ru_graph := w_graph;
  ru_intern := fun s => index_of s w_pool 0;
  ru_text := fun n => nth (N.to_nat n) w_pool [];
  ru_pkg_find := fun nm v =>
    match v with
    | Some _ => None
    | None => if str_eqb nm (L"test:both") then Some 0%nat else if str_eqb nm (L"test:sink") then Some 1%nat else None
    end;
  ru_pkg_defs := fun _ => [];
  ru_proj_exports := fun _ => None;
  ru_promote := fun k => k;
  ru_kind_id := fun _ => None;
  ru_func_kind := fun s => match s with [] => Some 0 | _ => None end |}.

Definition parse (src : str) : option document :=
  match parse_document impl_flags impl_cfg src with POk d _ => Some d | _ => None end.

(** [p.f] on an instance that exports both [f] and [x:y/f] *)
Definition w_access : str :=
  L"package test:comp; let p = new test:both { }; let a = p.f; export a as ""out"";".

(** a spread export repeated *)
Definition w_spread2 : str :=
  L"package test:comp; let p = new test:both { }; export p...; export p...;".

(** inferred, named, spread and fill together *)
Definition w_args : str :=
  L"package test:comp; import f: func(); let p = new test:both { }; let s = new test:sink { f, ...p }; let t = new test:sink { ""x:y/f"": f, ... }; export s.g as ""out"";".

(** the resolver model: what the export [out] is an alias of *)
Definition exported_alias (u : runiverse) (src : str) : option (option (nat * name)) :=
  match parse src with
  | None => None
  | Some d =>
      match resolve u d with
      | inl st =>
          match exports (rs_g st) with
          | (_, n) :: _ => Some (get_alias_source u (rs_g st) n)
          | [] => Some None
          end
      | inr _ => None
      end
  end.

Definition resolve_error (u : runiverse) (src : str) : option fail :=
  match parse src with
  | None => None
  | Some d => match resolve u d with inl _ => None | inr f => Some f end
  end.

Definition denoted_exports (dv : deviations) (u : runiverse) (src : str) : option (list (str * sval) + illformed) :=
  match parse src with
  | None => None
  | Some d => Some (match denote dv u d with inl e => inl (se_exports e) | inr i => inr i end)
  end.

(** the arguments of every instantiation, in the model's graph *)
Definition model_args (u : runiverse) (src : str) : option (list (nat * list (name * nat))) :=
  match parse src with
  | None => None
  | Some d =>
      match resolve u d with
      | inl st => Some (flat_map (fun n => match get_args u (rs_g st) n with [] => [] | l => [(n, l)] end) (node_ids (rs_g st)))
      | inr _ => None
      end
  end.

Lemma w_access_model : exported_alias w_universe w_access = Some (Some (0%nat, 0)).
Proof. vm_compute. reflexivity. Qed.

Lemma w_access_doc :
  denoted_exports doc_flags w_universe w_access = Some (inl [(L"out", VAccess (VInst 0) (L"x:y/f"))]).
Proof. vm_compute. reflexivity. Qed.

Lemma w_access_known :
  denoted_exports impl_flags_c04 w_universe w_access = Some (inl [(L"out", VAccess (VInst 0) (L"f"))]).
Proof. vm_compute. reflexivity. Qed.

Lemma w_spread2_model : exists a, resolve_error w_universe w_spread2 = Some (FErr (ESpreadExportNoEffect a)).
Proof. eexists. vm_compute. reflexivity. Qed.

Lemma w_spread2_doc :
  denoted_exports doc_flags w_universe w_spread2
  = Some (inl [(L"f", VAccess (VInst 0) (L"f")); (L"x:y/f", VAccess (VInst 0) (L"x:y/f"))]).
Proof. vm_compute. reflexivity. Qed.

Lemma w_spread2_known : denoted_exports impl_flags_c04 w_universe w_spread2 = Some (inr IIneffectiveSpread).
Proof. vm_compute. reflexivity. Qed.

(** non-vacuity: a program using all four argument forms resolves; the first [new test:sink] gets [f]
    from the explicit import (node 0) and [x:y/f] from the spread (an alias, node 2, of instance node
    1); the second gets ["x:y/f"] by name and leaves [f] implicit *)
Lemma w_args_model : model_args w_universe w_args = Some [(3%nat, [(1, 2%nat); (0, 0%nat)]); (4%nat, [(1, 0%nat)])].
Proof. vm_compute. reflexivity. Qed.

Lemma w_args_spec :
  match parse w_args with
  | Some d => match denote impl_flags_c04 w_universe d with
              | inl e => Some (map (fun i => (si_pkg i, map (fun b => (fst b, binding_value (fst b) (snd b))) (si_bindings i))) (se_insts e))
              | inr _ => None end
  | None => None
  end
  = Some [ (0%nat, []);
           (1%nat, [(L"f", Some (VImport (L"f"))); (L"x:y/f", Some (VAccess (VInst 0) (L"x:y/f")))]);
           (1%nat, [(L"f", None); (L"x:y/f", Some (VImport (L"f")))]) ].
Proof. vm_compute. reflexivity. Qed.
