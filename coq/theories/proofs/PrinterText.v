(** Text-level facts used by the C13 proofs: [trim], [split_on], [rust_lines], doc-comment lines, and
    [slice] (the model of [&source[a..b]]). *)
From WacV Require Import Str Token Lexer Semver Ast Parser Printer PrintSpec.
From Coq Require Import Lia.
Local Open Scope nat_scope.

(* ------------------------------------------------------------------ trim *)

Definition all_ws (s : str) : Prop := Forall (fun c => is_rust_ws c = true) s.
Definition no_lead (s : str) : Prop := match s with c :: _ => is_rust_ws c = false | [] => True end.

Lemma trim_start_split s : exists p, s = p ++ trim_start s /\ all_ws p /\ no_lead (trim_start s).
Proof.
  induction s as [|c s IH]; [exists []; repeat split; constructor|].
  cbn [trim_start]. destruct (is_rust_ws c) eqn:E.
  - destruct IH as (p & Hs & Hp & Hn). exists (c :: p). split; [cbn; congruence|]. split; [constructor; auto|exact Hn].
  - exists []. repeat split; [constructor|exact E].
Qed.

Lemma trim_start_no_lead s : no_lead s -> trim_start s = s.
Proof. destruct s as [|c s]; [reflexivity|]. cbn. now intros ->. Qed.

Lemma trim_start_all_ws p s : all_ws p -> trim_start (p ++ s) = trim_start s.
Proof. induction 1 as [|c p Hc Hp IH]; [reflexivity|]. cbn. now rewrite Hc. Qed.

Lemma trim_start_idem s : trim_start (trim_start s) = trim_start s.
Proof. destruct (trim_start_split s) as (_ & _ & _ & H). now apply trim_start_no_lead. Qed.

Lemma no_lead_app_nonempty a b : a <> [] -> no_lead (a ++ b) -> no_lead a.
Proof. destruct a; [congruence|auto]. Qed.

Lemma no_lead_app a b : a <> [] -> no_lead a -> no_lead (a ++ b).
Proof. destruct a; [congruence|auto]. Qed.

(** The shape of a trimmed text: no white space at either end. *)
Definition trimmed (s : str) : Prop := no_lead s /\ no_lead (rev s).

Lemma trim_trimmed s : trimmed (trim s).
Proof.
  unfold trim, trimmed. rewrite rev_involutive.
  destruct (trim_start_split s) as (p & Hs & Hp & Hn). set (a := trim_start s) in *.
  destruct (trim_start_split (rev a)) as (q & Hr & Hq & Hb). set (b := trim_start (rev a)) in *.
  split; [|exact Hb].
  destruct b as [|c b'] eqn:Eb; [exact I|].
  assert (Ha : a = rev (c :: b') ++ rev q) by (rewrite <- rev_app_distr, <- Hr, rev_involutive; reflexivity).
  rewrite Ha in Hn. eapply no_lead_app_nonempty; [|exact Hn].
  intros E. apply (f_equal (@rev N)) in E. rewrite rev_involutive in E. discriminate E.
Qed.

Lemma trim_of_trimmed s : trimmed s -> trim s = s.
Proof.
  intros [H1 H2]. unfold trim. rewrite (trim_start_no_lead s H1), (trim_start_no_lead _ H2). apply rev_involutive.
Qed.

Lemma trim_idem s : trim (trim s) = trim s.
Proof. apply trim_of_trimmed, trim_trimmed. Qed.

Lemma trim_cons_ws c s : is_rust_ws c = true -> trim (c :: s) = trim s.
Proof. intros H. unfold trim. cbn [trim_start]. now rewrite H. Qed.

Lemma In_trim_start x s : In x (trim_start s) -> In x s.
Proof. destruct (trim_start_split s) as (p & Hs & _). intros H. rewrite Hs. apply in_or_app. now right. Qed.

Lemma In_trim x s : In x (trim s) -> In x s.
Proof. unfold trim. intros H. apply in_rev in H. apply In_trim_start in H. apply in_rev in H. now apply In_trim_start. Qed.

Lemma trim_nil : trim [] = [].
Proof. reflexivity. Qed.

(** Removing one white-space character at the end does not change the trimmed text. *)
Lemma trim_snoc_ws s c : is_rust_ws c = true -> trim (s ++ [c]) = trim s.
Proof.
  intros Hc. unfold trim. destruct (trim_start_split s) as (p & Hs & Hp & Hn).
  remember (trim_start s) as a eqn:Ea. 
  assert (E1 : trim_start (s ++ [c]) = trim_start (a ++ [c])).
  { rewrite Hs, <- app_assoc. apply trim_start_all_ws. exact Hp. }
  rewrite E1. clear E1 Ea Hs. destruct a as [|x a].
  - cbn. now rewrite Hc.
  - assert (E : trim_start ((x :: a) ++ [c]) = (x :: a) ++ [c]) by (apply trim_start_no_lead; exact Hn).
    rewrite E, rev_app_distr. cbn [rev app trim_start]. now rewrite Hc.
Qed.

Lemma strip_cr_trim s : trim (strip_cr s) = trim s.
Proof.
  unfold strip_cr. destruct (rev s) as [|c r] eqn:E; [reflexivity|].
  destruct (c =? c_cr)%N eqn:Ec; [|reflexivity].
  apply N.eqb_eq in Ec. subst c.
  assert (Hs : s = rev r ++ [c_cr]) by (rewrite <- (rev_involutive s), E; reflexivity).
  rewrite Hs. symmetry. now apply trim_snoc_ws.
Qed.

(* ------------------------------------------------------------------ split_on / lines *)

Lemma split_on_nonempty c s : split_on c s <> [].
Proof.
  induction s as [|x s IH]; cbn; [discriminate|].
  destruct (x =? c)%N; [discriminate|]. destruct (split_on c s); [congruence|discriminate].
Qed.

Lemma split_on_no_sep c s : Forall (fun seg => ~ In c seg) (split_on c s).
Proof.
  induction s as [|x s IH]; cbn.
  - constructor; [intros []|constructor].
  - destruct (x =? c)%N eqn:E.
    + constructor; [intros []|exact IH].
    + apply N.eqb_neq in E. destruct (split_on c s) as [|seg segs]; [constructor; [|constructor]|].
      * intros [H|[]]. congruence.
      * inversion IH; subst. constructor; [|assumption]. intros [H|H]; [congruence|auto].
Qed.

Lemma split_on_none c s : ~ In c s -> split_on c s = [s].
Proof.
  induction s as [|x s IH]; [reflexivity|]. intros H. cbn.
  destruct (x =? c)%N eqn:E; [apply N.eqb_eq in E; subst; exfalso; apply H; now left|].
  rewrite IH by (intros H'; apply H; now right). reflexivity.
Qed.

Lemma filter_nonempty_trim_app (a b : list str) :
  filter (fun l => negb (is_nil l)) (a ++ b) =
  filter (fun l => negb (is_nil l)) a ++ filter (fun l => negb (is_nil l)) b.
Proof. apply filter_app. Qed.

(** The repaired printer writes exactly the specification's normalised lines of a comment. *)
Lemma doc_lines_repaired text : doc_lines_of repaired text = doc_norm_text text.
Proof.
  unfold doc_lines_of, doc_norm_text, rust_lines. cbn [fx_doc_blank_line repaired andb].
  pose proof (split_on_nonempty c_nl text) as Hne.
  destruct (exists_last Hne) as (ini & lst & E). rewrite E.
  rewrite removelast_last, last_last, !map_app, !filter_app, map_map.
  f_equal.
  - f_equal. apply map_ext. intros a. apply strip_cr_trim.
  - destruct lst as [|c l]; reflexivity.
Qed.

Lemma doc_norm_text_elems text l :
  In l (doc_norm_text text) -> l <> [] /\ trimmed l /\ ~ In c_nl l.
Proof.
  unfold doc_norm_text. intros H. apply filter_In in H. destruct H as [H Hn].
  apply in_map_iff in H. destruct H as (seg & <- & Hseg). split; [|split].
  - destruct (trim seg); [discriminate|discriminate].
  - apply trim_trimmed.
  - intros Hin. apply In_trim in Hin.
    pose proof (split_on_no_sep c_nl text) as Hf. rewrite Forall_forall in Hf. exact (Hf _ Hseg Hin).
Qed.

(** A printed doc line comes back from the lexer as the same text, and normalises to itself. *)
Lemma doc_of_line_trimmed l : trimmed l -> doc_of_line l = l.
Proof. intros H. unfold doc_of_line. rewrite trim_cons_ws by reflexivity. now apply trim_of_trimmed. Qed.

Lemma doc_norm_text_line l : l <> [] -> trimmed l -> ~ In c_nl l -> doc_norm_text l = [l].
Proof.
  intros Hne Ht Hnl. unfold doc_norm_text. rewrite split_on_none by exact Hnl. cbn [map filter].
  rewrite trim_of_trimmed by exact Ht. destruct l; [congruence|reflexivity].
Qed.

Lemma doc_norm_lines_fix (L : list str) :
  Forall (fun l => l <> [] /\ trimmed l /\ ~ In c_nl l) L ->
  flat_map doc_norm_text (map doc_of_line L) = L.
Proof.
  induction 1 as [|l L (Hne & Ht & Hnl) _ IH]; [reflexivity|].
  cbn [map flat_map]. rewrite IH, doc_of_line_trimmed by exact Ht.
  now rewrite doc_norm_text_line.
Qed.

(** Normalising the docs the lexer reads back from the printed doc lines gives the normalised docs
    of the original. *)
Lemma doc_norm_flat_elems (ts : list str) :
  Forall (fun l => l <> [] /\ trimmed l /\ ~ In c_nl l) (flat_map doc_norm_text ts).
Proof.
  apply Forall_forall. intros l H. apply in_flat_map in H. destruct H as (t & _ & H).
  now apply doc_norm_text_elems in H.
Qed.

(* ------------------------------------------------------------------ slice *)

Lemma utf8_len_pos c : (0 < utf8_len c)%N.
Proof. unfold utf8_len. repeat destruct (_ <? _)%N; lia. Qed.

Lemma drop_bytes_app pre s : drop_bytes (pre ++ s) (byte_len pre) = Some s.
Proof.
  induction pre as [|c pre IH]; cbn [byte_len app drop_bytes].
  - destruct s; reflexivity.
  - pose proof (utf8_len_pos c).
    destruct ((utf8_len c + byte_len pre =? 0)%N) eqn:E; [apply N.eqb_eq in E; lia|].
    destruct ((utf8_len c <=? utf8_len c + byte_len pre)%N) eqn:E2; [|apply N.leb_gt in E2; lia].
    replace (utf8_len c + byte_len pre - utf8_len c)%N with (byte_len pre) by lia. exact IH.
Qed.

Lemma take_bytes_app t s : take_bytes (t ++ s) (byte_len t) = Some t.
Proof.
  induction t as [|c t IH]; cbn [byte_len app take_bytes].
  - destruct s; reflexivity.
  - pose proof (utf8_len_pos c).
    destruct ((utf8_len c + byte_len t =? 0)%N) eqn:E; [apply N.eqb_eq in E; lia|].
    destruct ((utf8_len c <=? utf8_len c + byte_len t)%N) eqn:E2; [|apply N.leb_gt in E2; lia].
    replace (utf8_len c + byte_len t - utf8_len c)%N with (byte_len t) by lia. now rewrite IH.
Qed.

(** The text standing at a span that was computed from the byte lengths of what precedes it. *)
Lemma slice_at pre t post : slice (pre ++ t ++ post) {| off := byte_len pre; slen := byte_len t |} = Some t.
Proof. unfold slice. cbn [off slen]. rewrite drop_bytes_app. apply take_bytes_app. Qed.

Lemma byte_len_app a b : byte_len (a ++ b) = (byte_len a + byte_len b)%N.
Proof. induction a as [|c a IH]; cbn [byte_len app]; [reflexivity|]. rewrite IH. lia. Qed.
