(** C13: the full-strength text-level theorems for the repaired printer: [render_lex] (the printed
    text lexes to exactly the tokens the pieces denote), and hence round trip and idempotence, for
    every parsed document in which no identifier token is spelled like a keyword (the lexer's
    keyword-before-colon artefact, C12 finding [keyword_colon]). *)
From WacV Require Import Str Token Lexer LexTables LexImpl LexerSound Semver Ast Parser Grammar ParserComb ParserProofs ParserTop.
From WacV Require Import Printer PrintSpec PrinterText PrinterProofs PrinterWf PrinterLexFacts PrinterLeaves PrinterLex PrinterAll.
From WacV Require Import PrinterScreen PrinterScan PrinterAdj PrinterRelex.
From Coq Require Import Lia.
Local Open Scope nat_scope.

(** No identifier token of the source is spelled like a keyword. (The lexer returns such a token only
    for a keyword directly followed by a colon: [record: func()].) *)
Definition plain_ident (t : rtoken) : Prop := tk t = TIdent -> lookup_str (ttext t) (keywords impl_cfg) = None.
Definition no_kw_idents (src : str) : Prop :=
  Forall (fun it => match it with LTok t => plain_ident t | _ => True end) (lex impl_cfg src).

Lemma parsed_leaves src doc r :
  parse_document impl_flags impl_cfg src = POk doc r -> Forall (leaf_ok src) (p_document repaired doc).
Proof.
  intros H. apply (parsed_commands src doc r (leaf_ok src) H); try exact I; try (intros; exact I).
  - intros t [Hs [(F & s1 & n & Hsc & Ht & _) _]]. cbn [leaf_ok]. exists (ttext t). split; [exact Hs|]. exists F, s1, n. auto.
  - intros t _. unfold p_docs. apply Forall_forall. intros c Hc. apply in_flat_map in Hc. destruct Hc as (dc & _ & Hc).
    apply in_map_iff in Hc. destruct Hc as (l & <- & _). exact I.
Qed.

Theorem print_toks_scan src doc r ps :
  parse_document impl_flags impl_cfg src = POk doc r ->
  print_pieces repaired src doc = Some ps -> kwcb ps = true -> toks_scan impl_cfg ps.
Proof.
  intros H Hp Hk. unfold print_pieces in Hp.
  eapply relex_cmds; [eapply parsed_leaves; eauto|exact Hp|apply adj_document|exact Hk].
Qed.

(** [render_lex] *)
Theorem render_lex_full src doc r ps :
  parse_document impl_flags impl_cfg src = POk doc r ->
  print_pieces repaired src doc = Some ps -> kwcb ps = true ->
  lex impl_cfg (text_of ps) = items_of_pieces ps.
Proof.
  intros H Hp Hk. apply lex_of_pieces.
  - eapply print_screen; eauto.
  - eapply print_gaps_ok; [eapply parse_wf_impl; eauto|exact Hp].
  - eapply print_toks_scan; eauto.
Qed.

(** The property, at text level. *)
Theorem print_roundtrip_full src doc r ps :
  parse_document impl_flags impl_cfg src = POk doc r ->
  print_pieces repaired src doc = Some ps -> kwcb ps = true ->
  RoundTrip repaired src doc /\ Idempotent repaired src doc.
Proof.
  intros H Hp Hk. pose proof (parse_wf_impl src doc r H) as Hwf.
  apply (roundtrip_of_render_lex src doc ps Hwf Hp). eapply render_lex_full; eauto.
Qed.

(* ------------------------------------------------------------------ when no identifier is spelled like a keyword *)

Definition plain_cmd (src : str) (c : cmd) : Prop :=
  match c with CSrc TIdent sp => forall t, slice src sp = Some t -> kw_text t = false | _ => True end.

Lemma layout_kwcb src cs : Forall (plain_cmd src) cs -> forall ind b ps, layout src ind b cs = Some ps -> kwcb ps = true.
Proof.
  induction 1 as [|c cs Hc _ IH]; intros ind b ps H; cbn [layout] in H; [inversion H; reflexivity|].
  destruct c.
  - destruct (layout src ind b cs) eqn:E; inversion H; subst. destruct k; cbn [kwcb]; eauto.
    assert (Ek : kw_text (fixed_text TIdent) = false) by (vm_compute; reflexivity). rewrite Ek. cbn [negb orb andb]. eauto.
  - destruct (slice src sp) as [t|] eqn:Es; [|discriminate]. destruct (layout src ind b cs) eqn:E; inversion H; subst.
    destruct k; cbn [kwcb]; eauto. cbn [plain_cmd] in Hc. rewrite (Hc t Es). cbn [negb orb andb]. eauto.
  - destruct (layout src ind b cs) eqn:E; inversion H; subst. cbn [kwcb]. eauto.
  - destruct (layout src ind false cs) eqn:E; [|destruct b; discriminate]. destruct b; inversion H; subst; cbn [kwcb]; eauto.
  - destruct b; [eauto|]. destruct (layout src ind true cs) eqn:E; inversion H; subst. cbn [kwcb]. eauto.
  - destruct (layout src ind false cs) eqn:E; inversion H; subst. cbn [kwcb]. eauto.
  - destruct (layout src ind b cs) eqn:E; inversion H; subst. cbn [kwcb]. eauto.
  - eauto.
  - eauto.
Qed.

Theorem no_kw_idents_kwcb src doc r ps :
  parse_document impl_flags impl_cfg src = POk doc r -> no_kw_idents src ->
  print_pieces repaired src doc = Some ps -> kwcb ps = true.
Proof.
  intros H Hnk Hp. unfold print_pieces in Hp. eapply layout_kwcb; [|exact Hp].
  apply parse_document_sound in H. destruct H as [_ H].
  apply (l_document (fun t => lexed src t /\ plain_ident t) (plain_cmd src)) with (ts := lex (cfg_with impl_flags impl_cfg) src);
    try exact I; try (intros; exact I); auto.
  - intros t [[Hs _] Hp']. unfold plain_ident in Hp'. destruct (tk t) eqn:Ek; try exact I. cbn [plain_cmd]. intros t' Ht'.
    rewrite Hs in Ht'. inversion Ht'; subst. unfold kw_text. now rewrite (Hp' eq_refl).
  - intros t _. unfold p_docs. apply Forall_forall. intros c Hc. apply in_flat_map in Hc. destruct Hc as (dc & _ & Hc).
    apply in_map_iff in Hc. destruct Hc as (l & <- & _). exact I.
  - change (cfg_with impl_flags impl_cfg) with impl_cfg. pose proof (lex_lexed src) as H1. unfold no_kw_idents in Hnk.
    unfold Acc2. induction H1 as [|it l Hit _ IH]; [constructor|]. inversion Hnk; subst. constructor; [|auto].
    destruct it; cbn in *; auto.
Qed.
