(** Frame reasoning for the conversion: how the [wac_types] arenas change, and that the tree denotation
    ([Types.unfold]) of a kind is not affected by those changes.

    [agree O t t']: [t'] has everything [t] has -- defined types, function types and module types unchanged,
    resources unchanged up to the [owner] of an alias (which no denotation reads), interfaces and worlds with the
    same items -- EXCEPT for the interface / world slots listed in [O] (the ones under construction), about
    which nothing is said.  [agree []] is the frame condition of every conversion function: it only appends to
    the arenas and changes slots it allocated itself. *)
From Coq Require Import Lia.
From WacV Require Import Str Types CheckerValue CheckerProofs Convert ConvertSpec ConvertProofs.
Set Warnings "-unused-intro-pattern".

Definition slot := (bool * nat)%type.          (* [true]: interface arena, [false]: world arena *)

Record agree (O : list slot) (t t' : types) : Prop := mkagree {
  ag_tag : t_tag t' = t_tag t;
  ag_def : forall i d, nth_error (t_defined t) i = Some d -> nth_error (t_defined t') i = Some d;
  ag_func : forall i d, nth_error (t_funcs t) i = Some d -> nth_error (t_funcs t') i = Some d;
  ag_mod : forall i d, nth_error (t_modules t) i = Some d -> nth_error (t_modules t') i = Some d;
  ag_res : forall i r, nth_error (t_resources t) i = Some r ->
           exists r', nth_error (t_resources t') i = Some r' /\ res_name r' = res_name r /\ res_source r' = res_source r;
  ag_if : forall i x, nth_error (t_interfaces t) i = Some x -> ~ In (true, i) O ->
          exists x', nth_error (t_interfaces t') i = Some x' /\ i_exports x' = i_exports x;
  ag_world : forall i x, nth_error (t_worlds t) i = Some x -> ~ In (false, i) O ->
             exists x', nth_error (t_worlds t') i = Some x' /\ w_imports x' = w_imports x /\ w_exports x' = w_exports x;
  ag_len_if : (length (t_interfaces t) <= length (t_interfaces t'))%nat;
  ag_len_world : (length (t_worlds t) <= length (t_worlds t'))%nat }.

Lemma agree_refl O t : agree O t t.
Proof. constructor; eauto. Qed.

Definition slots_ok (O : list slot) (t : types) : Prop :=
  forall b i, In (b, i) O -> if b : bool then (i < length (t_interfaces t))%nat else (i < length (t_worlds t))%nat.
Lemma slots_ok_agree O O' t t' : agree O' t t' -> slots_ok O t -> slots_ok O t'.
Proof.
  intros A H b i Hin. specialize (H b i Hin). pose proof (ag_len_if _ _ _ A). pose proof (ag_len_world _ _ _ A).
  destruct b; lia.
Qed.

Lemma agree_trans O t1 t2 t3 : agree O t1 t2 -> agree O t2 t3 -> agree O t1 t3.
Proof.
  intros [A1 A2 A3 A4 A5 A6 A7 A8 A9] [B1 B2 B3 B4 B5 B6 B7 B8 B9]. constructor; eauto; try congruence; try lia.
  - intros i r H. destruct (A5 _ _ H) as [r' [H1 [H2 H3]]]. destruct (B5 _ _ H1) as [r'' [H4 [H5 H6]]].
    exists r''. repeat split; congruence.
  - intros i x H Hn. destruct (A6 _ _ H Hn) as [x' [H1 H2]]. destruct (B6 _ _ H1 Hn) as [x'' [H3 H4]].
    exists x''. split; congruence.
  - intros i x H Hn. destruct (A7 _ _ H Hn) as [x' [H1 [H2 H2']]]. destruct (B7 _ _ H1 Hn) as [x'' [H3 [H4 H4']]].
    exists x''. repeat split; congruence.
Qed.

Lemma agree_weaken O O' t t' : (forall s, In s O -> In s O') -> agree O t t' -> agree O' t t'.
Proof. intros Hs [A1 A2 A3 A4 A5 A6 A7 A8 A9]. constructor; eauto. Qed.

Lemma agree_nil O t t' : agree [] t t' -> agree O t t'.
Proof. apply agree_weaken. intros ? []. Qed.

(** ** The arena primitives *)
Lemma agree_add_def t d : agree [] t (snd (add_def t d)).
Proof. constructor; cbn; eauto. intros. now apply nth_error_app_some. Qed.
Lemma agree_add_func t d : agree [] t (snd (add_func t d)).
Proof. constructor; cbn; eauto. intros. now apply nth_error_app_some. Qed.
Lemma agree_add_mod t d : agree [] t (snd (add_mod t d)).
Proof. constructor; cbn; eauto. intros. now apply nth_error_app_some. Qed.
Lemma agree_add_res t d : agree [] t (snd (add_res t d)).
Proof. constructor; cbn; eauto. intros i r H. exists r. split; [now apply nth_error_app_some | auto]. Qed.
Lemma agree_add_if t d : agree [] t (snd (add_if t d)).
Proof. constructor; cbn; eauto; [|rewrite app_length; lia]. intros i x H _. exists x. split; [now apply nth_error_app_some | auto]. Qed.
Lemma agree_add_world t d : agree [] t (snd (add_world t d)).
Proof. constructor; cbn; eauto; [|rewrite app_length; lia]. intros i x H _. exists x. split; [now apply nth_error_app_some | auto]. Qed.

Lemma nth_error_set_nth_eq {A} (l : list A) : forall n x y, nth_error l n = Some y -> nth_error (set_nth n x l) n = Some x.
Proof. induction l as [|a l IH]; intros [|n] x y; cbn; try discriminate; eauto. Qed.
Lemma nth_error_set_nth_neq {A} (l : list A) : forall n m x, n <> m -> nth_error (set_nth n x l) m = nth_error l m.
Proof. induction l as [|a l IH]; intros [|n] [|m] x H; cbn; try reflexivity; try lia. apply IH. lia. Qed.
Lemma set_nth_length {A} (l : list A) : forall n x, length (set_nth n x l) = length l.
Proof. induction l as [|a l IH]; intros [|n] x; cbn; auto. Qed.

Lemma lookup_some {A} tag (l : list A) i x : lookup tag l i = Some x -> id_tag i = tag /\ nth_error l (id_idx i) = Some x.
Proof. unfold lookup. destruct (id_tag i =? tag) eqn:E; [|discriminate]. apply N.eqb_eq in E. auto. Qed.
Lemma lookup_intro {A} tag (l : list A) i x : id_tag i = tag -> nth_error l (id_idx i) = Some x -> lookup tag l i = Some x.
Proof. unfold lookup. intros -> H. now rewrite N.eqb_refl. Qed.

(** an update of an interface slot that keeps its items, or of any slot listed in [O] *)
Lemma agree_upd_if O t i f t' :
  upd_if t i f = Some t' -> (In (true, id_idx i) O \/ forall x, i_exports (f x) = i_exports x) -> agree O t t'.
Proof.
  unfold upd_if. destruct (get_if t i) as [x|] eqn:E; [|discriminate]. intro H. injection H as <-. intro Hc.
  apply lookup_some in E as [_ E]. constructor; cbn; eauto; [|rewrite set_nth_length; lia].
  intros j y Hj Hn. destruct (Nat.eq_dec (id_idx i) j) as [<-|Hne].
  - destruct Hc as [Hc|Hc]; [contradiction|]. exists (f x). rewrite (nth_error_set_nth_eq _ _ _ _ E).
    split; [reflexivity|]. rewrite Hc. congruence.
  - exists y. now rewrite nth_error_set_nth_neq.
Qed.
Lemma agree_upd_world O t i f t' :
  upd_world t i f = Some t' ->
  (In (false, id_idx i) O \/ forall x, w_imports (f x) = w_imports x /\ w_exports (f x) = w_exports x) -> agree O t t'.
Proof.
  unfold upd_world. destruct (get_world t i) as [x|] eqn:E; [|discriminate]. intro H. injection H as <-. intro Hc.
  apply lookup_some in E as [_ E]. constructor; cbn; eauto; [|rewrite set_nth_length; lia].
  intros j y Hj Hn. destruct (Nat.eq_dec (id_idx i) j) as [<-|Hne].
  - destruct Hc as [Hc|Hc]; [contradiction|]. exists (f x). rewrite (nth_error_set_nth_eq _ _ _ _ E).
    split; [reflexivity|]. destruct (Hc x) as [-> ->]. split; congruence.
  - exists y. now rewrite nth_error_set_nth_neq.
Qed.
Lemma agree_upd_res t i f t' :
  upd_res t i f = Some t' ->
  (forall x, get_res t i = Some x -> res_name (f x) = res_name x /\ res_source (f x) = res_source x) -> agree [] t t'.
Proof.
  unfold upd_res. destruct (get_res t i) as [x|] eqn:E; [|discriminate]. intro H. injection H as <-. intro Hc.
  specialize (Hc x eq_refl).
  apply lookup_some in E as [_ E]. constructor; cbn; eauto.
  intros j y Hj. destruct (Nat.eq_dec (id_idx i) j) as [<-|Hne].
  - exists (f x). rewrite (nth_error_set_nth_eq _ _ _ _ E). split; [reflexivity|]. destruct Hc as [-> ->]. split; congruence.
  - exists y. now rewrite nth_error_set_nth_neq.
Qed.

(** ** Lookups through [agree] *)
Section Lookups.
  Variables (O : list slot) (t t' : types).
  Hypothesis A : agree O t t'.

  Lemma agree_get_def i d : get_def t i = Some d -> get_def t' i = Some d.
  Proof. unfold get_def. intro H. apply lookup_some in H as [H1 H2]. apply lookup_intro; [rewrite (ag_tag _ _ _ A); exact H1|]. now apply (ag_def _ _ _ A). Qed.
  Lemma agree_get_func i d : get_func t i = Some d -> get_func t' i = Some d.
  Proof. unfold get_func. intro H. apply lookup_some in H as [H1 H2]. apply lookup_intro; [rewrite (ag_tag _ _ _ A); exact H1|]. now apply (ag_func _ _ _ A). Qed.
  Lemma agree_get_mod i d : get_mod t i = Some d -> get_mod t' i = Some d.
  Proof. unfold get_mod. intro H. apply lookup_some in H as [H1 H2]. apply lookup_intro; [rewrite (ag_tag _ _ _ A); exact H1|]. now apply (ag_mod _ _ _ A). Qed.
  Lemma agree_get_res i r : get_res t i = Some r ->
    exists r', get_res t' i = Some r' /\ res_name r' = res_name r /\ res_source r' = res_source r.
  Proof.
    unfold get_res. intro H. apply lookup_some in H as [H1 H2]. destruct (ag_res _ _ _ A _ _ H2) as [r' [H3 H4]].
    exists r'. split; [|exact H4]. apply lookup_intro; [rewrite (ag_tag _ _ _ A); exact H1 | exact H3].
  Qed.
  Lemma agree_get_if i x : get_if t i = Some x -> ~ In (true, id_idx i) O ->
    exists x', get_if t' i = Some x' /\ i_exports x' = i_exports x.
  Proof.
    unfold get_if. intros H Hn. apply lookup_some in H as [H1 H2]. destruct (ag_if _ _ _ A _ _ H2 Hn) as [x' [H3 H4]].
    exists x'. split; [|exact H4]. apply lookup_intro; [rewrite (ag_tag _ _ _ A); exact H1 | exact H3].
  Qed.
  Lemma agree_get_world i x : get_world t i = Some x -> ~ In (false, id_idx i) O ->
    exists x', get_world t' i = Some x' /\ w_imports x' = w_imports x /\ w_exports x' = w_exports x.
  Proof.
    unfold get_world. intros H Hn. apply lookup_some in H as [H1 H2]. destruct (ag_world _ _ _ A _ _ H2 Hn) as [x' [H3 H4]].
    exists x'. split; [|exact H4]. apply lookup_intro; [rewrite (ag_tag _ _ _ A); exact H1 | exact H3].
  Qed.

  (** ** Denotations through [agree] *)
  Lemma agree_res_name : forall f, ext_some (res_name_of f t) (res_name_of f t').
  Proof.
    induction f as [|f IH]; intros r n; [discriminate|]. cbn [res_name_of].
    destruct (get_res t r) as [x|] eqn:E; [|discriminate]. destruct (agree_get_res _ _ E) as [x' [-> [Hn Hs]]].
    rewrite Hs. destruct (res_source x) as [s|]; [apply IH | congruence].
  Qed.

  Lemma agree_unfold_vt : forall f, ext_some (unfold_vt f t) (unfold_vt f t').
  Proof.
    induction f as [|f IH]; intros v tr; [discriminate|]. rewrite !unfold_vt_eq. intro H.
    apply (unfold_vt_body_ext _ _ _ _ t' v tr IH (agree_res_name (S f))).
    destruct v as [p|r|r|d]; try exact H. cbn [unfold_vt_body] in *.
    destruct (get_def t d) as [x|] eqn:E; [|discriminate]. now rewrite (agree_get_def _ _ E).
  Qed.

  Lemma agree_unfold_func f : ext_some (unfold_func f t) (unfold_func f t').
  Proof.
    intros i ft. unfold unfold_func. destruct (get_func t i) as [x|] eqn:E; [|discriminate]. rewrite (agree_get_func _ _ E).
    destruct (map_snd (unfold_vt f t) (f_params x)) as [ps|] eqn:E1; [|discriminate].
    destruct (omap (unfold_vt f t) (f_result x)) as [r|] eqn:E2; [|discriminate].
    now rewrite (map_snd_ext _ _ _ _ (agree_unfold_vt f) E1), (omap_ext _ _ _ _ (agree_unfold_vt f) E2).
  Qed.
End Lookups.
