(** Lexer classes, part H: the unmodelled zone is exact at a token start -- [scan_token] answers
    "unmodelled" if AND only if the flag [pkg_separator_zone] is set and the remaining input satisfies
    [unmodelled_at] (spec/LexClasses.v). *)
From WacV Require Import Str Ord Token Lexer LexTables LexImpl LexSpec LexTablesProofs Semver Ast Parser LexClasses.
From WacV Require Import LexerSound NoPanicLexer LexerClassA LexerClassB LexerClassC LexerClassD LexerClassE LexerClassF.
From Coq Require Import Lia.
Local Open Scope nat_scope.

Section Zone.
Variable d : deviations.
Variable base : lexcfg.
Hypothesis Htab : tables_ok base.
Notation cfg := (cfg_with d base).
Notation au := (uppercase_words d).

Lemma id_follow_dangling_dash w r : starts_word d r = false -> id_follow d w (c_minus :: r) = true.
Proof.
  intros H. unfold id_follow. cbn [word_stop].
  change (if last_case w false then upper_or_digit c_minus else lower_or_digit c_minus) with (cont_b (last_case w false) c_minus).
  now rewrite cont_b_minus, N.eqb_refl, H.
Qed.

Lemma scan_token_in_zone fuel s :
  length s < fuel -> pkg_separator_zone d = true -> unmodelled_at d s = true -> scan_token cfg fuel s = ScanUnmodelled.
Proof.
  intros Hf Hz Hu. unfold unmodelled_at in Hu. apply existsb_exists in Hu. destruct Hu as (n & Hn & Hu).
  apply in_seq in Hn. set (p := firstn n s) in *. set (r := skipn n s) in *.
  assert (Hs : s = p ++ r) by (symmetry; apply firstn_skipn).
  apply orb_true_iff in Hu. destruct Hu as [Hu|Hu].
  - (* a package name followed by a dangling separator *)
    apply andb_true_iff in Hu. destruct Hu as [Hcore Hd].
    destruct (pkg_core_inv d _ Hcore) as (i & segs & Hp & Hi & Hne & Hids).
    destruct (chain_head c_colon segs Hne) as (rC & HrC).
    assert (Hs' : s = i ++ chain_text c_colon segs ++ r) by (rewrite Hs, Hp, <- app_assoc; reflexivity).
    assert (Hidl : id_len au (i ++ chain_text c_colon segs ++ r) = length i).
    { destruct (id_len_exact d i (chain_text c_colon segs ++ r) Hi) as [_ H]. apply H. rewrite HrC. cbn [app].
      apply id_follow_sep. exact is_sep_colon. }
    rewrite Hs', (scan_token_app d base Htab fuel i _ Hi Hidl). unfold scan_after. rewrite HrC at 1. cbn [app head_is].
    change (c_colon =? c_minus)%N with false. cbn iota.
    destruct r as [|c r']; [discriminate|]. cbn [dangling_sep] in Hd.
    assert (Hstop : no_seg d c_colon (c :: r') = true /\ id_follow d (chain_text c_colon segs) (c :: r') = true /\
                    (head_is c_minus (c :: r') || head_is c_colon (c :: r')) = true).
    { apply orb_true_iff in Hd. destruct Hd as [Hd|Hd]; apply andb_true_iff in Hd; destruct Hd as [Hc Hd];
        apply N.eqb_eq in Hc; subst c; apply negb_true_iff in Hd.
      - repeat split; [now apply id_follow_dangling_dash].
      - repeat split.
        + cbn [no_seg]. now rewrite N.eqb_refl, Hd.
        + apply id_follow_sep. exact is_sep_colon. }
    destruct Hstop as (S1 & S2 & S3).
    destruct (seg_loop_exact d c_colon is_sep_colon segs (c :: r') fuel Hids) as [_ Hex].
    { rewrite Hs', !app_length in Hf. rewrite app_length. lia. }
    rewrite (Hex S1 (fun _ => S2)). destruct (length (chain_text c_colon segs)) as [|m] eqn:El; [rewrite HrC in El; discriminate|].
    rewrite <- El, skipn_app_exact, Hz, S3. reflexivity.
  - (* a keyword prefix followed by a dangling dash *)
    apply andb_true_iff in Hu. destruct Hu as [Hu Hd]. apply andb_true_iff in Hu. destruct Hu as [Hi Hkp].
    destruct r as [|c r']; [discriminate|]. cbn [dangling_dash_at] in Hd. apply andb_true_iff in Hd. destruct Hd as [Hc Hd].
    apply N.eqb_eq in Hc. subst c. apply negb_true_iff in Hd.
    assert (Hidl : id_len au (p ++ c_minus :: r') = length p).
    { destruct (id_len_exact d p (c_minus :: r') Hi) as [_ H]. apply H. now apply id_follow_dangling_dash. }
    rewrite Hs, (scan_token_app d base Htab fuel p _ Hi Hidl). unfold scan_after. cbn [head_is]. rewrite N.eqb_refl, Hz, Hkp. reflexivity.
Qed.

Theorem scan_token_unmodelled_iff fuel s :
  length s < fuel ->
  (scan_token cfg fuel s = ScanUnmodelled <-> pkg_separator_zone d = true /\ unmodelled_at d s = true).
Proof.
  intros Hf. split.
  - now apply scan_token_unmodelled.
  - intros [Hz Hu]. now apply scan_token_in_zone.
Qed.

End Zone.
