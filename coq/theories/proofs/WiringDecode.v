(** Facts about [decode_wiring] alone: a log that decodes has every structural index in scope
    (C02 / C01 [structural_indices_in_scope]); decoding is compositional; type-level items only
    extend the index spaces. *)
From Coq Require Import List Arith Bool NArith Lia.
From WacV Require Import Str Wiring.
Import ListNotations.
Local Open Scope nat_scope.

Lemma sort_eqb_eq a b : sort_eqb a b = true <-> a = b.
Proof.
  destruct a, b; cbn; try (split; [discriminate | congruence]); try tauto.
  rewrite N.eqb_eq. split; congruence.
Qed.
Lemma sort_eqb_refl a : sort_eqb a a = true.
Proof. now apply sort_eqb_eq. Qed.
Lemma sort_eqb_neq a b : sort_eqb a b = false <-> a <> b.
Proof.
  destruct (sort_eqb a b) eqn:E.
  - apply sort_eqb_eq in E. split; [discriminate | congruence].
  - split; auto. intros _ ->. rewrite sort_eqb_refl in E. discriminate.
Qed.
Lemma sort_eqb_sym a b : sort_eqb a b = sort_eqb b a.
Proof.
  destruct (sort_eqb a b) eqn:E.
  - apply sort_eqb_eq in E. subst. now rewrite sort_eqb_refl.
  - symmetry. apply sort_eqb_neq. apply sort_eqb_neq in E. congruence.
Qed.

(** * counting allocations *)
Lemma cnt_app s l1 l2 : cnt s (l1 ++ l2) = cnt s l1 + cnt s l2.
Proof. unfold cnt. now rewrite filter_app, app_length. Qed.
Lemma cnt_nil s : cnt s [] = 0.
Proof. reflexivity. Qed.
Lemma cnt_one s it : cnt s [it] = if sort_eqb (alloc it) s then 1 else 0.
Proof. unfold cnt. cbn. now destruct (sort_eqb (alloc it) s). Qed.
Lemma cnt_snoc s l it : cnt s (l ++ [it]) = cnt s l + (if sort_eqb (alloc it) s then 1 else 0).
Proof. now rewrite cnt_app, cnt_one. Qed.

(** * index spaces *)
Lemma push_same sp s p : push sp s p s = sp s ++ [p].
Proof. unfold push. now rewrite sort_eqb_refl. Qed.
Lemma push_other sp s p s' : s <> s' -> push sp s p s' = sp s'.
Proof. unfold push. intros H. apply sort_eqb_neq in H. now rewrite H. Qed.
Lemma push_length sp s p s' : length (push sp s p s') = length (sp s') + (if sort_eqb s s' then 1 else 0).
Proof. unfold push. destruct (sort_eqb s s'); rewrite ?app_length; cbn; lia. Qed.

Lemma look_push_old sp s p s' i q : look sp s' i = Some q -> look (push sp s p) s' i = Some q.
Proof.
  unfold look, push. intros H. destruct (sort_eqb s s'); auto.
  rewrite nth_error_app1; auto. apply nth_error_Some. congruence.
Qed.
Lemma look_push_new sp s p : look (push sp s p) s (length (sp s)) = Some p.
Proof. unfold look. rewrite push_same, nth_error_app2, Nat.sub_diag; auto. Qed.
Lemma look_lt sp s i q : look sp s i = Some q -> i < length (sp s).
Proof. unfold look. intros H. apply nth_error_Some. congruence. Qed.

(** the spaces of [d'] extend those of [d] *)
Definition sp_ext (sp sp' : sort -> list prov) : Prop := forall s, exists ext, sp' s = sp s ++ ext.
Lemma sp_ext_refl sp : sp_ext sp sp.
Proof. intros s. exists []. now rewrite app_nil_r. Qed.
Lemma sp_ext_trans a b c : sp_ext a b -> sp_ext b c -> sp_ext a c.
Proof. intros H1 H2 s. destruct (H1 s) as [x Hx], (H2 s) as [y Hy]. exists (x ++ y). now rewrite Hy, Hx, app_assoc. Qed.
Lemma sp_ext_push sp s p : sp_ext sp (push sp s p).
Proof. intros s'. unfold push. destruct (sort_eqb s s'); [now exists [p] | exists []; now rewrite app_nil_r]. Qed.
Lemma sp_ext_look sp sp' s i q : sp_ext sp sp' -> look sp s i = Some q -> look sp' s i = Some q.
Proof.
  intros H L. destruct (H s) as [x Hx]. unfold look in *. rewrite Hx, nth_error_app1; auto.
  apply nth_error_Some. congruence.
Qed.

Lemma look_args_ext sp sp' args pa : sp_ext sp sp' -> look_args sp args = Some pa -> look_args sp' args = Some pa.
Proof.
  intros H. revert pa. induction args as [|[[nm s] i] r IH]; cbn; intros pa E; auto.
  destruct (look sp s i) eqn:L; try discriminate. destruct (look_args sp r) eqn:R; try discriminate.
  rewrite (sp_ext_look _ _ _ _ _ H L), (IH _ eq_refl). exact E.
Qed.

(** * one step *)
Lemma dstep_ext d it d' : dstep d it = Some d' -> sp_ext (d_sp d) (d_sp d').
Proof.
  destruct it; cbn; intros E;
    repeat match type of E with
           | context [match ?x with _ => _ end] => destruct x; try discriminate
           end; injection E as <-; cbn; apply sp_ext_push.
Qed.

Lemma dstep_length d it d' s : dstep d it = Some d' ->
  length (d_sp d' s) = length (d_sp d s) + (if sort_eqb (alloc it) s then 1 else 0).
Proof.
  destruct it; cbn; intros E;
    repeat match type of E with
           | context [match ?x with _ => _ end] => destruct x; try discriminate
           end; injection E as <-; cbn; apply push_length.
Qed.

(** * the whole log *)
Lemma decode_from_app d l1 l2 :
  decode_from d (l1 ++ l2) = match decode_from d l1 with Some d1 => decode_from d1 l2 | None => None end.
Proof.
  revert d. induction l1 as [|it r IH]; intros d; cbn; auto.
  destruct (dstep d it); auto.
Qed.

Lemma decode_from_snoc d l it d1 : decode_from d l = Some d1 -> decode_from d (l ++ [it]) = dstep d1 it.
Proof. intros H. rewrite decode_from_app, H. cbn. now destruct (dstep d1 it). Qed.

Lemma decode_from_ext d l d' : decode_from d l = Some d' -> sp_ext (d_sp d) (d_sp d').
Proof.
  revert d. induction l as [|it r IH]; cbn; intros d E.
  - injection E as <-. apply sp_ext_refl.
  - destruct (dstep d it) eqn:S; try discriminate.
    eapply sp_ext_trans; [eapply dstep_ext; eauto | eapply IH; eauto].
Qed.

Lemma decode_from_length d l d' s : decode_from d l = Some d' -> length (d_sp d' s) = length (d_sp d s) + cnt s l.
Proof.
  revert d. induction l as [|it r IH]; intros d E; cbn [decode_from] in E.
  - injection E as <-. unfold cnt. cbn. lia.
  - destruct (dstep d it) eqn:S; try discriminate.
    rewrite (IH _ E), (dstep_length _ _ _ s S). change (it :: r) with ([it] ++ r). rewrite cnt_app, cnt_one. lia.
Qed.

Lemma decode_length l d s : decode_from d_init l = Some d -> length (d_sp d s) = cnt s l.
Proof. intros H. now rewrite (decode_from_length _ _ _ s H). Qed.

(** * scoping *)
Lemma look_args_scope sp l args pa :
  (forall s, length (sp s) = cnt s l) -> look_args sp args = Some pa -> args_in_scope l args = true.
Proof.
  intros HL. revert pa. induction args as [|[[nm s] i] r IH]; cbn; intros pa E; auto.
  destruct (look sp s i) eqn:L; try discriminate. destruct (look_args sp r) eqn:R; try discriminate.
  apply look_lt in L. rewrite HL in L. rewrite (IH _ eq_refl), andb_true_r. now apply Nat.ltb_lt.
Qed.

Lemma dstep_scope d it d' before :
  (forall s, length (d_sp d s) = cnt s before) -> dstep d it = Some d' -> item_in_scope before it = true.
Proof.
  intros HL. destruct it; cbn; intros E; auto.
  - destruct (look (d_sp d) SComponent comp) eqn:L; try discriminate.
    destruct (look_args (d_sp d) args) eqn:A; try discriminate.
    apply look_lt in L. rewrite HL in L. rewrite (look_args_scope _ _ _ _ HL A), andb_true_r. now apply Nat.ltb_lt.
  - destruct (look_args (d_sp d) ex) eqn:A; try discriminate. eapply look_args_scope; eauto.
  - destruct (look (d_sp d) SInstance inst) eqn:L; try discriminate.
    apply look_lt in L. rewrite HL in L. now apply Nat.ltb_lt.
  - destruct (look (d_sp d) s idx) eqn:L; try discriminate.
    apply look_lt in L. rewrite HL in L. now apply Nat.ltb_lt.
Qed.

Lemma decode_from_scoped d l d' before :
  (forall s, length (d_sp d s) = cnt s before) -> decode_from d l = Some d' -> log_in_scope before l = true.
Proof.
  revert d before. induction l as [|it r IH]; cbn; intros d before HL E; auto.
  destruct (dstep d it) eqn:S; try discriminate.
  rewrite (dstep_scope _ _ _ _ HL S). cbn. eapply IH; eauto.
  intros s. rewrite (dstep_length _ _ _ s S), HL, cnt_snoc. reflexivity.
Qed.

(** C02 (a) / C01 [structural_indices_in_scope]: whenever a log decodes, every index used by an
    instantiate / instance-from-exports / alias / export item refers to an EARLIER item that
    allocates in the index space the use names. *)
Theorem decode_scoped names l w : decode_wiring names l = Some w -> log_in_scope [] l = true.
Proof.
  unfold decode_wiring. destruct (decode_from d_init l) eqn:D; try discriminate. intros _.
  eapply decode_from_scoped; eauto. intros s. reflexivity.
Qed.

(** what [log_in_scope] says, item by item *)
Lemma log_in_scope_app before l1 l2 :
  log_in_scope before (l1 ++ l2) = log_in_scope before l1 && log_in_scope (before ++ l1) l2.
Proof.
  revert before. induction l1 as [|it r IH]; intros before; cbn.
  - now rewrite app_nil_r.
  - rewrite IH, <- app_assoc. cbn. now rewrite andb_assoc.
Qed.

Theorem in_scope_spec l pre it post :
  log_in_scope [] l = true -> l = pre ++ it :: post ->
  match it with
  | IInstantiate c args => c < cnt SComponent pre /\ forall nm s i, In (nm, s, i) args -> i < cnt s pre
  | IInstanceFromExports ex => forall nm s i, In (nm, s, i) ex -> i < cnt s pre
  | IAliasExport i _ _ => i < cnt SInstance pre
  | IExport _ s i => i < cnt s pre
  | _ => True
  end.
Proof.
  intros H ->. rewrite log_in_scope_app in H. apply andb_true_iff in H as [_ H]. cbn in H.
  apply andb_true_iff in H as [H _].
  assert (AS : forall args, args_in_scope pre args = true -> forall nm s i, In (nm, s, i) args -> i < cnt s pre).
  { induction args as [|[[n0 s0] i0] r IH]; cbn; intros A nm s i I; [tauto|].
    apply andb_true_iff in A as [A1 A2]. destruct I as [I|I]; [injection I as -> -> ->; now apply Nat.ltb_lt | eauto]. }
  destruct it; cbn in H; auto.
  - apply andb_true_iff in H as [H1 H2]. split; [now apply Nat.ltb_lt | now apply AS].
  - now apply AS.
  - now apply Nat.ltb_lt.
  - now apply Nat.ltb_lt.
Qed.
