(** C13: facts about the C12 lexer model needed to re-lex printed text (own file; the C12 files are
    not touched): screening as a per-character predicate; every token the lexer returns was produced
    by [scan_token] on a suffix of the source with enough fuel, and the characters of its doc comments
    are characters of the source. *)
From WacV Require Import Str Token Lexer LexTables LexImpl Semver Ast Parser Printer PrintSpec PrinterText.
From Coq Require Import Lia.
Local Open Scope nat_scope.

(* ------------------------------------------------------------------ screening *)

Definition okc (cfg : lexcfg) (c : N) : Prop := arm_verdict (arms cfg) c = None.

Lemma screen_from_none a s : forall o, screen_from a o s = None <-> Forall (fun c => arm_verdict a c = None) s.
Proof.
  induction s as [|c s IH]; intros o; cbn [screen_from]; [split; [constructor|reflexivity]|].
  destruct (arm_verdict a c) eqn:E.
  - split; [discriminate|]. intros H. inversion H; subst. congruence.
  - rewrite IH. split; [intros H; constructor; auto|intros H; now inversion H].
Qed.

Lemma screen_none cfg s : screen cfg s = None <-> Forall (okc cfg) s.
Proof. apply screen_from_none. Qed.

(** An accepted document passed screening. *)
Lemma parse_ok_screen d base src doc r : parse_document d base src = POk doc r -> screen (cfg_with d base) src = None.
Proof.
  unfold parse_document, lex. destruct (screen (cfg_with d base) src) as [[e sp]|]; [|reflexivity].
  cbn. discriminate.
Qed.

(* ------------------------------------------------------------------ where tokens come from *)

Section Origin.
Variable cfg : lexcfg.
Variable S : str.   (* the whole source *)

(** The token was cut by [scan_token] out of a text [s1] of source characters, with fuel above the
    length of [s1]; the characters of its doc comments are source characters. *)
Definition tokfact (t : rtoken) : Prop :=
  (exists F s1 n, scan_token cfg F s1 = ScanTok (tk t) n /\ ttext t = firstn n s1 /\ length s1 < F /\ incl s1 S) /\
  Forall (fun dc => incl (fst dc) S) (tdocs t).

Definition itemfact (it : lexitem) : Prop := match it with LTok t => tokfact t | _ => True end.

Lemma incl_skipn {A} n (l : list A) : incl (skipn n l) l.
Proof. intros x H. rewrite <- (firstn_skipn n l). apply in_or_app. now right. Qed.
Lemma incl_firstn {A} n (l : list A) : incl (firstn n l) l.
Proof. intros x H. rewrite <- (firstn_skipn n l). apply in_or_app. now left. Qed.
Lemma length_skipn_le {A} n (l : list A) : length (skipn n l) <= length l.
Proof. rewrite skipn_length. lia. Qed.

Lemma incl_trim s : incl (trim s) s.
Proof. intros x H. now apply In_trim. Qed.

Lemma strip_suffix2_incl a b s x : strip_suffix2 a b s = Some x -> incl x s.
Proof.
  unfold strip_suffix2. destruct (rev s) as [|y [|x0 r0]] eqn:E; try discriminate.
  destruct ((x0 =? a)%N && (y =? b)%N); [|discriminate]. intros H; inversion H; subst.
  intros z Hz. apply in_rev in Hz. apply in_rev. rewrite E. now do 2 right.
Qed.

Lemma doc_of_comment_shape c d :
  doc_of_comment c = Some (Some d) ->
  exists c1 c2 c3 r, c = c1 :: c2 :: c3 :: r /\
    (d = trim r \/ exists b, strip_suffix2 c_star c_slash r = Some b /\ d = trim b).
Proof.
  unfold doc_of_comment. destruct c as [|c1 [|c2 [|c3 r]]].
  1-3: repeat match goal with |- context [match ?x with _ => _ end] => destruct x end; discriminate.
  intros H. exists c1, c2, c3, r. split; [reflexivity|].
  repeat match type of H with context [match ?x with _ => _ end] => destruct x eqn:? end;
    try discriminate H; inversion H; subst; eauto.
Qed.

Lemma doc_of_comment_incl c d : doc_of_comment c = Some (Some d) -> incl d c.
Proof.
  intros H. destruct (doc_of_comment_shape _ _ H) as (c1 & c2 & c3 & r & -> & [->|(b & Hb & ->)]);
    intros x Hx; apply In_trim in Hx; do 3 right; [exact Hx|eapply strip_suffix2_incl; eauto].
Qed.

Lemma push_doc_incl alive docs text o docs' :
  push_doc alive docs text o = Some docs' -> incl text S ->
  Forall (fun dc => incl (fst dc) S) docs -> Forall (fun dc => incl (fst dc) S) docs'.
Proof.
  unfold push_doc. destruct alive; [|intros H; inversion H; auto].
  destruct (doc_of_comment text) as [[d|]|] eqn:E; intros H Ht Hd; inversion H; subst; auto.
  apply Forall_app. split; [exact Hd|]. constructor; [|constructor]. cbn [fst].
  intros x Hx. apply Ht. eapply doc_of_comment_incl; eauto.
Qed.

Lemma skip_gap_facts f : forall o s alive docs o1 s1 docs1,
  skip_gap f o s alive docs = GapOk o1 s1 docs1 -> incl s S ->
  Forall (fun dc => incl (fst dc) S) docs ->
  length s1 <= length s /\ incl s1 S /\ Forall (fun dc => incl (fst dc) S) docs1.
Proof.
  induction f as [|f IH]; intros o s alive docs o1 s1 docs1; cbn [skip_gap]; [discriminate|].
  destruct s as [|c r]; [intros H; inversion H; subst; auto|].
  intros H Hs Hd.
  assert (Hr : incl r S) by (intros x Hx; apply Hs; now right).
  destruct (is_ws c).
  { destruct (IH _ _ _ _ _ _ _ H Hr Hd) as (H1 & H2 & H3). cbn [length]. repeat split; auto; lia. }
  destruct (c =? c_slash)%N; [|inversion H; subst; auto].
  destruct r as [|c2 r2]; [inversion H; subst; auto|].
  assert (Hr2 : incl r2 S) by (intros x Hx; apply Hr; now right).
  destruct (c2 =? c_slash)%N.
  { set (n := run_len (fun x => negb (x =? c_nl)%N) r2) in *.
    destruct (push_doc alive docs (c :: c2 :: firstn n r2) o) as [docs'|] eqn:Ep; [|discriminate H].
    assert (Ht : incl (c :: c2 :: firstn n r2) S).
    { intros x [<-|[<-|Hx]]; [apply Hs; now left|apply Hs; right; now left|apply Hr2; eapply incl_firstn; eauto]. }
    pose proof (push_doc_incl _ _ _ _ _ Ep Ht Hd) as Hd'.
    assert (Hsk : incl (skipn n r2) S) by (intros x Hx; apply Hr2; eapply incl_skipn; eauto).
    destruct (IH _ _ _ _ _ _ _ H Hsk Hd') as (H1 & H2 & H3). pose proof (length_skipn_le n r2). cbn [length].
    repeat split; auto; lia. }
  destruct (c2 =? c_star)%N; [|inversion H; subst; auto].
  destruct (block_comment_length r2) as [n|]; [|discriminate H].
  destruct (push_doc alive docs (firstn n (c :: c2 :: r2)) o) as [docs'|] eqn:Ep; [|discriminate H].
  assert (Ht : incl (firstn n (c :: c2 :: r2)) S) by (intros x Hx; apply Hs; eapply incl_firstn; eauto).
  pose proof (push_doc_incl _ _ _ _ _ Ep Ht Hd) as Hd'.
  assert (Hsk : incl (skipn n (c :: c2 :: r2)) S) by (intros x Hx; apply Hs; eapply incl_skipn; eauto).
  destruct (IH _ _ _ _ _ _ _ H Hsk Hd') as (H1 & H2 & H3). pose proof (length_skipn_le n (c :: c2 :: r2)).
  repeat split; auto; lia.
Qed.

(** [scan_token] never returns an empty token. *)
Lemma scan_token_pos F s k n : scan_token cfg F s = ScanTok k n -> 0 < n.
Proof.
  unfold scan_token. destruct s as [|c r]; [discriminate|].
  destruct (c =? c_quote)%N.
  { destruct (find_char c_quote r); [|discriminate]. intros H; inversion H; lia. }
  destruct (id_len (allow_upper cfg) (c :: r)) as [|n0] eqn:E.
  - destruct (best_symbol (symbols cfg) (c :: r)) as [[k' n']|] eqn:Eb; [|discriminate]. intros H; inversion H; subst.
    clear -Eb. revert k n Eb. generalize (c :: r) as s. induction (symbols cfg) as [|[x t] tbl IH]; intros s k n; cbn [best_symbol]; [discriminate|].
    destruct (starts_with x s && negb (is_nil_str x)) eqn:Ex.
    + apply andb_true_iff in Ex. destruct Ex as [_ Ex]. destruct x; [discriminate Ex|].
      destruct (best_symbol tbl s) as [[t' n']|] eqn:Eb'.
      * destruct (length (n0 :: x) <? n'); intros H; inversion H; subst; [eapply IH; eauto|cbn; lia].
      * intros H; inversion H; cbn; lia.
    + apply IH.
  - repeat match goal with |- context [if ?b then _ else _] => destruct b end;
      try (intros H; inversion H; lia); try discriminate.
    all: destruct (seg_loop F (allow_upper cfg) c_colon (skipn (Datatypes.S n0) (c :: r))) eqn:E2;
      repeat match goal with |- context [if ?b then _ else _] => destruct b end;
      try (intros H; inversion H; lia); try discriminate;
      destruct (seg_loop F (allow_upper cfg) c_slash _); intros H; inversion H; lia.
Qed.

Lemma lex_loop_facts fuel : forall o s, length s < fuel -> incl s S -> Forall itemfact (lex_loop fuel cfg o s).
Proof.
  induction fuel as [|f IH]; intros o s Hl Hs; [lia|]. cbn [lex_loop].
  destruct (skip_gap (Datatypes.S f) o s true []) as [o1 s1 docs| | |] eqn:Eg; try (constructor; [exact I|constructor]).
  destruct (skip_gap_facts _ _ _ _ _ _ _ _ Eg Hs (Forall_nil _)) as (H1 & H2 & H3).
  destruct s1 as [|c1 r1]; [constructor|].
  destruct (scan_token cfg (Datatypes.S f) (c1 :: r1)) as [k n|e n|] eqn:Es; try (constructor; [exact I|constructor]).
  pose proof (scan_token_pos _ _ _ _ Es) as Hn.
  constructor.
  - split; [|exact H3]. exists (Datatypes.S f), (c1 :: r1), n. cbn [tk ttext]. repeat split; auto. lia.
  - apply IH.
    + rewrite skipn_length. cbn [length] in *. lia.
    + intros x Hx. apply H2. eapply incl_skipn; eauto.
Qed.

Lemma lex_facts src : S = src -> Forall itemfact (lex cfg src).
Proof.
  intros E. subst src. unfold lex. destruct (screen cfg S) as [[e sp]|]; [constructor; [exact I|constructor]|].
  apply lex_loop_facts; [lia|apply incl_refl].
Qed.

End Origin.
