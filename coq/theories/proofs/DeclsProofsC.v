(** C05, part C: resources, item declarations, [use], interface bodies. *)
From Coq Require Import String.
From Coq Require Import ZArith ZifyBool ZifyN Lia.
From WacV Require Import Str StrLit Types CheckerEq CheckerValue CheckerProofs Decls WitDenote DeclsProofsA DeclsProofsB.
From WacV Require Ast.
Set Warnings "-unused-intro-pattern".

(** the state of a body against the denotation's body *)
Definition Rloc (l : loc) (b : body) : Prop :=
  Renv (l_types l) (l_cur l) (b_env b) /\ Rexts (l_types l) (l_exts l) (b_items b).

Lemma register_ok sc n x sc' : register sc n x = DOk sc' -> has n sc = false /\ sc' = (n, x) :: sc.
Proof. unfold register. destruct (has n sc); [discriminate|]. intro H. injection H as <-. auto. Qed.

(** * Resources *)
Lemma methods_go_sim : forall ms cur rname r names exts t e items exts' t',
  Renv t cur e -> un t r rname -> Rexts t exts items ->
  methods_go cur rname r names exts t ms = DOk (exts', t') ->
  aext t t' /\ exists fs, all_some (map (den_member e rname) ms) = Some fs /\ Rexts t' exts' (items ++ fs) /\
    (forall k, In k (map member_key ms) -> mem k names = false) /\ distinct (map member_key ms) = true.
Proof.
  induction ms as [|m rest IH]; intros cur rname r names exts t e items exts' t' He Hr Hx H.
  - cbn in H. injection H as <- <-. split; [apply aext_refl|]. exists []. rewrite app_nil_r.
    split; [reflexivity|]. split; [exact Hx|]. split; [intros k []| reflexivity].
  - cbn [methods_go] in H. dinv H as [[[[names1 en] f] t1] [E1 H]].
    destruct (has en exts) eqn:Ehas; [discriminate|].
    assert (Hm : exists ft, mem (member_key m) names = false /\ names1 = member_key m :: names /\ aext t t1 /\
                            den_member e rname m = Some (en, XFunc ft) /\ uf t1 f ft).
    { destruct m as [docs sp ps|docs i is_static fty].
      - destruct (mem [] names) eqn:Em; [discriminate|]. dinv E1 as [[f0 t0] [E0 E1]]. injection E1 as <- <- <- <-.
        destruct (func_type_sim cur t e _ _ FConstructor (Some r) rname f0 t0 He) as [X1 [ft [D1 U1]]]; [|exact E0|].
        { intros r0 Hr0. now injection Hr0 as <-. }
        exists ft. cbn [member_key den_member kmap] in *. rewrite D1. cbn [option_map]. rewrite method_name_member. auto.
      - change (name_of i) with (nm i) in E1. destruct (mem (nm i) names) eqn:Em; [discriminate|].
        dinv E1 as [[f0 t0] [E0 E1]]. injection E1 as <- <- <- <-.
        destruct (func_type_sim cur t e _ _ _ (Some r) rname f0 t0 He) as [X1 [ft [D1 U1]]]; [|exact E0|].
        { intros r0 Hr0. now injection Hr0 as <-. }
        exists ft. cbn [member_key den_member]. cbv zeta. rewrite method_name_member.
        replace (kmap (if is_static then FStatic else FMethod)) with (if is_static then MStatic else MMethod) in * by (destruct is_static; reflexivity).
        rewrite D1. cbn [option_map]. auto. }
    destruct Hm as [ft [Em [-> [X1 [Dm U1]]]]].
    assert (Hx1 : Rexts t1 (exts ++ [(en, KFunc f)]) (items ++ [(en, XFunc ft)])).
    { apply R2_snoc; [eapply Rexts_aext; eassumption | now apply uk_func]. }
    destruct (IH _ _ _ _ _ _ _ _ _ _ (Renv_aext _ _ _ _ X1 He) (un_aext _ _ _ _ X1 Hr) Hx1 H) as [X2 [fs [D2 [U2 [Hk Hd]]]]].
    split; [eapply aext_trans; eassumption|]. exists ((en, XFunc ft) :: fs). cbn [map all_some]. rewrite Dm, D2.
    split; [reflexivity|]. rewrite <- app_assoc in U2. cbn [app] in U2. split; [exact U2|].
    assert (Hk' : forall k, In k (map member_key rest) -> mem k names = false /\ str_eqb k (member_key m) = false).
    { intros k Hin. specialize (Hk k Hin). cbn [mem] in Hk. apply orb_false_iff in Hk. tauto. }
    split.
    + intros k [<-|Hin]; [exact Em | apply (Hk' k Hin)].
    + cbn [distinct]. rewrite Hd, andb_true_r. apply negb_true_iff.
      destruct (existsb (str_eqb (member_key m)) (map member_key rest)) eqn:Ex; [|reflexivity].
      apply existsb_exists in Ex as [k [Hin Heq]]. apply seqb_eq in Heq. subst k.
      destruct (Hk' _ Hin) as [_ Hne]. rewrite seqb_refl in Hne. discriminate.
Qed.

Lemma resource_decl_eq l i ms :
  resource_decl l i ms =
  (do cur1 <- register (l_cur l) (nm i) (TResource (snd (add_resource (l_types l) (mkres (nm i) None)))) ;;
   if has (nm i) (l_exts l) then DPanic 7 else
   do (exts, t2) <- methods_go cur1 (nm i) (snd (add_resource (l_types l) (mkres (nm i) None))) []
                      (l_exts l ++ [(nm i, KType (TResource (snd (add_resource (l_types l) (mkres (nm i) None)))))])
                      (fst (add_resource (l_types l) (mkres (nm i) None))) ms ;;
   DOk (mkloc cur1 (l_uses l) exts t2)).
Proof. reflexivity. Qed.

Lemma fresh_true {A B} (P : A -> B -> Prop) (Q : kind -> tree -> Prop) n (cur : list (str * A)) env exts items :
  R2 P cur env -> R2 Q exts items -> has n cur = false -> has n exts = false -> fresh n (mkbody env items) = true.
Proof.
  intros H1 H2 E1 E2. unfold fresh. cbn [b_env b_items].
  now rewrite <- (R2_has _ _ _ n H1), <- (R2_has _ _ _ n H2), E1, E2.
Qed.

Lemma resource_decl_sim l b docs i ms l' :
  Rloc l b -> resource_decl l i ms = DOk l' ->
  aext (l_types l) (l_types l') /\ exists b', den_decl b (Ast.DResource docs i ms) = Some b' /\ Rloc l' b'.
Proof.
  intros [He Hx] H. rewrite resource_decl_eq in H.
  set (nr := mkres (nm i) None) in *. set (t1 := fst (add_resource (l_types l) nr)) in *.
  set (r := snd (add_resource (l_types l) nr)) in *.
  dinv H as [cur1 [E1 H]]. apply register_ok in E1 as [Eh1 ->].
  destruct (has (nm i) (l_exts l)) eqn:Eh2; [discriminate|]. dinv H as [[exts t2] [E2 H]]. injection H as <-.
  cbn [l_types l_cur l_exts].
  assert (X0 : aext (l_types l) t1) by apply (aext_add_resource (l_types l) nr).
  assert (Hr : un t1 r (nm i)).
  { apply (un_def t1 r nr); [apply get_res_new | reflexivity]. }
  assert (He1 : Renv t1 ((nm i, TResource r) :: l_cur l) ((nm i, SRes (nm i)) :: b_env b)).
  { apply R2_cons; [now constructor | eapply Renv_aext; eassumption]. }
  assert (Hx1 : Rexts t1 (l_exts l ++ [(nm i, KType (TResource r))]) (b_items b ++ [(nm i, XTRes (nm i))])).
  { apply R2_snoc; [eapply Rexts_aext; eassumption | now apply uk_tres]. }
  destruct (methods_go_sim _ _ _ _ _ _ _ _ _ _ _ He1 Hr Hx1 E2) as [X2 [fs [D2 [U2 [_ Hd]]]]].
  split; [eapply aext_trans; eassumption|].
  exists (mkbody ((nm i, SRes (nm i)) :: b_env b) (b_items b ++ (nm i, XTRes (nm i)) :: fs)). split.
  - cbn [den_decl]. cbv zeta. destruct b as [env items]. cbn [b_env b_items] in *.
    rewrite (fresh_true _ _ _ _ _ _ _ He Hx Eh1 Eh2). cbn [negb]. rewrite Hd. cbn [negb]. rewrite D2. reflexivity.
  - split; cbn [l_types l_cur l_exts b_env b_items].
    + eapply Renv_aext; eassumption.
    + rewrite <- app_assoc in U2. exact U2.
Qed.

(** * Item declarations *)
Definition item_plain (l : loc) (d : Ast.item_type_decl) : dres loc :=
  do (x, t1) <- plain_decl (l_cur l) (l_types l) d ;;
  do cur1 <- register (l_cur l) (decl_name d) x ;;
  if has (decl_name d) (l_exts l) then DPanic 8
  else DOk (mkloc cur1 (l_uses l) (l_exts l ++ [(decl_name d, KType x)]) t1).
Definition den_item_plain (b : body) (d : Ast.item_type_decl) : option body :=
  match den_plain (b_env b) d with
  | Some s => if fresh (dname d) b then Some (mkbody ((dname d, s) :: b_env b) (b_items b ++ [(dname d, sem_tree s)]))
              else None
  | None => None
  end.

Lemma item_plain_sim l b d l' :
  Rloc l b -> item_plain l d = DOk l' ->
  aext (l_types l) (l_types l') /\ exists b', den_item_plain b d = Some b' /\ Rloc l' b'.
Proof.
  intros [He Hx] H. unfold item_plain in H. dinv H as [[x t1] [E1 H]]. dinv H as [cur1 [E2 H]].
  apply register_ok in E2 as [Eh1 ->]. destruct (has (decl_name d) (l_exts l)) eqn:Eh2; [discriminate|]. injection H as <-.
  rewrite decl_name_dname in *. cbn [l_types l_cur l_exts].
  destruct (plain_decl_sim _ _ _ _ _ _ He E1) as [X1 [s [D1 U1]]]. split; [exact X1|].
  unfold den_item_plain. rewrite D1. destruct b as [env items]. cbn [b_env b_items] in *.
  rewrite (fresh_true _ _ _ _ _ _ _ He Hx Eh1 Eh2). eexists. split; [reflexivity|].
  split; cbn [l_types l_cur l_exts b_env b_items].
  - apply R2_cons; [exact U1 | eapply Renv_aext; eassumption].
  - apply R2_snoc; [eapply Rexts_aext; eassumption | now apply rel_item_uk].
Qed.

Lemma item_type_decl_sim l b d l' :
  Rloc l b -> item_type_decl l d = DOk l' ->
  aext (l_types l) (l_types l') /\ exists b', den_decl b d = Some b' /\ Rloc l' b'.
Proof.
  intros Hl H. destruct d as [docs id ms|docs id cs|docs id fs|docs id fl|docs id cs|docs id k].
  - eapply resource_decl_sim; eassumption.
  - apply (item_plain_sim l b (Ast.DVariant docs id cs) l' Hl H).
  - apply (item_plain_sim l b (Ast.DRecord docs id fs) l' Hl H).
  - apply (item_plain_sim l b (Ast.DFlags docs id fl) l' Hl H).
  - apply (item_plain_sim l b (Ast.DEnum docs id cs) l' Hl H).
  - apply (item_plain_sim l b (Ast.DAlias docs id k) l' Hl H).
Qed.

(** * [use] *)
Definition use_local (it : Ast.use_item) : str :=
  match Ast.ui_as it with Some a => nm a | None => nm (Ast.ui_id it) end.

Lemma use_items_cons iface l it rest :
  use_items iface l (it :: rest) =
  match get_if (l_types l) iface with
  | None => DPanic 9
  | Some x =>
    match assoc (nm (Ast.ui_id it)) (i_exports x) with
    | None => DErr EUndefinedInterfaceType
    | Some (KType ((TResource _ | TValue _) as y)) =>
      if has (use_local it) (l_exts l) then DErr EUseConflict else
      do cur1 <- register (l_cur l) (use_local it) y ;;
      use_items iface (mkloc cur1
                         (imap_set (use_local it)
                                   (iface, match Ast.ui_as it with Some _ => Some (nm (Ast.ui_id it)) | None => None end) (l_uses l))
                         (imap_set (use_local it) (KType y) (l_exts l)) (l_types l)) rest
    | Some _ => DErr ENotInterfaceValueType
    end
  end.
Proof. reflexivity. Qed.

Lemma use_items_sim iface x src : forall items l b l',
  get_if (l_types l) iface = Some x -> Rexts (l_types l) (i_exports x) src -> Rloc l b ->
  use_items iface l items = DOk l' ->
  l_types l' = l_types l /\ exists b', den_use_items src b items = Some b' /\ Rloc l' b'.
Proof.
  induction items as [|it rest IH]; intros l b l' Hg Hs Hl H.
  - cbn in H. injection H as <-. split; [reflexivity|]. exists b. auto.
  - rewrite use_items_cons in H. rewrite Hg in H.
    destruct (assoc (nm (Ast.ui_id it)) (i_exports x)) as [k|] eqn:Ea; [|discriminate].
    destruct (R2_assoc_some _ _ _ _ _ Hs Ea) as [tr0 [As Hk]].
    destruct Hl as [He Hx].
    assert (Hgen : exists y s, k = KType y /\ used_sem tr0 = Some s /\ rel_item (l_types l) y s /\
              (if has (use_local it) (l_exts l) then DErr EUseConflict else
               do cur1 <- register (l_cur l) (use_local it) y ;;
               use_items iface (mkloc cur1
                         (imap_set (use_local it)
                                   (iface, match Ast.ui_as it with Some _ => Some (nm (Ast.ui_id it)) | None => None end) (l_uses l))
                         (imap_set (use_local it) (KType y) (l_exts l)) (l_types l)) rest) = DOk l').
    { destruct k as [y| | | | |]; try discriminate. destruct y as [r| |v| | |]; try discriminate.
      - destruct (uk_tres_inv _ _ _ Hk) as [n [-> Hn]]. exists (TResource r), (SRes n).
        split; [reflexivity|]. split; [reflexivity|]. split; [now constructor | exact H].
      - destruct (uk_tvalue_inv _ _ _ Hk) as [vt [-> Hv]]. exists (TValue v), (SVal vt).
        split; [reflexivity|]. split; [reflexivity|]. split; [now constructor | exact H]. }
    clear H. destruct Hgen as [y [s [-> [Us [Ry H]]]]].
    destruct (has (use_local it) (l_exts l)) eqn:Eh2; [discriminate|]. dinv H as [cur1 [E1 H]].
    apply register_ok in E1 as [Eh1 ->]. rewrite (imap_set_fresh _ _ _ Eh2) in H.
    destruct b as [env items]. cbn [b_env b_items] in *.
    edestruct (IH _ (mkbody ((use_local it, s) :: env) (items ++ [(use_local it, tr0)])) _ Hg Hs) as [Ht [b' [D1 R1]]]; [|exact H|].
    { split; cbn [l_types l_cur l_exts b_env b_items].
      - apply R2_cons; assumption.
      - apply R2_snoc; assumption. }
    cbn [l_types] in Ht. split; [exact Ht|]. exists b'. split; [|exact R1].
    cbn [den_use_items]. fold (use_local it). rewrite As, Us.
    rewrite (fresh_true _ _ _ _ _ _ _ He Hx Eh1 Eh2). exact D1.
Qed.

Definition use_src_sem (genv penv : env) (p : Ast.use_path) : option sem :=
  match p with
  | Ast.UPPackage pp => assoc (Ast.pp_string pp) penv
  | Ast.UPIdent i => assoc (nm i) genv
  end.

Lemma use_source_sim t root pkgs genv penv p iface :
  Renv t root genv -> Renv t pkgs penv -> use_source root pkgs p = DOk iface ->
  exists x src, use_src_sem genv penv p = Some (SIface (i_id x) src) /\ get_if t iface = Some x /\ Rexts t (i_exports x) src.
Proof.
  intros Hg Hp H. destruct p as [pp|i]; cbn [use_source use_src_sem] in *.
  - destruct (assoc (Ast.pp_string pp) pkgs) as [it|] eqn:Ea; [|discriminate].
    destruct (R2_assoc_some _ _ _ _ _ Hp Ea) as [s [As Hs]].
    destruct it; try discriminate. injection H as <-. inversion Hs as [| | |i0 x e G Hx|]; subst. eauto.
  - dinv H as [it [E1 H]]. apply lookup_in_ok in E1. destruct (R2_assoc_some _ _ _ _ _ Hg E1) as [s [As Hs]].
    destruct it; try discriminate. injection H as <-. inversion Hs as [| | |i0 x e G Hx|]; subst. eauto.
Qed.

Lemma den_use_eq genv penv b u :
  den_use genv penv b u = match use_src_sem genv penv (Ast.u_path u) with
                          | Some (SIface _ src) => den_use_items src b (Ast.u_items u)
                          | _ => None
                          end.
Proof. reflexivity. Qed.

Lemma use_type_sim root pkgs genv penv l b u l' :
  Renv (l_types l) root genv -> Renv (l_types l) pkgs penv -> Rloc l b ->
  use_type root pkgs l u = DOk l' ->
  l_types l' = l_types l /\ exists b', den_use genv penv b u = Some b' /\ Rloc l' b'.
Proof.
  intros Hg Hp Hl H. unfold use_type in H. dinv H as [iface [E1 H]].
  destruct (use_source_sim _ _ _ _ _ _ _ Hg Hp E1) as [x [src [Ds [G Hs]]]].
  rewrite den_use_eq, Ds. eapply use_items_sim; eassumption.
Qed.

(** * Interface bodies *)
Lemma interface_items_sim root pkgs genv penv : forall items l b l',
  Renv (l_types l) root genv -> Renv (l_types l) pkgs penv -> Rloc l b ->
  interface_items root pkgs l items = DOk l' ->
  aext (l_types l) (l_types l') /\ exists b', den_iface_items genv penv b items = Some b' /\ Rloc l' b'.
Proof.
  induction items as [|it rest IH]; intros l b l' Hg Hp Hl H.
  - cbn in H. injection H as <-. split; [apply aext_refl|]. exists b. auto.
  - cbn [interface_items] in H. dinv H as [l1 [E1 H]].
    assert (Hstep : aext (l_types l) (l_types l1) /\ exists b1,
              match it with
              | Ast.IIUse u => den_use genv penv b u
              | Ast.IIType d => den_decl b d
              | Ast.IIExport _ i r =>
                match den_func_ref (b_env b) r with
                | Some f => if bound (nm i) (b_items b) then None
                            else Some (mkbody (b_env b) (b_items b ++ [(nm i, XFunc f)]))
                | None => None
                end
              end = Some b1 /\ Rloc l1 b1).
    { destruct it as [u|d|docs i r].
      - destruct (use_type_sim _ _ _ _ _ _ _ _ Hg Hp Hl E1) as [Ht R1]. rewrite Ht. split; [apply aext_refl | exact R1].
      - eapply item_type_decl_sim; eassumption.
      - destruct Hl as [He Hx]. dinv E1 as [[f t1] [E0 E1]]. change (name_of i) with (nm i) in E1.
        destruct (has (nm i) (l_exts l)) eqn:Eh; [discriminate|]. injection E1 as <-. cbn [l_types].
        destruct (func_type_ref_sim _ _ _ _ _ _ He E0) as [X1 [ft [D1 U1]]]. split; [exact X1|].
        rewrite D1, <- (R2_has _ _ _ (nm i) Hx), Eh. eexists. split; [reflexivity|].
        split; cbn [l_types l_cur l_exts b_env b_items].
        + eapply Renv_aext; eassumption.
        + apply R2_snoc; [eapply Rexts_aext; eassumption | now apply uk_func]. }
    destruct Hstep as [X1 [b1 [D1 R1]]].
    destruct (IH _ _ _ (Renv_aext _ _ _ _ X1 Hg) (Renv_aext _ _ _ _ X1 Hp) R1 H) as [X2 [b' [D2 R2']]].
    split; [eapply aext_trans; eassumption|]. exists b'. split; [|exact R2'].
    cbn [den_iface_items]. rewrite D1. exact D2.
Qed.

Lemma interface_body_sim root pkgs genv penv t idn items i t' :
  Renv t root genv -> Renv t pkgs penv -> interface_body root pkgs t idn items = DOk (i, t') ->
  aext t t' /\ exists e, den_iface genv penv items = Some e /\ rel_item t' (TInterface i) (SIface idn e) /\
                         exists x, get_if t' i = Some x /\ i_id x = idn /\ Rexts t' (i_exports x) e.
Proof.
  intros Hg Hp H. unfold interface_body in H. dinv H as [l [E1 H]].
  destruct (interface_items_sim root pkgs genv penv items (mkloc [] [] [] t) (mkbody [] []) l Hg Hp) as [X1 [b' [D1 [_ Rx]]]];
    [split; apply R2_nil | exact E1 |]. cbn [l_types] in X1.
  set (x := mkif idn (l_uses l) (l_exts l)) in *. unfold add_interface in H. injection H as <- <-.
  assert (X2 : aext (l_types l) (fst (add_interface (l_types l) x))) by apply aext_add_interface.
  split; [eapply aext_trans; eassumption|]. exists (b_items b'). unfold den_iface. rewrite D1. split; [reflexivity|].
  assert (G : get_if (fst (add_interface (l_types l) x)) (snd (add_interface (l_types l) x)) = Some x) by apply get_if_new.
  assert (Rx' : Rexts (fst (add_interface (l_types l) x)) (i_exports x) (b_items b')).
  { eapply Rexts_aext; [exact X2 | exact Rx]. }
  split.
  - apply (RI_if _ _ x _ G Rx').
  - exists x. auto.
Qed.
