(** C05, part C: resources, item declarations, [use], interface bodies. *)
From Coq Require Import String.
From Coq Require Import ZArith ZifyBool ZifyN Lia.
From WacV Require Import Str StrLit Types CheckerEq CheckerValue CheckerProofs Decls WitDenote DeclsProofsA DeclsProofsB DeclsProofsF.
From WacV Require Ast.
Set Warnings "-unused-intro-pattern".

(** the state of a body against the denotation's body *)
Definition Rloc (l : loc) (b : body) : Prop :=
  Renv (l_types l) (l_cur l) (b_env b) /\ Rexts (l_types l) (l_exts l) (b_items b).

(** * Resources *)
Lemma methods_go_sim : forall ms cur rname r names exts t e items exts' t',
  Renv t cur e -> un t r rname -> Rexts t exts items ->
  methods_go cur rname r names exts t ms = DOk (exts', t') ->
  aext t t' /\ exists fs, all_some (map (den_member e rname) ms) = Some fs /\ Rexts t' exts' (items ++ fs) /\
    (forall k, In k (map member_key ms) -> mem k names = false) /\ distinct (map member_key ms) = true.
Proof.
  induction ms as [|m rest IH]; intros cur rname r names exts t e items exts' t' He Hr Hx H.
  - cbn in H. injection H as <- <-. split; [apply aext_refl|]. exists []. rewrite app_nil_r.
    split; [reflexivity|]. split; [exact Hx|]. split; [intros k []| reflexivity].
  - cbn [methods_go] in H. dinv H as [[[[names1 en] f] t1] [E1 H]].
    destruct (has en exts) eqn:Ehas; [discriminate|].
    assert (Hm : exists ft, mem (member_key m) names = false /\ names1 = member_key m :: names /\ aext t t1 /\
                            den_member e rname m = Some (en, XFunc ft) /\ uf t1 f ft).
    { destruct m as [docs sp ps|docs i is_static fty].
      - destruct (mem [] names) eqn:Em; [discriminate|]. dinv E1 as [[f0 t0] [E0 E1]]. injection E1 as <- <- <- <-.
        destruct (func_type_sim cur t e ps Ast.RLEmpty FConstructor (Some r) rname f0 t0 He) as [X1 [ft [D1 U1]]]; [|exact E0|].
        { intros r0 Hr0. now injection Hr0 as <-. }
        exists ft. cbn [member_key den_member kmap] in *. rewrite D1. cbn [option_map].
        split; [exact Em|]. split; [reflexivity|]. split; [exact X1|]. split; [reflexivity | exact U1].
      - change (name_of i) with (nm i) in E1. destruct (mem (nm i) names) eqn:Em; [discriminate|].
        dinv E1 as [[f0 t0] [E0 E1]]. injection E1 as <- <- <- <-.
        destruct (func_type_sim cur t e (Ast.ft_params fty) (Ast.ft_results fty) (if is_static then FStatic else FMethod) (Some r) rname f0 t0 He) as [X1 [ft [D1 U1]]]; [|exact E0|].
        { intros r0 Hr0. now injection Hr0 as <-. }
        exists ft. cbn [member_key den_member]. cbv zeta.
        replace (kmap (if is_static then FStatic else FMethod)) with (if is_static then MStatic else MMethod) in * by (destruct is_static; reflexivity).
        rewrite D1. cbn [option_map].
        split; [exact Em|]. split; [reflexivity|]. split; [exact X1|]. split; [destruct is_static; reflexivity | exact U1]. }
    destruct Hm as [ft [Em [-> [X1 [Dm U1]]]]].
    assert (Hx1 : Rexts t1 (exts ++ [(en, KFunc f)]) (items ++ [(en, XFunc ft)])).
    { apply R2_snoc; [eapply Rexts_aext; eassumption | now apply uk_func]. }
    destruct (IH _ _ _ _ _ _ _ _ _ _ (Renv_aext _ _ _ _ X1 He) (un_aext _ _ _ _ X1 Hr) Hx1 H) as [X2 [fs [D2 [U2 [Hk Hd]]]]].
    split; [eapply aext_trans; eassumption|]. exists ((en, XFunc ft) :: fs). cbn [map all_some]. rewrite Dm, D2.
    split; [reflexivity|]. rewrite <- app_assoc in U2. cbn [app] in U2. split; [exact U2|].
    assert (Hk' : forall k, In k (map member_key rest) -> mem k names = false /\ str_eqb k (member_key m) = false).
    { intros k Hin. specialize (Hk k Hin). cbn [mem] in Hk. apply orb_false_iff in Hk. tauto. }
    split.
    + intros k [<-|Hin]; [exact Em | apply (Hk' k Hin)].
    + cbn [distinct]. rewrite Hd, andb_true_r. apply negb_true_iff.
      destruct (existsb (str_eqb (member_key m)) (map member_key rest)) eqn:Ex; [|reflexivity].
      apply existsb_exists in Ex as [k [Hin Heq]]. apply seqb_eq in Heq. subst k.
      destruct (Hk' _ Hin) as [_ Hne]. rewrite seqb_refl in Hne. discriminate.
Qed.

Lemma fresh_true {A} (P : A -> sem -> Prop) (Q : kind -> tree -> Prop) n (cur : list (str * A)) env exts items :
  R2 P cur env -> R2 Q exts items -> has n cur = false -> has n exts = false -> fresh n (mkbody env items) = true.
Proof.
  intros H1 H2 E1 E2. unfold fresh. cbn [b_env b_items].
  now rewrite <- (R2_has _ _ _ n H1), <- (R2_has _ _ _ n H2), E1, E2.
Qed.

Lemma resource_decl_sim dup l b docs i ms l' :
  Rloc l b -> resource_decl dup l i ms = DOk l' ->
  aext (l_types l) (l_types l') /\ exists b', den_decl b (Ast.DResource docs i ms) = Some b' /\ Rloc l' b'.
Proof.
  intros [He Hx] H. rewrite resource_decl_eq in H.
  set (nr := mkres (nm i) None) in *. set (t1 := fst (add_resource (l_types l) nr)) in *.
  set (r := snd (add_resource (l_types l) nr)) in *.
  dinv H as [cur1 [E1 H]]. apply register_ok in E1 as [Eh1 ->].
  destruct (has (nm i) (l_exts l)) eqn:Eh2; [discriminate|]. dinv H as [[exts t2] [E2 H]]. injection H as <-.
  cbn [l_types l_cur l_exts].
  assert (X0 : aext (l_types l) t1) by apply (aext_add_resource (l_types l) nr).
  assert (Hr : un t1 r (nm i)).
  { apply (un_def t1 r nr); [apply get_res_new | reflexivity]. }
  assert (He1 : Renv t1 ((nm i, TResource r) :: l_cur l) ((nm i, SRes (nm i)) :: b_env b)).
  { apply R2_cons; [now constructor | eapply Renv_aext; eassumption]. }
  assert (Hx1 : Rexts t1 (l_exts l ++ [(nm i, KType (TResource r))]) (b_items b ++ [(nm i, XTRes (nm i))])).
  { apply R2_snoc; [eapply Rexts_aext; eassumption | now apply uk_tres]. }
  destruct (methods_go_sim _ _ _ _ _ _ _ _ _ _ _ He1 Hr Hx1 E2) as [X2 [fs [D2 [U2 [_ Hd]]]]].
  split; [eapply aext_trans; eassumption|].
  exists (mkbody ((nm i, SRes (nm i)) :: b_env b) (b_items b ++ (nm i, XTRes (nm i)) :: fs)). split.
  - cbn [den_decl]. cbv zeta. destruct b as [env items]. cbn [b_env b_items] in *.
    rewrite (fresh_true _ _ _ _ _ _ _ He Hx Eh1 Eh2). cbn [negb]. rewrite Hd. cbn [negb]. rewrite D2. reflexivity.
  - split; cbn [l_types l_cur l_exts b_env b_items].
    + eapply Renv_aext; eassumption.
    + rewrite <- app_assoc in U2. exact U2.
Qed.

(** * Item declarations *)
Definition den_item_plain (b : body) (d : Ast.item_type_decl) : option body :=
  match den_plain (b_env b) d with
  | Some s => if fresh (dname d) b then Some (mkbody ((dname d, s) :: b_env b) (b_items b ++ [(dname d, sem_tree s)]))
              else None
  | None => None
  end.

Lemma item_plain_sim dup l b d l' :
  Rloc l b -> item_plain dup l d = DOk l' ->
  aext (l_types l) (l_types l') /\ exists b', den_item_plain b d = Some b' /\ Rloc l' b'.
Proof.
  intros [He Hx] H. unfold item_plain in H. dinv H as [[x t1] [E1 H]]. dinv H as [cur1 [E2 H]].
  apply register_ok in E2 as [Eh1 ->]. destruct (has (decl_name d) (l_exts l)) eqn:Eh2; [discriminate|]. injection H as <-.
  rewrite decl_name_dname in *. cbn [l_types l_cur l_exts].
  destruct (plain_decl_sim _ _ _ _ _ _ He E1) as [X1 [s [D1 U1]]]. split; [exact X1|].
  unfold den_item_plain. rewrite D1. destruct b as [env items]. cbn [b_env b_items] in *.
  rewrite (fresh_true _ _ _ _ _ _ _ He Hx Eh1 Eh2). eexists. split; [reflexivity|].
  split; cbn [l_types l_cur l_exts b_env b_items].
  - apply R2_cons; [exact U1 | eapply Renv_aext; eassumption].
  - apply R2_snoc; [eapply Rexts_aext; eassumption | now apply rel_item_uk].
Qed.

Lemma item_type_decl_sim dup l b d l' :
  Rloc l b -> item_type_decl dup l d = DOk l' ->
  aext (l_types l) (l_types l') /\ exists b', den_decl b d = Some b' /\ Rloc l' b'.
Proof.
  intros Hl H. destruct d as [docs id ms|docs id cs|docs id fs|docs id fl|docs id cs|docs id k].
  - eapply resource_decl_sim; eassumption.
  - apply (item_plain_sim dup l b (Ast.DVariant docs id cs) l' Hl H).
  - apply (item_plain_sim dup l b (Ast.DRecord docs id fs) l' Hl H).
  - apply (item_plain_sim dup l b (Ast.DFlags docs id fl) l' Hl H).
  - apply (item_plain_sim dup l b (Ast.DEnum docs id cs) l' Hl H).
  - apply (item_plain_sim dup l b (Ast.DAlias docs id k) l' Hl H).
Qed.

(** * [use] *)
Lemma use_items_sim iface x src : forall items l b l',
  get_if (l_types l) iface = Some x -> Rexts (l_types l) (i_exports x) src -> Rloc l b ->
  use_items iface l items = DOk l' ->
  l_types l' = l_types l /\ exists b', den_use_items src b items = Some b' /\ Rloc l' b'.
Proof.
  induction items as [|it rest IH]; intros l b l' Hg Hs Hl H.
  - cbn in H. injection H as <-. split; [reflexivity|]. exists b. auto.
  - destruct (use_items_step _ _ _ _ _ _ Hg H) as [y [Ea [Hu [Eh2 [Eh1 H1]]]]].
    destruct (R2_assoc_some _ _ _ _ _ Hs Ea) as [tr0 [As Hk]]. destruct Hl as [He Hx].
    assert (Hsem : exists s, used_sem tr0 = Some s /\ rel_item (l_types l) y s).
    { destruct Hu as [[r ->]|[v ->]].
      - destruct (uk_tres_inv _ _ _ Hk) as [n [-> Hn]]. exists (SRes n). split; [reflexivity | now constructor].
      - destruct (uk_tvalue_inv _ _ _ Hk) as [vt [-> Hv]]. exists (SVal vt). split; [reflexivity | now constructor]. }
    destruct Hsem as [s [Us Ry]]. destruct b as [env items]. cbn [b_env b_items] in *.
    assert (R0 : Rloc (mkloc ((use_local it, y) :: l_cur l) (imap_set (use_local it) (use_rec iface it) (l_uses l))
                             (l_exts l ++ [(use_local it, KType y)]) (l_types l))
                      (mkbody ((use_local it, s) :: env) (items ++ [(use_local it, tr0)]))).
    { split; cbn [l_types l_cur l_exts b_env b_items].
      - apply R2_cons; assumption.
      - apply R2_snoc; assumption. }
    pose proof (fun hg hs => IH _ _ _ hg hs R0 H1) as IH1. destruct (IH1 Hg Hs) as [Ht [b' [D1 R1]]].
    cbn [l_types] in Ht. split; [exact Ht|]. exists b'. split; [|exact R1].
    cbn [den_use_items]. fold (use_local it). rewrite As, Us.
    rewrite (fresh_true _ _ _ _ _ _ _ He Hx Eh1 Eh2). exact D1.
Qed.

(** * Package paths *)
Definition Rpk (t : types) (pkgs : pkgtab) (penv : penv_t) : Prop :=
  pk_own pkgs = pe_own penv /\ Renv t (pk_ext pkgs) (pe_ext penv).
Lemma Rpk_aext t t' pkgs penv : aext t t' -> Rpk t pkgs penv -> Rpk t' pkgs penv.
Proof. intros Hx [H1 H2]. split; [exact H1 | eapply Renv_aext; eassumption]. Qed.

(** a path that names an interface or a world (or a component) is a one-segment local path or an external one,
    and denotes the related item *)
Lemma path_item_sim t root pkgs genv penv pp k :
  flat t -> Renv t root genv -> Rpk t pkgs penv -> path_item root pkgs t pp = DOk k -> leafk k = false ->
  exists x s, k = KType x /\ den_path genv penv pp = Some s /\ rel_item t x s.
Proof.
  intros Hf Hg [Ho Hp] H Hl. unfold den_path. rewrite <- Ho.
  destruct (path_item_cases _ _ _ _ _ Hf H) as [[Eo [Hn [x [Ea ->]]]]|[[Eo Hk]|[Eo [x [Ea ->]]]]].
  - rewrite Eo, Hn. destruct (R2_assoc_some _ _ _ _ _ Hg Ea) as [s [As Hs]]. eauto.
  - congruence.
  - rewrite Eo. destruct (R2_assoc_some _ _ _ _ _ Hp Ea) as [s [As Hs]]. eauto.
Qed.

Definition use_src_sem (genv : env) (penv : penv_t) (p : Ast.use_path) : option sem :=
  match p with
  | Ast.UPPackage pp => den_path genv penv pp
  | Ast.UPIdent i => assoc (nm i) genv
  end.

Lemma use_source_sim t root pkgs genv penv p iface :
  flat t -> Renv t root genv -> Rpk t pkgs penv -> use_source root pkgs t p = DOk iface ->
  exists x src, use_src_sem genv penv p = Some (SIface (i_id x) src) /\ get_if t iface = Some x /\ Rexts t (i_exports x) src.
Proof.
  intros Hf Hg Hp H. destruct p as [pp|i]; cbn [use_source use_src_sem] in *.
  - dinv H as [k [E1 H]]. destruct k as [[r|f|v|i|w|m]|f|i|w|m|v]; try discriminate. injection H as <-.
    destruct (path_item_sim _ _ _ _ _ _ _ Hf Hg Hp E1 eq_refl) as [x [s [Ek [Ds Hs]]]]. injection Ek as <-.
    inversion Hs as [| | |ii xx ee G Hx|]; subst. eauto.
  - dinv H as [it [E1 H]]. apply lookup_in_ok in E1. destruct (R2_assoc_some _ _ _ _ _ Hg E1) as [s [As Hs]].
    destruct it; try discriminate. injection H as <-. inversion Hs as [| | |ii xx ee G Hx|]; subst. eauto.
Qed.

Lemma den_use_eq genv penv b u :
  den_use genv penv b u = match use_src_sem genv penv (Ast.u_path u) with
                          | Some (SIface _ src) => den_use_items src b (Ast.u_items u)
                          | _ => None
                          end.
Proof. reflexivity. Qed.

Lemma use_type_sim root pkgs genv penv l b u l' :
  flat (l_types l) -> Renv (l_types l) root genv -> Rpk (l_types l) pkgs penv -> Rloc l b ->
  use_type root pkgs l u = DOk l' ->
  l_types l' = l_types l /\ exists b', den_use genv penv b u = Some b' /\ Rloc l' b'.
Proof.
  intros Hf Hg Hp Hl H. unfold use_type in H. dinv H as [iface [E1 H]].
  destruct (use_source_sim _ _ _ _ _ _ _ Hf Hg Hp E1) as [x [src [Ds [G Hs]]]].
  rewrite den_use_eq, Ds. eapply use_items_sim; eassumption.
Qed.

(** * Interface bodies *)
Lemma interface_items_sim root pkgs genv penv : forall items l b l',
  flat (l_types l) -> Renv (l_types l) root genv -> Rpk (l_types l) pkgs penv -> Rloc l b ->
  interface_items root pkgs l items = DOk l' ->
  aext (l_types l) (l_types l') /\ exists b', den_iface_items genv penv b items = Some b' /\ Rloc l' b'.
Proof.
  induction items as [|it rest IH]; intros l b l' Hf Hg Hp Hl H.
  - cbn in H. injection H as <-. split; [apply aext_refl|]. exists b. auto.
  - cbn [interface_items] in H. dinv H as [l1 [E1 H]].
    assert (Hstep : frame (l_types l) (l_types l1) /\ exists b1,
              match it with
              | Ast.IIUse u => den_use genv penv b u
              | Ast.IIType d => den_decl b d
              | Ast.IIExport _ i r =>
                match den_func_ref (b_env b) r with
                | Some f => if bound (nm i) (b_items b) then None
                            else Some (mkbody (b_env b) (b_items b ++ [(nm i, XFunc f)]))
                | None => None
                end
              end = Some b1 /\ Rloc l1 b1).
    { destruct it as [u|d|docs i r].
      - destruct (use_type_sim _ _ _ _ _ _ _ _ Hf Hg Hp Hl E1) as [Ht R1]. rewrite Ht. split; [apply frame_refl | exact R1].
      - split; [apply (item_type_decl_frame _ _ _ _ E1) | apply (item_type_decl_sim _ _ _ _ _ Hl E1)].
      - destruct Hl as [He Hx]. dinv E1 as [[f t1] [E0 E1]]. change (name_of i) with (nm i) in E1.
        destruct (has (nm i) (l_exts l)) eqn:Eh; [discriminate|]. injection E1 as <-. cbn [l_types].
        destruct (func_type_ref_sim _ _ _ _ _ _ He E0) as [X1 [ft [D1 U1]]]. split; [eapply func_type_ref_frame; exact E0|].
        rewrite D1, <- (R2_has _ _ _ (nm i) Hx), Eh. eexists. split; [reflexivity|].
        split; cbn [l_types l_cur l_exts b_env b_items].
        + eapply Renv_aext; eassumption.
        + apply R2_snoc; [eapply Rexts_aext; eassumption | now apply uk_func]. }
    destruct Hstep as [F1 [b1 [D1 R1]]]. pose proof (frame_aext _ _ F1) as X1.
    destruct (IH _ _ _ (flat_frame _ _ F1 Hf) (Renv_aext _ _ _ _ X1 Hg) (Rpk_aext _ _ _ _ X1 Hp) R1 H) as [X2 [b' [D2 R2']]].
    split; [eapply aext_trans; eassumption|]. exists b'. split; [|exact R2'].
    cbn [den_iface_items]. rewrite D1. exact D2.
Qed.

Lemma interface_body_sim root pkgs genv penv t idn items i t' :
  flat t -> Renv t root genv -> Rpk t pkgs penv -> interface_body root pkgs t idn items = DOk (i, t') ->
  aext t t' /\ exists e, den_iface genv penv items = Some e /\ rel_item t' (TInterface i) (SIface idn e) /\
                         exists x, get_if t' i = Some x /\ i_id x = idn /\ Rexts t' (i_exports x) e.
Proof.
  intros Hf Hg Hp H. unfold interface_body in H. dinv H as [l [E1 H]].
  destruct (interface_items_sim root pkgs genv penv items (mkloc [] [] [] t) (mkbody [] []) l Hf Hg Hp) as [X1 [b' [D1 [_ Rx]]]];
    [split; apply R2_nil | exact E1 |]. cbn [l_types] in X1.
  set (x := mkif idn (l_uses l) (l_exts l)) in *. unfold add_interface in H. injection H as <- <-.
  assert (X2 : aext (l_types l) (fst (add_interface (l_types l) x))) by apply aext_add_interface.
  split; [eapply aext_trans; eassumption|]. exists (b_items b'). unfold den_iface. rewrite D1. split; [reflexivity|].
  assert (G : get_if (fst (add_interface (l_types l) x)) (snd (add_interface (l_types l) x)) = Some x) by apply get_if_new.
  assert (Rx' : Rexts (fst (add_interface (l_types l) x)) (i_exports x) (b_items b')).
  { eapply Rexts_aext; [exact X2 | exact Rx]. }
  split.
  - apply (RI_if _ _ x _ G Rx').
  - exists x. auto.
Qed.
