(** C13: a property of single commands that holds of all fixed commands, of the [source(span)] copies
    of well-formed leaves and of the doc lines the repaired printer writes, holds of every command the
    printer issues for a well-formed tree. Instances: the printer does not panic ([print_no_panic]);
    the blanks and doc lines it writes are what the lexer skips ([render_lex], gap part). *)
From WacV Require Import Str Token Lexer LexTables LexImpl Semver Ast Parser Printer PrintSpec PrinterText PrinterProofs PrinterLex.
From Coq Require Import Lia.
Local Open Scope nat_scope.

Section AllCmds.
Variable src : str.
Variable P : cmd -> Prop.
Let fx := repaired.
Hypothesis Ptok : forall k, P (CTok k).
Hypothesis Psp : P CSp.
Hypothesis Pindent : P CIndent.
Hypothesis Pnewline : P CNewline.
Hypothesis Prawnl : P CRawNl.
Hypothesis Pinc : P CInc.
Hypothesis Pdec : P CDec.
Hypothesis Pdoc : forall l, l <> [] -> trimmed l -> ~ In c_nl l -> P (CDoc l).
Hypothesis Psrc : forall k sp t, slice src sp = Some t -> P (CSrc k sp).

Ltac fa_ext := fail.
Ltac fa :=
  repeat first [ apply Forall_nil | assumption | fa_ext
               | match goal with |- Forall _ (_ ++ _) => apply Forall_app; split end
               | match goal with |- Forall _ (_ :: _) =>
                   apply Forall_cons; [first [apply Ptok | exact Psp | exact Pindent | exact Pnewline | exact Prawnl
                                             | exact Pinc | exact Pdec | idtac] |] end ].

Lemma all_id k i : wf_ident src i -> P (CSrc k (id_span i)).
Proof. intros (t & H & _). eapply Psrc; eauto. Qed.
Lemma all_str k s : wf_strlit src s -> P (CSrc k (s_span s)).
Proof. intros (t & H & _). eapply Psrc; eauto. Qed.
Lemma all_pn k p : wf_package_name src p -> P (CSrc k (pn_span p)).
Proof. intros (t & H & _). eapply Psrc; eauto. Qed.
Lemma all_pp k p : wf_package_path src p -> P (CSrc k (pp_span p)).
Proof. intros (t & H & _). eapply Psrc; eauto. Qed.
Ltac fa_ext ::= first [ solve [apply all_id; assumption] | solve [apply all_str; assumption] | solve [apply all_pn; assumption] | solve [apply all_pp; assumption] ].

Lemma all_docs ds : Forall P (p_docs fx ds).
Proof.
  unfold p_docs. induction ds as [|dc ds IH]; cbn [flat_map]; [constructor|]. apply Forall_app. split; [|exact IH].
  unfold fx. rewrite doc_lines_repaired.
  assert (H : Forall (fun l => l <> [] /\ trimmed l /\ ~ In c_nl l) (doc_norm_text (fst dc))).
  { apply Forall_forall. intros l Hl. now apply doc_norm_text_elems in Hl. }
  induction H as [|l L (H1 & H2 & H3) _ IHL]; cbn [map]; constructor; auto.
Qed.
Ltac fa_ext ::= first [ solve [apply all_id; assumption] | solve [apply all_str; assumption] | solve [apply all_pn; assumption] | solve [apply all_pp; assumption] | apply all_docs ].

Lemma all_comma_sep {A} (pr : A -> list cmd) l : Forall (fun x => Forall P (pr x)) l -> forall b, Forall P (comma_sep pr b l).
Proof. induction 1 as [|x l Hx _ IH]; intros b; cbn [comma_sep]; [constructor|]. destruct b; fa; apply IH. Qed.

Lemma all_comma_lines {A} (pr : A -> list cmd) l : Forall (fun x => Forall P (pr x)) l -> Forall P (comma_lines pr l).
Proof. unfold comma_lines. induction 1 as [|x l Hx _ IH]; cbn [flat_map]; fa. Qed.

Lemma all_spaced {A} (pr : A -> list cmd) l : Forall (fun x => Forall P (pr x)) l -> forall b, Forall P (spaced pr b l).
Proof. induction 1 as [|x l Hx _ IH]; intros b; cbn [spaced]; [constructor|]. destruct b; fa; apply IH. Qed.

Lemma All_Forall' {A} (Q R : A -> Prop) l : (forall x, Q x -> R x) -> All Q l -> Forall R l.
Proof. intros HQR. induction l as [|x l IH]; cbn; [constructor|]. intros [H1 H2]. constructor; auto. Qed.

Lemma all_ty t : wf_ty src t -> Forall P (p_ty t).
Proof.
  induction t as [p sp|tys sp IH|t sp IH|t sp IH|ok err sp IHok IHerr|i sp|t sp IH|i] using PrinterProofs.ty_ind'; intros Hwf.
  - cbn [p_ty]. fa.
  - destruct Hwf as [_ Hall]. rewrite PrinterProofs.p_ty_tuple. fa. apply all_comma_sep.
    induction IH as [|x l Hx _ IHl]; [constructor|]. destruct Hall as [H1 H2]. constructor; auto.
  - cbn [p_ty]. fa. now apply IH.
  - cbn [p_ty]. fa. now apply IH.
  - destruct Hwf as [H1 H2]. destruct ok, err; cbn [p_ty PrinterProofs.optP] in *; fa; auto.
  - cbn [wf_ty] in Hwf. cbn [p_ty src_id]. fa.
  - destruct Hwf.
  - cbn [wf_ty] in Hwf. cbn [p_ty src_id]. fa.
Qed.
Ltac fa_ext ::= first [ solve [apply all_id; assumption] | solve [apply all_str; assumption] | solve [apply all_pn; assumption] | solve [apply all_pp; assumption] | apply all_docs | solve [apply all_ty; assumption] ].

Lemma all_named_type n : wf_named_type src n -> Forall P (p_named_type n).
Proof. intros [H1 H2]. unfold p_named_type, src_id. fa. Qed.

Lemma all_named_types l : All (wf_named_type src) l -> Forall P (p_named_types l).
Proof. intros H. apply all_comma_sep. eapply All_Forall'; [|exact H]. apply all_named_type. Qed.
Ltac fa_ext ::= first [ solve [apply all_id; assumption] | solve [apply all_str; assumption] | solve [apply all_pn; assumption] | solve [apply all_pp; assumption] | apply all_docs | solve [apply all_ty; assumption] | solve [apply all_named_type; assumption] | solve [apply all_named_types; assumption] ].

Lemma all_func_type f : wf_func_type src f -> Forall P (p_func_type f).
Proof.
  intros [H1 H2]. unfold p_func_type. fa.
  destruct (ft_results f); [constructor| |destruct H2]. fa.
Qed.
Ltac fa_ext ::= first [ solve [apply all_id; assumption] | solve [apply all_str; assumption] | solve [apply all_pn; assumption] | solve [apply all_pp; assumption] | apply all_docs | solve [apply all_ty; assumption] | solve [apply all_named_type; assumption] | solve [apply all_named_types; assumption] | solve [apply all_func_type; assumption] ].

Lemma all_variant_case c :
  (wf_ident src (vc_id c) /\ match vc_ty c with Some t => wf_ty src t | None => True end) ->
  Forall P (CIndent :: p_variant_case fx c).
Proof.
  intros [H1 H2]. unfold p_variant_case, src_id. fa.
  destruct (vc_ty c); fa.
Qed.

Lemma all_resource_method m : wf_resource_method src m -> Forall P (p_resource_method fx m).
Proof.
  destruct m as [dcs sp ps|dcs i st f]; cbn [wf_resource_method p_resource_method src_id].
  - intros H. fa.
  - intros [H1 H2]. fa. destruct st; fa.
Qed.

Lemma all_block dcs k i body : wf_ident src i -> Forall P body -> Forall P (p_block fx dcs k i body).
Proof. intros H1 H2. unfold p_block, src_id. fa. Qed.

Lemma all_item_type_decl x : wf_item_type_decl src x -> Forall P (p_item_type_decl fx x).
Proof.
  destruct x as [dcs i ms|dcs i cs|dcs i fs|dcs i fs|dcs i cs|dcs i k]; cbn [wf_item_type_decl p_item_type_decl].
  - intros [H1 H2]. apply all_block; [exact H1|]. apply all_spaced. eapply All_Forall'; [|exact H2]. apply all_resource_method.
  - intros (H1 & _ & H2). apply all_block; [exact H1|]. apply all_comma_lines. eapply All_Forall'; [|exact H2]. apply all_variant_case.
  - intros (H1 & _ & H2). apply all_block; [exact H1|]. apply all_comma_lines. eapply All_Forall'; [|exact H2].
    intros f [Hf1 Hf2]. unfold p_field, src_id. fa.
  - intros (H1 & _ & H2). apply all_block; [exact H1|]. apply all_comma_lines. eapply All_Forall'; [|exact H2].
    intros f Hf. unfold p_flag, src_id. fa.
  - intros (H1 & _ & H2). apply all_block; [exact H1|]. apply all_comma_lines. eapply All_Forall'; [|exact H2].
    intros c Hc. unfold p_enum_case, src_id. fa.
  - intros [H1 H2]. unfold src_id. fa. destruct k; fa.
Qed.
Ltac fa_ext ::= first [ solve [apply all_id; assumption] | solve [apply all_str; assumption] | solve [apply all_pn; assumption] | solve [apply all_pp; assumption] | apply all_docs | solve [apply all_ty; assumption] | solve [apply all_named_type; assumption] | solve [apply all_named_types; assumption] | solve [apply all_func_type; assumption] | solve [apply all_item_type_decl; assumption] ].

Lemma all_use u : wf_use src u -> Forall P (p_use fx u).
Proof.
  intros [H1 H2]. unfold p_use. fa.
  - destruct (u_path u); cbn [p_use_path src_path src_id]; fa.
  - apply all_comma_sep. eapply All_Forall'; [|exact H2]. intros it [Hi Ha]. unfold p_use_item, src_id.
    fa. destruct (ui_as it); fa.
Qed.
Ltac fa_ext ::= first [ solve [apply all_id; assumption] | solve [apply all_str; assumption] | solve [apply all_pn; assumption] | solve [apply all_pp; assumption] | apply all_docs | solve [apply all_ty; assumption] | solve [apply all_named_type; assumption] | solve [apply all_named_types; assumption] | solve [apply all_func_type; assumption] | solve [apply all_item_type_decl; assumption] | solve [apply all_use; assumption] ].

Lemma all_interface_item it : wf_interface_item src it -> Forall P (p_interface_item fx it).
Proof.
  destruct it as [u|x|dcs i t]; cbn [wf_interface_item p_interface_item src_id].
  - apply all_use.
  - apply all_item_type_decl.
  - intros [H1 H2]. fa. destruct t; cbn [p_func_type_ref src_id]; fa.
Qed.

Lemma all_items {A} (pr : A -> list cmd) l : Forall (fun x => Forall P (pr x)) l -> Forall P (p_items pr l).
Proof. intros H. unfold p_items. fa. now apply all_spaced. Qed.

Lemma all_inline_interface items : All (wf_interface_item src) items -> Forall P (p_inline_interface fx items).
Proof. intros H. unfold p_inline_interface. fa. apply all_items. eapply All_Forall'; [|exact H]. apply all_interface_item. Qed.
Ltac fa_ext ::= first [ solve [apply all_id; assumption] | solve [apply all_str; assumption] | solve [apply all_pn; assumption] | solve [apply all_pp; assumption] | apply all_docs | solve [apply all_ty; assumption] | solve [apply all_named_type; assumption] | solve [apply all_named_types; assumption] | solve [apply all_func_type; assumption] | solve [apply all_item_type_decl; assumption] | solve [apply all_use; assumption] | solve [apply all_inline_interface; assumption] ].

Lemma all_extern_type t : wf_extern_type src t -> Forall P (p_extern_type fx t).
Proof.
  destruct t; cbn [wf_extern_type p_extern_type src_id]; intros H; fa.
Qed.
Ltac fa_ext ::= first [ solve [apply all_id; assumption] | solve [apply all_str; assumption] | solve [apply all_pn; assumption] | solve [apply all_pp; assumption] | apply all_docs | solve [apply all_ty; assumption] | solve [apply all_named_type; assumption] | solve [apply all_named_types; assumption] | solve [apply all_func_type; assumption] | solve [apply all_item_type_decl; assumption] | solve [apply all_use; assumption] | solve [apply all_inline_interface; assumption] | solve [apply all_extern_type; assumption] ].

Lemma all_world_item_path p : wf_world_item_path src p -> Forall P (p_world_item_path fx p).
Proof.
  destruct p; cbn [wf_world_item_path p_world_item_path src_id src_path].
  - intros [H1 H2]. fa.
  - intros H. fa.
  - intros H. fa.
Qed.
Ltac fa_ext ::= first [ solve [apply all_id; assumption] | solve [apply all_str; assumption] | solve [apply all_pn; assumption] | solve [apply all_pp; assumption] | apply all_docs | solve [apply all_ty; assumption] | solve [apply all_named_type; assumption] | solve [apply all_named_types; assumption] | solve [apply all_func_type; assumption] | solve [apply all_item_type_decl; assumption] | solve [apply all_use; assumption] | solve [apply all_inline_interface; assumption] | solve [apply all_extern_type; assumption] | solve [apply all_world_item_path; assumption] ].

Lemma all_world_item w : wf_world_item src w -> Forall P (p_world_item fx w).
Proof.
  destruct w as [u|x|dcs p|dcs p|dcs wr items]; cbn [wf_world_item p_world_item].
  - apply all_use.
  - apply all_item_type_decl.
  - intros H. fa.
  - intros H. fa.
  - intros [H1 H2]. fa.
    + destruct wr; cbn [p_world_ref src_id src_path]; fa.
    + destruct items as [|x l]; fa. apply all_comma_lines. eapply All_Forall'; [|exact H2].
      intros it [Ha Hb]. unfold p_include_item, src_id. fa.
Qed.

Lemma all_type_statement t : wf_type_statement src t -> Forall P (p_type_statement fx t).
Proof.
  destruct t as [dcs i items|dcs i items|x]; cbn [wf_type_statement p_type_statement src_id].
  - intros [H1 H2]. fa. apply all_items. eapply All_Forall'; [|exact H2]. apply all_interface_item.
  - intros [H1 H2]. fa. apply all_items. eapply All_Forall'; [|exact H2]. apply all_world_item.
  - intros [_ H]. now apply all_item_type_decl.
Qed.
Ltac fa_ext ::= first [ solve [apply all_id; assumption] | solve [apply all_str; assumption] | solve [apply all_pn; assumption] | solve [apply all_pp; assumption] | apply all_docs | solve [apply all_ty; assumption] | solve [apply all_named_type; assumption] | solve [apply all_named_types; assumption] | solve [apply all_func_type; assumption] | solve [apply all_item_type_decl; assumption] | solve [apply all_use; assumption] | solve [apply all_inline_interface; assumption] | solve [apply all_extern_type; assumption] | solve [apply all_world_item_path; assumption] | solve [apply all_type_statement; assumption] ].

Lemma all_expr x : wf_expr src x -> Forall P (p_expr fx x).
Proof.
  revert x. apply (PrinterProofs.expr_ind' (fun x => wf_expr src x -> Forall P (p_expr fx x))
                     (fun p => wf_primary src p -> Forall P (p_primary fx p))
                     (fun a => wf_arg src a -> Forall P (PrinterProofs.p_arg0 a))).
  - intros sp p post IH [H1 H2]. cbn [p_expr]. fa; [now apply IH|].
    induction post as [|q post IHp]; cbn [flat_map]; [constructor|]. destruct H2 as [Hq H2]. fa; [|now apply IHp].
    destruct q; cbn [wf_postfix p_postfix src_id src_str] in *; fa.
  - intros sp pkg args IH [H1 H2]. rewrite PrinterProofs.p_new_eq. fa.
    apply PrinterProofs.wf_args_All in H2.
    assert (Hf : Forall (fun a => Forall P (PrinterProofs.p_arg0 a)) args).
    { clear H1. induction IH as [|a l Ha _ IHl]; [constructor|]. destruct H2 as [H2 H3]. constructor; auto. }
    assert (Hargs : Forall P (PrinterProofs.p_args args)).
    { clear -Hf Ptok Pindent Pnewline. induction Hf as [|a l Ha _ IHl]; cbn [PrinterProofs.p_args]; [constructor|].
      unfold PrinterProofs.p_arg_line. fa. destruct (is_fill a && PrinterProofs.nil_args l)%bool; fa. }
    unfold PrinterProofs.p_new_args. destruct args as [|a [|b l]]; [fa| |fa].
    + destruct a; fa.
    + destruct a; fa.
  - intros sp x IH H. cbn [p_primary]. fa. now apply IH.
  - intros i H. cbn [wf_primary] in H. cbn [p_primary src_id]. fa.
  - intros i H. cbn [wf_arg] in H. cbn [PrinterProofs.p_arg0 src_id]. fa.
  - intros i H. cbn [wf_arg] in H. cbn [PrinterProofs.p_arg0 src_id]. fa.
  - intros n x IH [H1 H2]. cbn [PrinterProofs.p_arg0]. fa; [|now apply IH].
    destruct n; cbn [p_arg_name src_id src_str]; fa.
  - intros sp _. cbn [PrinterProofs.p_arg0]. fa.
Qed.
Ltac fa_ext ::= first [ solve [apply all_id; assumption] | solve [apply all_str; assumption] | solve [apply all_pn; assumption] | solve [apply all_pp; assumption] | apply all_docs | solve [apply all_ty; assumption] | solve [apply all_named_type; assumption] | solve [apply all_named_types; assumption] | solve [apply all_func_type; assumption] | solve [apply all_item_type_decl; assumption] | solve [apply all_use; assumption] | solve [apply all_inline_interface; assumption] | solve [apply all_extern_type; assumption] | solve [apply all_world_item_path; assumption] | solve [apply all_type_statement; assumption] | solve [apply all_expr; assumption] ].

Lemma all_extern_name n : wf_extern_name src n -> Forall P (p_extern_name n).
Proof. destruct n; cbn [wf_extern_name p_extern_name src_id src_str]; intros H; fa. Qed.
Ltac fa_ext ::= first [ solve [apply all_id; assumption] | solve [apply all_str; assumption] | solve [apply all_pn; assumption] | solve [apply all_pp; assumption] | apply all_docs | solve [apply all_ty; assumption] | solve [apply all_named_type; assumption] | solve [apply all_named_types; assumption] | solve [apply all_func_type; assumption] | solve [apply all_item_type_decl; assumption] | solve [apply all_use; assumption] | solve [apply all_inline_interface; assumption] | solve [apply all_extern_type; assumption] | solve [apply all_world_item_path; assumption] | solve [apply all_type_statement; assumption] | solve [apply all_expr; assumption] | solve [apply all_extern_name; assumption] ].

Lemma all_statement s : wf_statement src s -> Forall P (p_statement fx s).
Proof.
  destruct s as [dcs i name t|t|dcs i x|dcs x o]; cbn [wf_statement p_statement src_id].
  - intros (H1 & H2 & H3). fa.
    + destruct name; fa.
    + destruct t; cbn [p_import_type src_path src_id]; fa.
  - apply all_type_statement.
  - intros [H1 H2]. fa.
  - intros [H1 H2]. fa. destruct o; fa.
Qed.

Theorem all_document doc : wf_document src doc -> Forall P (p_document fx doc).
Proof.
  intros (H1 & H2 & H3). unfold p_document, p_directive. fa.
  - destruct (pd_targets (doc_directive doc)); cbn [fx_targets_keyword fx repaired src_path]; fa.
  - apply all_spaced. eapply All_Forall'; [|exact H3]. apply all_statement.
Qed.

End AllCmds.

(** The (repaired) printer does not panic on a well-formed tree. *)
Lemma layout_total src cs :
  Forall (fun c => match c with CSrc _ sp => exists t, slice src sp = Some t | _ => True end) cs ->
  forall ind b, exists ps, layout src ind b cs = Some ps.
Proof.
  induction 1 as [|c cs Hc _ IH]; intros ind b; [exists []; reflexivity|].
  destruct c; cbn [layout].
  - destruct (IH ind b) as (ps & ->). eauto.
  - destruct Hc as (t & ->). destruct (IH ind b) as (ps & ->). eauto.
  - destruct (IH ind b) as (ps & ->). eauto.
  - destruct (IH ind false) as (ps & ->). destruct b; eauto.
  - destruct b; [apply IH|]. destruct (IH ind true) as (ps & ->). eauto.
  - destruct (IH ind false) as (ps & ->). eauto.
  - destruct (IH ind b) as (ps & ->). eauto.
  - apply IH.
  - apply IH.
Qed.

(** The pieces the printer writes between tokens are blanks, line feeds and doc lines without a line
    feed inside. *)
Lemma layout_gaps src cs :
  Forall (fun c => match c with CDoc l => existsb (N.eqb c_nl) l = false | _ => True end) cs ->
  forall ind b ps, layout src ind b cs = Some ps -> PrinterLex.gaps_okb ps = true.
Proof.
  assert (Hind : forall n, forallb PrinterLex.ws_char (indent_text n) = true).
  { induction n as [|n IHn]; [reflexivity|]. cbn [indent_text]. rewrite forallb_app, IHn. reflexivity. }
  induction 1 as [|c cs Hc _ IH]; intros ind b ps H; cbn [layout] in H; [inversion H; reflexivity|].
  destruct c.
  - destruct (layout src ind b cs) eqn:E; inversion H; subst. cbn [PrinterLex.gaps_okb]. eauto.
  - destruct (slice src sp); [|discriminate]. destruct (layout src ind b cs) eqn:E; inversion H; subst. cbn [PrinterLex.gaps_okb]. eauto.
  - destruct (layout src ind b cs) eqn:E; inversion H; subst. cbn [PrinterLex.gaps_okb forallb]. erewrite IH; eauto.
  - destruct (layout src ind false cs) eqn:E; [|destruct b; discriminate].
    destruct b; inversion H; subst; cbn [PrinterLex.gaps_okb]; rewrite ?Hind, Hc; cbn [negb andb]; eauto.
  - destruct b; [eauto|]. destruct (layout src ind true cs) eqn:E; inversion H; subst.
    cbn [PrinterLex.gaps_okb]. rewrite Hind. cbn [andb]. eauto.
  - destruct (layout src ind false cs) eqn:E; inversion H; subst. cbn [PrinterLex.gaps_okb forallb]. erewrite IH; eauto.
  - destruct (layout src ind b cs) eqn:E; inversion H; subst. cbn [PrinterLex.gaps_okb forallb]. erewrite IH; eauto.
  - eauto.
  - eauto.
Qed.

Lemma existsb_nl_false l : ~ In c_nl l -> existsb (N.eqb c_nl) l = false.
Proof.
  induction l as [|c l IH]; [reflexivity|]. intros H. cbn [existsb].
  destruct (c_nl =? c)%N eqn:E; [apply N.eqb_eq in E; subst; exfalso; apply H; now left|].
  apply IH. intros H'. apply H. now right.
Qed.

Theorem print_gaps_ok src doc ps :
  wf_document src doc -> print_pieces repaired src doc = Some ps -> PrinterLex.gaps_okb ps = true.
Proof.
  intros Hwf Hp. unfold print_pieces in Hp. eapply layout_gaps; [|exact Hp].
  apply (all_document src (fun c => match c with CDoc l => existsb (N.eqb c_nl) l = false | _ => True end));
    try exact I; try (intros; exact I); [|exact Hwf].
  intros l _ _ H. now apply existsb_nl_false.
Qed.

Theorem print_no_panic_wf src doc : wf_document src doc -> exists ps, print_pieces repaired src doc = Some ps.
Proof.
  intros H. unfold print_pieces. apply layout_total.
  apply (all_document src (fun c => match c with CSrc _ sp => exists t, slice src sp = Some t | _ => True end));
    try exact I; try (intros; exact I); [|exact H].
  intros k sp t Hs. eauto.
Qed.
