(** C19 — proofs about the CLI model (model/Cli.v) against the documented behaviour
    (spec/CliSpec.v) and the generated tables (gen/CliTable.v). *)
From Coq Require Import Permutation.
From WacV Require Import Str Show CliTypes CliTable Semver Cli CliWorlds CliSpec.

(** * Strings *)

Lemma cli_str_eqb_eq a b : str_eqb a b = true <-> a = b.
Proof.
  revert b. induction a as [|x a IH]; destruct b as [|y b]; cbn; try (split; congruence).
  rewrite andb_true_iff, N.eqb_eq, IH. split; [intros [-> ->]; reflexivity | intros H; injection H; auto].
Qed.

Lemma cli_str_eqb_refl a : str_eqb a a = true.
Proof. now apply cli_str_eqb_eq. Qed.

Lemma cli_str_eqb_neq a b : str_eqb a b = false <-> a <> b.
Proof.
  split.
  - intros H E. apply cli_str_eqb_eq in E. congruence.
  - intros H. destruct (str_eqb a b) eqn:E; auto. apply cli_str_eqb_eq in E. contradiction.
Qed.

Lemma split_first_sound c s : forall b a,
  split_first c s = Some (b, a) -> s = b ++ c :: a /\ ~ In c b.
Proof.
  induction s as [|x s IH]; intros b a; cbn; [discriminate|].
  destruct (x =? c) eqn:E.
  - apply N.eqb_eq in E. subst x. intros H. injection H as <- <-. split; auto.
  - apply N.eqb_neq in E. destruct (split_first c s) as [[b' a']|]; [|discriminate].
    intros H. injection H as <- <-. destruct (IH b' a' eq_refl) as [-> N]. split; auto.
    intros [H|H]; auto.
Qed.

Lemma split_first_complete c : forall b a, ~ In c b -> split_first c (b ++ c :: a) = Some (b, a).
Proof.
  induction b as [|y b IH]; intros a N; cbn.
  - now rewrite N.eqb_refl.
  - destruct (y =? c) eqn:E.
    + apply N.eqb_eq in E. exfalso. apply N. now left.
    + rewrite IH; auto. intros I. apply N. now right.
Qed.

Lemma split_first_spec c s b a :
  split_first c s = Some (b, a) <-> s = b ++ c :: a /\ ~ In c b.
Proof.
  split; [apply split_first_sound | intros [-> N]; now apply split_first_complete].
Qed.

Lemma split_first_none c s : split_first c s = None <-> ~ In c s.
Proof.
  split.
  - intros H I. apply in_split in I. destruct I as [l1 [l2 ->]].
    (* cut at the first occurrence *)
    revert H. induction l1 as [|y l1 IH]; cbn.
    + now rewrite N.eqb_refl.
    + destruct (y =? c); [discriminate|]. destruct (split_first c (l1 ++ c :: l2)) as [[? ?]|]; [discriminate|].
      intros _. now apply IH.
  - induction s as [|x s IH]; cbn; auto. intros N. destruct (x =? c) eqn:E.
    + apply N.eqb_eq in E. exfalso. apply N. now left.
    + rewrite IH; auto.
Qed.

(** * Tie to the generated table *)

Lemma opts_of_flags_is_documented sw : opts_of_flags sw = documented_opts sw.
Proof. destruct sw as [[] [] []]; reflexivity. Qed.

Lemma plug_opts_is_documented sw : plug_opts sw = documented_plug_opts.
Proof. destruct sw as [[]]; reflexivity. Qed.

Lemma compose_guard_is_documented sw ho tty :
  compose_terminal_guard sw ho tty = refuses_terminal (sw_wat sw) ho tty.
Proof. destruct sw as [[] [] []], ho, tty; reflexivity. Qed.

Lemma plug_guard_is_documented sw ho tty :
  plug_terminal_guard sw ho tty = refuses_terminal (psw_wat sw) ho tty.
Proof. destruct sw as [[]], ho, tty; reflexivity. Qed.

Lemma flags_table_is_documented : cli_flags = documented_flags.
Proof. vm_compute. reflexivity. Qed.

(** * --dep *)

Lemma parse_dep_means s kv : parse_dep s = Some kv <-> dep_means s kv.
Proof.
  unfold parse_dep. change dep_separator with 61. change dep_trim_key with true. change dep_trim_value with true.
  split.
  - destruct (split_first 61 s) as [[k v]|] eqn:E; [|discriminate].
    intros H. injection H as <-. apply split_first_spec in E. destruct E as [-> N]. now constructor.
  - intros H. destruct H as [k v N].
    assert (split_first 61 (k ++ 61 :: v) = Some (k, v)) as -> by (apply split_first_spec; auto).
    reflexivity.
Qed.

Lemma parse_dep_none s : parse_dep s = None <-> ~ In 61 s.
Proof.
  unfold parse_dep. change dep_separator with 61.
  destruct (split_first 61 s) as [[k v]|] eqn:E.
  - split; [discriminate|]. intros N. apply split_first_spec in E. destruct E as [-> _].
    exfalso. apply N. apply in_or_app. right. now left.
  - split; auto. intros _. now apply split_first_none.
Qed.

Lemma parse_deps_mean raw deps : parse_deps raw = Some deps <-> deps_mean raw deps.
Proof.
  unfold deps_mean. revert deps. induction raw as [|s raw IH]; intros deps; cbn.
  - split; [intros H; injection H as <-; constructor | intros H; inversion H; reflexivity].
  - destruct (parse_dep s) as [kv|] eqn:E.
    + destruct (parse_deps raw) as [kvs|] eqn:E2.
      * split.
        -- intros H. injection H as <-. constructor; [now apply parse_dep_means | now apply IH].
        -- intros H. inversion H as [|? kv' ? kvs' M F]; subst. apply parse_dep_means in M.
           rewrite E in M. injection M as <-. apply IH in F. now injection F as <-.
      * split; [discriminate|]. intros H. inversion H as [|? kv' ? kvs' M F]; subst.
        apply IH in F. discriminate.
    + split; [discriminate|]. intros H. inversion H as [|? kv' ? kvs' M F]; subst.
      apply parse_dep_means in M. congruence.
Qed.

Lemma overrides_get_is_documented deps name : overrides_get deps name = override_of deps name.
Proof.
  unfold overrides_get, override_of. induction deps as [|kv deps IH] using rev_ind; [reflexivity|].
  rewrite fold_left_app, rev_unit. cbn. destruct (str_eqb (fst kv) name); [reflexivity | exact IH].
Qed.

(** * Generic facts about [bind] and [emit] *)

Lemma bind_success {A} (r : sres A) s k :
  o_status (bind r s k) = Success <-> exists a, r = SOk a /\ o_status (k a) = Success.
Proof.
  destruct r; cbn; split; try discriminate.
  - intros H. eauto.
  - intros [a' [E H]]. now injection E as <-.
  - intros [a [E _]]. discriminate.
  - intros [a [E _]]. discriminate.
Qed.

Lemma exit_zero_iff_success o : exit_code o = 0 <-> o_status o = Success.
Proof.
  unfold exit_code. destruct (o_status o) as [|s|s]; [tauto| |]; (split; [|discriminate]).
  - destruct s; discriminate.
  - discriminate.
Qed.

(** An outcome is clean if it either succeeded or left nothing behind. *)
Definition clean (o : outcome) : Prop :=
  o_status o = Success \/ (o_stdout o = [] /\ o_writes o = []).

Lemma clean_fail s : clean (fail s). Proof. right. split; reflexivity. Qed.
Lemma clean_panic s : clean (panic s). Proof. right. split; reflexivity. Qed.

Lemma clean_bind {A} (r : sres A) s k : (forall a, clean (k a)) -> clean (bind r s k).
Proof. destruct r; cbn; auto using clean_fail, clean_panic. Qed.

Lemma clean_emit pt wo wat output b : clean (emit pt wo wat output b).
Proof.
  unfold emit. apply clean_bind. intros out. destruct output as [p|].
  - destruct (wo p); [left; reflexivity | right; split; reflexivity].
  - left. reflexivity.
Qed.

Lemma emit_success pt wo wat output b :
  o_status (emit pt wo wat output b) = Success <->
  (exists out, rendered pt wat b out) /\ (forall p, output = Some p -> wo p = true).
Proof.
  unfold emit, rendered. rewrite bind_success. split.
  - intros [out [E H]]. split.
    + exists out. destruct wat; [exact E | now injection E].
    + intros p ->. destruct (wo p); [reflexivity | discriminate].
  - intros [[out E] H]. exists out. split.
    + destruct wat; [exact E | now subst].
    + destruct output as [p|]; [rewrite (H p eq_refl)|]; reflexivity.
Qed.

(** What [emit] produces, in terms of the documented delivery. *)
Lemma emit_delivered pt wo wat output b :
  (forall p, output = Some p -> wo p = true) ->
  emit pt wo wat output b =
  match (if wat then pt b else SOk b) with
  | SOk out => delivered output out (newline_after wat)
  | SErr => fail StPrint
  | SPanic => panic StPrint
  end.
Proof.
  intros H. unfold emit. destruct (if wat then pt b else SOk b) as [out| |]; cbn; auto.
  destruct output as [p|]; cbn; [rewrite (H p eq_refl)|]; reflexivity.
Qed.

(** * The previous content of the -o path is irrelevant *)

Lemma fs_after_delivered prev p out nl :
  fs_after prev (delivered (Some p) out nl) p = Some out /\
  forall q, q <> p -> fs_after prev (delivered (Some p) out nl) q = prev q.
Proof.
  unfold fs_after, delivered. cbn. rewrite cli_str_eqb_refl. split; auto.
  intros q N. apply cli_str_eqb_neq in N. now rewrite N.
Qed.

Lemma fs_after_no_writes prev o : o_writes o = [] -> forall q, fs_after prev o q = prev q.
Proof. unfold fs_after. intros ->. reflexivity. Qed.

(** From "[-o] equals stdout" and "no output on failure" to the file-system statement. *)
Lemma overwrites_from_equals (o_file o_out : outcome) p nl :
  (exit_code o_file <> 0 -> o_stdout o_file = [] /\ o_writes o_file = []) ->
  ((exists out, o_file = delivered (Some p) out nl /\ o_out = delivered None out nl)
   \/ (exit_code o_file <> 0 /\ o_out = o_file)) ->
  forall prev : fs_state,
    (exists out, fs_after prev o_file p = Some out /\
                 (forall q, q <> p -> fs_after prev o_file q = prev q) /\
                 o_out = delivered None out nl)
    \/ (exit_code o_file <> 0 /\ forall q, fs_after prev o_file q = prev q).
Proof.
  intros Hclean [[out [Hf Ho]] | [Hx _]] prev.
  - left. exists out. subst o_file. destruct (fs_after_delivered prev p out nl) as [A B]. auto.
  - right. split; auto. apply fs_after_no_writes. now apply Hclean.
Qed.

(** * wac compose *)

Section ComposeProofs.
  Variables Doc Keys Pkgs Res Client : Type.
  Variable read_file : str -> sres str.
  Variable parse_doc : str -> sres Doc.
  Variable registry_new : option str -> sres Client.
  Variable discover : Doc -> sres Keys.
  Variable fs_resolve : str -> (str -> option str) -> Keys -> sres Pkgs.
  Variable keys_missing : Keys -> Pkgs -> Keys.
  Variable keys_is_empty : Keys -> bool.
  Variable registry_resolve : Client -> Keys -> sres Pkgs.
  Variable pkgs_extend : Pkgs -> Pkgs -> Pkgs.
  Variable resolve_doc : Doc -> Pkgs -> sres Res.
  Variable encode : Res -> encode_opts -> sres str.
  Variable print_text : str -> sres str.
  Variable write_ok : str -> bool.
  Variable stdout_tty : bool.
  (** The file-system resolver only *applies* the override lookup ([HashMap::get]). *)
  Hypothesis fs_resolve_ext : forall dir ov ov' keys,
    (forall n, ov n = ov' n) -> fs_resolve dir ov keys = fs_resolve dir ov' keys.

  Notation run := (compose Doc Keys Pkgs Res Client read_file parse_doc registry_new discover fs_resolve
                           keys_missing keys_is_empty registry_resolve pkgs_extend resolve_doc encode
                           print_text write_ok stdout_tty).
  Notation respk := (resolve_packages Doc Keys Pkgs Client registry_new discover fs_resolve keys_missing
                                      keys_is_empty registry_resolve pkgs_extend).
  Notation found := (packages_found Doc Keys Pkgs Client registry_new discover fs_resolve keys_missing
                                    keys_is_empty registry_resolve pkgs_extend).
  Notation pipeline := (pipeline_ok Doc Keys Pkgs Res Client read_file parse_doc registry_new discover
                                    fs_resolve keys_missing keys_is_empty registry_resolve pkgs_extend
                                    resolve_doc encode).

  Lemma respk_success early dir ov d k :
    o_status (respk early dir ov d k) = Success <->
    exists pk, found early dir ov d pk /\ o_status (k pk) = Success.
  Proof.
    unfold resolve_packages. rewrite bind_success. split.
    - intros [keys [Ed H]]. rewrite bind_success in H. destruct H as [pk [Ef H]].
      destruct (keys_is_empty (keys_missing keys pk)) eqn:Em.
      + exists pk. split; auto. eapply AllLocal; eauto.
      + rewrite bind_success in H. destruct H as [c [Ec H]]. rewrite bind_success in H.
        destruct H as [rp [Er H]].
        destruct (keys_is_empty (keys_missing (keys_missing keys pk) rp)) eqn:Em2; [|discriminate].
        exists (pkgs_extend pk rp). split; auto. eapply SomeFromRegistry; eauto.
        destruct early as [c0|]; [left; now injection Ec as -> | right; auto].
    - intros [pk [F H]]. destruct F as [keys pk Ed Ef Em | keys pk c rp Ed Ef Em Ec Er Em2].
      + exists keys. split; auto. rewrite bind_success. exists pk. split; auto. now rewrite Em.
      + exists keys. split; auto. rewrite bind_success. exists pk. split; auto. rewrite Em.
        rewrite bind_success. exists c. split.
        * destruct Ec as [-> | [-> Ec]]; auto.
        * rewrite bind_success. exists rp. split; auto. now rewrite Em2.
  Qed.

  Lemma found_ext early dir ov ov' d pk :
    (forall n, ov n = ov' n) -> found early dir ov d pk -> found early dir ov' d pk.
  Proof.
    intros E F. destruct F as [keys pk Ed Ef Em | keys pk c rp Ed Ef Em Ec Er Em2].
    - eapply AllLocal; eauto. now rewrite <- (fs_resolve_ext dir ov ov' keys E).
    - eapply SomeFromRegistry; eauto. now rewrite <- (fs_resolve_ext dir ov ov' keys E).
  Qed.

  Lemma respk_clean early dir ov d k : (forall pk, clean (k pk)) -> clean (respk early dir ov d k).
  Proof.
    intros H. unfold resolve_packages. apply clean_bind. intros keys. apply clean_bind. intros pk.
    destruct (keys_is_empty _); auto. apply clean_bind. intros c. apply clean_bind. intros rp.
    destruct (keys_is_empty _); auto using clean_fail.
  Qed.

  (** The process exits 0 exactly when the documented library pipeline yields a component and the
      sink accepts it. *)
  Theorem compose_exit_zero_iff_pipeline_ok f :
    exit_code (run f) = 0 <->
    exists b, pipeline f b /\
              sink_ok print_text write_ok (sw_wat (cf_sw f)) (cf_output f) stdout_tty b.
  Proof.
    rewrite exit_zero_iff_success. unfold compose, sink_ok.
    destruct (parse_deps (cf_deps f)) as [deps|] eqn:Ed.
    - rewrite bind_success. split.
      + intros [src [Er H]]. rewrite bind_success in H. destruct H as [d [Ep H]].
        rewrite bind_success in H. destruct H as [cl [Ec H]].
        rewrite respk_success in H. destruct H as [pk [F H]].
        rewrite bind_success in H. destruct H as [r [Ers H]].
        rewrite compose_guard_is_documented in H.
        destruct (refuses_terminal (sw_wat (cf_sw f)) (is_some (cf_output f)) stdout_tty) eqn:G; [discriminate|].
        rewrite bind_success in H. destruct H as [b [Ee H]]. rewrite emit_success in H.
        destruct H as [R Wk]. exists b. split; [|auto].
        apply PipelineOk with (deps := deps) (src := src) (d := d) (early := cl) (pk := pk) (r := r);
          [now apply parse_deps_mean | exact Er | exact Ep | | | exact Ers | now rewrite <- opts_of_flags_is_documented].
        * destruct (cf_registry f) as [u|].
          -- destruct (registry_new (Some u)) as [c| |]; cbn in Ec; try discriminate.
             injection Ec as <-. eauto.
          -- now injection Ec as <-.
        * eapply found_ext; [|exact F]. apply overrides_get_is_documented.
      + intros [b [P [R [Wk G]]]]. destruct P as [deps' src d early pk r M Er Ep Ec F Ers Ee].
        apply parse_deps_mean in M. rewrite Ed in M. injection M as <-.
        exists src. split; auto. rewrite bind_success. exists d. split; auto.
        rewrite bind_success. exists early. split.
        { destruct (cf_registry f) as [u|]; [destruct Ec as [c [-> ->]]; reflexivity | now subst]. }
        rewrite respk_success. exists pk. split.
        { eapply found_ext; [|exact F]. intros n. symmetry. apply overrides_get_is_documented. }
        rewrite bind_success. exists r. split; auto.
        rewrite compose_guard_is_documented, G.
        rewrite bind_success. exists b. split; [now rewrite opts_of_flags_is_documented|].
        apply emit_success. auto.
    - split; [discriminate|]. intros [b [P _]]. destruct P as [deps ? ? ? ? ? M]. apply parse_deps_mean in M. congruence.
  Qed.

  Theorem compose_no_output_on_failure f :
    exit_code (run f) <> 0 -> o_stdout (run f) = [] /\ o_writes (run f) = [].
  Proof.
    intros H. assert (clean (run f)) as [C|C]; [|apply exit_zero_iff_success in C; contradiction | exact C].
    unfold compose. destruct (parse_deps (cf_deps f)); [|apply clean_fail].
    apply clean_bind. intros src. apply clean_bind. intros d. apply clean_bind. intros cl.
    apply respk_clean. intros pk. apply clean_bind. intros r.
    destruct (compose_terminal_guard _ _ _); [apply clean_fail|].
    apply clean_bind. intros b. apply clean_emit.
  Qed.

  (** Everything up to and including [Document::resolve] depends neither on [-o] nor on the
      switches. *)
  Definition front (f : compose_flags) (k : Res -> outcome) : outcome :=
    match parse_deps (cf_deps f) with
    | None => fail StUsage
    | Some deps =>
      bind (read_file (cf_path f)) StRead (fun src =>
      bind (parse_doc src) StParse (fun d =>
      bind (match cf_registry f with
            | Some u => sres_map Some (registry_new (Some u))
            | None => SOk None
            end) StRegistryNew (fun cl =>
      respk cl (cf_deps_dir f) (overrides_get deps) d (fun pk =>
      bind (resolve_doc d pk) StResolve k))))
    end.

  Definition back (sw : compose_sw) (output : option str) (r : Res) : outcome :=
    if compose_terminal_guard sw (is_some output) stdout_tty then fail StTerminal
    else bind (encode r (opts_of_flags sw)) StEncode (fun b => emit print_text write_ok (sw_wat sw) output b).

  Lemma compose_front_back f : run f = front f (back (cf_sw f) (cf_output f)).
  Proof. reflexivity. Qed.

  Definition stopped (o : outcome) : Prop := exists s, o = fail s \/ o = panic s.

  Lemma front_cases f :
    (exists r, forall k, front f k = k r) \/ (exists o, stopped o /\ forall k, front f k = o).
  Proof.
    unfold front, resolve_packages.
    destruct (parse_deps (cf_deps f)); [|right; eexists; split; [eexists; left; reflexivity | reflexivity]].
    repeat match goal with
    | |- context[bind ?r _ _] =>
        destruct r; cbn [bind sres_map];
        [ | right; eexists; split; [eexists; left; reflexivity | reflexivity]
          | right; eexists; split; [eexists; right; reflexivity | reflexivity] ]
    | |- context[match cf_registry f with _ => _ end] => destruct (cf_registry f)
    | |- context[if keys_is_empty ?x then _ else _] => destruct (keys_is_empty x)
    end;
    try (left; eexists; intros; reflexivity);
    try (right; eexists; split; [eexists; left; reflexivity | reflexivity]).
  Qed.

  (** [-o] writes exactly the bytes otherwise sent to stdout (text on stdout is followed by a
      newline); a run that fails fails identically with and without [-o]. *)
  Theorem compose_o_equals_stdout f p :
    write_ok p = true ->
    refuses_terminal (sw_wat (cf_sw f)) false stdout_tty = false ->
    (exists out, run (with_output f (Some p)) = delivered (Some p) out (newline_after (sw_wat (cf_sw f))) /\
                 run (with_output f None) = delivered None out (newline_after (sw_wat (cf_sw f))))
    \/ (exit_code (run (with_output f (Some p))) <> 0 /\ run (with_output f None) = run (with_output f (Some p))).
  Proof.
    intros Wk G. rewrite !compose_front_back.
    change (front (with_output f (Some p))) with (front f). change (front (with_output f None)) with (front f).
    cbn [with_output cf_sw cf_output].
    destruct (front_cases f) as [[r Hr] | [o [[s Ho] Hk]]].
    - rewrite !Hr. unfold back. rewrite !compose_guard_is_documented. cbn [is_some]. rewrite G.
      assert (refuses_terminal (sw_wat (cf_sw f)) true stdout_tty = false) as -> by (destruct (sw_wat (cf_sw f)); reflexivity).
      destruct (encode r (opts_of_flags (cf_sw f))) as [b| |]; cbn [bind].
      + rewrite !emit_delivered by (intros q E; congruence).
        destruct (if sw_wat (cf_sw f) then print_text b else SOk b) as [out| |].
        * left. exists out. split; reflexivity.
        * right. split; [discriminate | reflexivity].
        * right. split; [discriminate | reflexivity].
      + right. split; [discriminate | reflexivity].
      + right. split; [discriminate | reflexivity].
    - rewrite !Hk. right. split; [|reflexivity]. destruct Ho as [-> | ->]; [destruct s|]; discriminate.
  Qed.

  (** [-t] prints the text form of exactly the component the same invocation without [-t] emits. *)
  Theorem compose_t_prints_same_component f :
    refuses_terminal false (is_some (cf_output f)) stdout_tty = false ->
    (forall p, cf_output f = Some p -> write_ok p = true) ->
    (exists b, run (with_wat f false) = delivered (cf_output f) b [] /\
               run (with_wat f true) = match print_text b with
                                       | SOk t => delivered (cf_output f) t [10]
                                       | SErr => fail StPrint
                                       | SPanic => panic StPrint
                                       end)
    \/ (exit_code (run (with_wat f false)) <> 0 /\ run (with_wat f true) = run (with_wat f false)).
  Proof.
    intros G Wk. rewrite !compose_front_back.
    change (front (with_wat f false)) with (front f). change (front (with_wat f true)) with (front f).
    cbn [with_wat cf_sw cf_output].
    destruct (front_cases f) as [[r Hr] | [o [[s Ho] Hk]]].
    - rewrite !Hr. unfold back. rewrite !compose_guard_is_documented. cbn [sw_wat]. rewrite G.
      cbn [refuses_terminal].
      change (opts_of_flags (mk_sw (sw_no_validate (cf_sw f)) true (sw_import_dependencies (cf_sw f))))
        with (opts_of_flags (mk_sw (sw_no_validate (cf_sw f)) false (sw_import_dependencies (cf_sw f)))).
      destruct (encode r _) as [b| |]; cbn [bind].
      + rewrite !emit_delivered by exact Wk. left. exists b. split; reflexivity.
      + right. split; [discriminate | reflexivity].
      + right. split; [discriminate | reflexivity].
    - rewrite !Hk. right. split; [|reflexivity]. destruct Ho as [-> | ->]; [destruct s|]; discriminate.
  Qed.
End ComposeProofs.

(** * wac parse *)

Section ParseProofs.
  Variable Doc : Type.
  Variable read_file : str -> sres str.
  Variable parse_doc : str -> sres Doc.
  Variable to_json : Doc -> sres str.
  Notation run := (parse_cmd Doc read_file parse_doc to_json).

  Theorem parse_exit_zero_iff path :
    exit_code (run path) = 0 <->
    exists src d js, read_file path = SOk src /\ parse_doc src = SOk d /\ to_json d = SOk js /\
                     run path = delivered None js [10].
  Proof.
    rewrite exit_zero_iff_success. unfold parse_cmd. split.
    - destruct (read_file path) as [src| |] eqn:E1; cbn; try discriminate.
      destruct (parse_doc src) as [d| |] eqn:E2; cbn; try discriminate.
      destruct (to_json d) as [js| |] eqn:E3; cbn; try discriminate. intros _. exists src, d, js. auto.
    - intros [src [d [js [E1 [E2 [E3 _]]]]]]. rewrite E1. cbn. rewrite E2. cbn. rewrite E3. reflexivity.
  Qed.

  Theorem parse_no_output_on_failure path :
    exit_code (run path) <> 0 -> o_stdout (run path) = [] /\ o_writes (run path) = [].
  Proof.
    intros H. assert (clean (run path)) as [C|C]; [|apply exit_zero_iff_success in C; contradiction | exact C].
    unfold parse_cmd. repeat (apply clean_bind; intros). left. reflexivity.
  Qed.
End ParseProofs.

(** * wac plug: grouping *)

Lemma cli_str_eqb_sym a b : str_eqb a b = str_eqb b a.
Proof.
  destruct (str_eqb a b) eqn:E.
  - apply cli_str_eqb_eq in E. subst. symmetry. apply cli_str_eqb_refl.
  - symmetry. apply cli_str_eqb_neq. apply cli_str_eqb_neq in E. congruence.
Qed.

Lemma mem_str_in k l : mem_str k l = true <-> In k l.
Proof.
  unfold mem_str. rewrite existsb_exists. split.
  - intros [x [I E]]. apply cli_str_eqb_eq in E. now subst.
  - intros I. exists k. split; auto. apply cli_str_eqb_refl.
Qed.

Lemma mem_str_app k a b : mem_str k (a ++ b) = mem_str k a || mem_str k b.
Proof. apply existsb_app. Qed.

Lemma mem_str_cons k x l : mem_str k (x :: l) = str_eqb k x || mem_str k l.
Proof. reflexivity. Qed.

Section Grouping.
  Context {A : Type}.

  Lemma gi_keys k (v : A) g :
    map fst (group_insert k v g) = if mem_str k (map fst g) then map fst g else map fst g ++ [k].
  Proof.
    unfold mem_str. induction g as [|[k0 vs] g IH]; cbn; auto.
    rewrite (cli_str_eqb_sym k k0). destruct (str_eqb k0 k); cbn; auto.
    rewrite IH. destruct (existsb (str_eqb k) (map fst g)); reflexivity.
  Qed.

  Lemma gi_lookup k (v : A) k' g :
    group_lookup k' (group_insert k v g) =
    if str_eqb k k' then group_lookup k' g ++ [v] else group_lookup k' g.
  Proof.
    induction g as [|[k0 vs] g IH]; cbn.
    - destruct (str_eqb k k'); reflexivity.
    - destruct (str_eqb k0 k) eqn:E0; cbn.
      + apply cli_str_eqb_eq in E0. subst k0. destruct (str_eqb k k'); reflexivity.
      + destruct (str_eqb k0 k') eqn:E1; auto.
        apply cli_str_eqb_eq in E1. subst k0. rewrite (cli_str_eqb_sym k k'), E0. reflexivity.
  Qed.

  Lemma group_plugs_snoc (l : list (str * A)) x :
    group_plugs (l ++ [x]) = group_insert (fst x) (snd x) (group_plugs l).
  Proof. unfold group_plugs. now rewrite fold_left_app. Qed.

  Lemma mem_first_occurrences k : forall m seen,
    mem_str k (first_occurrences seen m) = negb (mem_str k seen) && mem_str k m.
  Proof.
    induction m as [|x m IH]; intros seen; cbn [first_occurrences].
    - change (mem_str k []) with false. now rewrite andb_false_r.
    - rewrite (mem_str_cons k x m). destruct (mem_str x seen) eqn:Ex.
      + rewrite IH. destruct (str_eqb k x) eqn:E; cbn [orb]; auto.
        apply cli_str_eqb_eq in E. subst x. rewrite Ex. reflexivity.
      + rewrite mem_str_cons, IH, mem_str_cons. destruct (str_eqb k x) eqn:E; cbn [orb negb andb].
        * apply cli_str_eqb_eq in E. subst x. now rewrite Ex.
        * reflexivity.
  Qed.

  Lemma first_occurrences_snoc k : forall m seen,
    first_occurrences seen (m ++ [k]) =
    first_occurrences seen m ++ (if mem_str k seen || mem_str k m then [] else [k]).
  Proof.
    induction m as [|x m IH]; intros seen; cbn [first_occurrences app].
    - change (mem_str k []) with false. rewrite orb_false_r. destruct (mem_str k seen); reflexivity.
    - rewrite (mem_str_cons k x m). destruct (mem_str x seen) eqn:Ex.
      + rewrite IH. destruct (str_eqb k x) eqn:E; cbn [orb]; auto.
        apply cli_str_eqb_eq in E. subst x. rewrite Ex. reflexivity.
      + cbn [app]. rewrite IH, mem_str_cons. destruct (str_eqb k x); cbn [orb].
        * now rewrite orb_true_r.
        * reflexivity.
  Qed.

  Lemma group_plugs_keys (l : list (str * A)) :
    map fst (group_plugs l) = first_occurrences [] (map fst l).
  Proof.
    induction l as [|x l IH] using rev_ind; [reflexivity|].
    rewrite group_plugs_snoc, gi_keys, map_app, IH. cbn [map]. rewrite first_occurrences_snoc.
    rewrite mem_first_occurrences. change (mem_str (fst x) []) with false. cbn [negb andb orb].
    destruct (mem_str (fst x) (map fst l)); [now rewrite app_nil_r | reflexivity].
  Qed.

  Lemma group_plugs_lookup k (l : list (str * A)) : group_lookup k (group_plugs l) = members k l.
  Proof.
    unfold members. induction l as [|x l IH] using rev_ind; [reflexivity|].
    rewrite group_plugs_snoc, gi_lookup, filter_app, map_app, IH. cbn.
    destruct (str_eqb (fst x) k); cbn; [reflexivity | now rewrite app_nil_r].
  Qed.

  Lemma first_occurrences_nodup : forall m seen,
    NoDup (first_occurrences seen m) /\ forall x, In x (first_occurrences seen m) -> ~ In x seen.
  Proof.
    induction m as [|x m IH]; intros seen; cbn.
    - split; [constructor | tauto].
    - destruct (mem_str x seen) eqn:Ex; [apply IH|].
      destruct (IH (x :: seen)) as [ND Hn]. split.
      + constructor; auto. intros I. apply (Hn x I). now left.
      + intros y [<- | I].
        * intros I. apply mem_str_in in I. congruence.
        * intros I2. apply (Hn y I). now right.
  Qed.

  Lemma groups_as_lookup (g : list (str * list A)) :
    NoDup (map fst g) -> map (fun k => (k, group_lookup k g)) (map fst g) = g.
  Proof.
    induction g as [|[k0 vs] g IH]; cbn; auto. intros ND. inversion ND as [|? ? NI ND']; subst.
    rewrite cli_str_eqb_refl. f_equal. rewrite <- (IH ND') at 2. apply map_ext_in. intros k I.
    destruct (str_eqb k0 k) eqn:E; auto. apply cli_str_eqb_eq in E. subst. contradiction.
  Qed.
End Grouping.

Lemma one_ltb_of_nat n : (1 <? N.of_nat (S (S n))) = true.
Proof. apply N.ltb_lt. rewrite !Nat2N.inj_succ. lia. Qed.

Lemma reg_name_is_documented k n i r : reg_name k n i r = documented_name k n i r.
Proof.
  unfold reg_name, documented_name. change plug_prefix with documented_plug_prefix. change plug_index_suffix_when_multi with true.
  destruct n as [|[|n]].
  - cbn. now rewrite app_nil_r.
  - cbn. now rewrite app_nil_r.
  - rewrite one_ltb_of_nat. reflexivity.
Qed.

Lemma name_group_is_documented ks k :
  name_group (k, members k ks) = documented_group ks k.
Proof.
  unfold name_group, documented_group. cbn [fst snd]. apply map_ext. intros [i r]. cbn [fst snd].
  now rewrite reg_name_is_documented.
Qed.

(** The registration list in terms of the documented groups, for any iteration order. *)
Lemma registrations_shape hash_order ks :
  registrations hash_order ks =
  flat_map (documented_group ks)
           (match plug_grouping with
            | GroupInsertion => first_occurrences [] (map fst ks)
            | GroupHash => hash_order (first_occurrences [] (map fst ks))
            end).
Proof.
  unfold registrations, iteration_order.
  assert (forall l, flat_map name_group (map (fun k => (k, group_lookup k (group_plugs ks))) l)
                    = flat_map (documented_group ks) l) as Hl.
  { induction l as [|k l IH]; cbn [flat_map map]; auto.
    rewrite IH, group_plugs_lookup, name_group_is_documented. reflexivity. }
  destruct plug_grouping.
  - rewrite group_plugs_keys. apply Hl.
  - rewrite <- (groups_as_lookup (group_plugs ks)) at 1.
    + rewrite Hl, group_plugs_keys. reflexivity.
    + rewrite group_plugs_keys. apply first_occurrences_nodup.
Qed.

(** With an insertion-ordered container (or a hash order that happens to be the insertion order)
    the plugs are registered exactly as documented. *)
Theorem registrations_documented hash_order ks :
  plug_grouping = GroupInsertion \/ (forall l, hash_order l = l) ->
  registrations hash_order ks = documented_registrations ks.
Proof.
  intros H. rewrite registrations_shape. unfold documented_registrations.
  destruct plug_grouping; auto. destruct H as [H|H]; [discriminate | now rewrite H].
Qed.

(** Whatever the hash order, the same packages are registered under the same names. *)
Theorem registrations_permutation hash_order ks :
  (forall l, Permutation (hash_order l) l) ->
  Permutation (registrations hash_order ks) (documented_registrations ks).
Proof.
  intros H. rewrite registrations_shape. unfold documented_registrations.
  destruct plug_grouping; [apply Permutation_flat_map, H | reflexivity].
Qed.

(** ... but with a [HashMap] the ORDER of registration is not a function of the command line. *)
Theorem registrations_hash_dependent :
  plug_grouping = GroupHash ->
  exists ks h1 h2,
    (forall l, Permutation (h1 l) l) /\ (forall l, Permutation (h2 l) l) /\
    registrations h1 ks <> registrations h2 ks.
Proof.
  intros H.
  exists [([97], LocalPath [97;46;119]); ([98], LocalPath [98;46;119])], (fun l => l), (@rev str).
  split; [intros; reflexivity|]. split; [intros; symmetry; apply Permutation_rev|].
  rewrite !registrations_shape, H. vm_compute. discriminate.
Qed.

Definition stopped_o (o : outcome) : Prop := exists s, o = fail s \/ o = panic s.

Lemma stopped_exit o : stopped_o o -> exit_code o <> 0.
Proof. intros [s [-> | ->]]; [destruct s|]; discriminate. Qed.

(** * wac plug: the command *)

Section PlugProofs.
  Variables G Id : Type.
  Variable is_pkg_name : str -> bool.
  Variable hash_order : list str -> list str.
  Variable download : option str -> str -> option str -> sres str.
  Variable read_bin : str -> sres str.
  Variable g_new : G.
  Variable add_bytes : G -> str -> str -> sres (G * Id).
  Variable add_file : G -> str -> str -> sres (G * Id).
  Variable do_plug : G -> list Id -> Id -> sres G.
  Variable encode_g : G -> encode_opts -> sres str.
  Variable print_text : str -> sres str.
  Variable write_ok : str -> bool.
  Variable stdout_tty : bool.

  Notation run := (plug G Id is_pkg_name hash_order download read_bin g_new add_bytes add_file do_plug
                        encode_g print_text write_ok stdout_tty).
  Notation addp := (add_plugs G Id download add_file).
  Notation fetchp := (fetch download).
  Notation loc := (located download).
  Notation regd := (registered G Id download add_file).
  Notation pipeline := (plug_pipeline_ok G Id is_pkg_name download read_bin g_new add_bytes add_file do_plug encode_g).

  Lemma fetch_located reg r path : fetchp reg r = SOk path <-> loc reg r path.
  Proof. destruct r; cbn; [split; congruence | tauto]. Qed.

  Lemma add_plugs_success reg : forall l g acc k,
    o_status (addp reg g acc l k) = Success <->
    exists g2 ids, regd reg g l g2 ids /\ o_status (k g2 (rev acc ++ ids)) = Success.
  Proof.
    induction l as [|[name r] l IH]; intros g acc k; cbn [add_plugs].
    - split.
      + intros H. exists g, []. split; [constructor | now rewrite app_nil_r].
      + intros [g2 [ids [R H]]]. inversion R; subst. now rewrite app_nil_r in H.
    - rewrite bind_success. split.
      + intros [path [Ef H]]. rewrite bind_success in H. destruct H as [[g1 id] [Ea H]].
        apply IH in H. destruct H as [g2 [ids [R H]]]. exists g2, (id :: ids). split.
        * econstructor; eauto. now apply fetch_located.
        * cbn [rev fst snd] in H. now rewrite <- app_assoc in H.
      + intros [g2 [ids [R H]]]. inversion R as [|? ? ? ? path g1 id ? ids' L Ea R']; subst.
        exists path. split; [now apply fetch_located|]. rewrite bind_success. exists (g1, id). split; auto.
        apply IH. exists g2, ids'. split; auto. cbn [rev fst snd]. now rewrite <- app_assoc.
  Qed.

  Lemma add_plugs_clean reg : forall l g acc k,
    (forall g2 ids, clean (k g2 ids)) -> clean (addp reg g acc l k).
  Proof.
    induction l as [|[name r] l IH]; intros g acc k H; cbn [add_plugs]; auto.
    apply clean_bind. intros path. apply clean_bind. intros gi. now apply IH.
  Qed.

  Lemma add_plugs_cases reg : forall l g acc,
    (exists g2 ids, forall k, addp reg g acc l k = k g2 ids) \/
    (exists o, stopped_o o /\ forall k, addp reg g acc l k = o).
  Proof.
    induction l as [|[name r] l IH]; intros g acc; cbn [add_plugs].
    - left. eauto.
    - destruct (fetchp reg r) as [path| |]; cbn [bind];
        [ | right; eexists; split; [eexists; left; reflexivity | reflexivity]
          | right; eexists; split; [eexists; right; reflexivity | reflexivity] ].
      destruct (add_file g name path) as [[g1 id]| |]; cbn [bind];
        [ | right; eexists; split; [eexists; left; reflexivity | reflexivity]
          | right; eexists; split; [eexists; right; reflexivity | reflexivity] ].
      apply IH.
  Qed.

  Theorem plug_no_output_on_failure f :
    exit_code (run f) <> 0 -> o_stdout (run f) = [] /\ o_writes (run f) = [].
  Proof.
    intros H. assert (clean (run f)) as [C|C]; [|apply exit_zero_iff_success in C; contradiction | exact C].
    unfold plug. destruct (parse_pkg_refs _ _); [|apply clean_fail].
    destruct (parse_pkg_ref _ _); [|apply clean_fail]. destruct (is_nil _); [apply clean_fail|].
    apply clean_bind. intros sp. apply clean_bind. intros sb. apply clean_bind. intros gs.
    destruct (keyed _); [|apply clean_fail]. apply add_plugs_clean. intros g ids.
    apply clean_bind. intros g'. apply clean_bind. intros b.
    destruct (plug_terminal_guard _ _ _); [apply clean_fail | apply clean_emit].
  Qed.

  (** With an insertion-ordered container, exit 0 exactly when the documented library pipeline
      yields a component and the sink accepts it. *)
  Theorem plug_exit_zero_iff_pipeline_ok f :
    plug_grouping = GroupInsertion \/ (forall l, hash_order l = l) ->
    (exit_code (run f) = 0 <->
     exists b, pipeline f b /\ sink_ok print_text write_ok (psw_wat (pf_sw f)) (pf_output f) stdout_tty b).
  Proof.
    intros Ord. rewrite exit_zero_iff_success. unfold plug, sink_ok.
    destruct (parse_pkg_refs is_pkg_name (pf_plugs f)) as [plugs|] eqn:Ep;
      [|split; [discriminate | intros [b [P _]]; destruct P; congruence]].
    destruct (parse_pkg_ref is_pkg_name (pf_socket f)) as [socket|] eqn:Es;
      [|split; [discriminate | intros [b [P _]]; destruct P; congruence]].
    destruct (is_nil plugs) eqn:En.
    { split; [discriminate|]. intros [b [P _]]. destruct P as [plugs' ? ? ? ? ? ? ? ? ? Ep' Hne].
      rewrite Ep in Ep'. injection Ep' as <-. destruct plugs; [contradiction | discriminate]. }
    change plug_socket_name with documented_socket_name.
    split.
    - intros H. rewrite bind_success in H. destruct H as [spath [Ef H]].
      rewrite bind_success in H. destruct H as [sbytes [Er H]].
      rewrite bind_success in H. destruct H as [[g0 sid] [Ea H]]. cbn [fst snd] in H.
      destruct (keyed plugs) as [ks|] eqn:Ek; [|discriminate].
      apply add_plugs_success in H. destruct H as [g [ids [R H]]]. cbn [rev app] in H.
      rewrite bind_success in H. destruct H as [g' [Edp H]].
      rewrite bind_success in H. destruct H as [b [Ee H]].
      rewrite plug_guard_is_documented in H.
      destruct (refuses_terminal (psw_wat (pf_sw f)) (is_some (pf_output f)) stdout_tty) eqn:Gd; [discriminate|].
      apply emit_success in H. destruct H as [Rn Wk]. exists b. split; [|auto].
      rewrite (registrations_documented hash_order ks Ord) in R.
      eapply PlugOk; eauto.
      + intros ->. discriminate.
      + now apply fetch_located.
    - intros [b [P [Rn [Wk Gd]]]].
      destruct P as [plugs' socket' spath sbytes g0 sid ks g ids g' Ep' Hne Es' L Er Ea Ek R Edp Ee].
      rewrite Ep in Ep'. injection Ep' as <-. rewrite Es in Es'. injection Es' as <-.
      rewrite bind_success. exists spath. split; [now apply fetch_located|].
      rewrite bind_success. exists sbytes. split; auto.
      rewrite bind_success. exists (g0, sid). split; auto. cbn [fst snd]. rewrite Ek.
      apply add_plugs_success. exists g, ids. split.
      + now rewrite (registrations_documented hash_order ks Ord).
      + cbn [rev app]. rewrite bind_success. exists g'. split; auto.
        rewrite bind_success. exists b. split; [now rewrite plug_opts_is_documented|].
        rewrite plug_guard_is_documented, Gd. apply emit_success. auto.
  Qed.

  Definition pfront (f : plug_flags) (k : str -> outcome) : outcome :=
    match parse_pkg_refs is_pkg_name (pf_plugs f), parse_pkg_ref is_pkg_name (pf_socket f) with
    | Some plugs, Some socket =>
      if is_nil plugs then fail StUsage else
      bind (fetchp (pf_registry f) socket) StFetch (fun spath =>
      bind (read_bin spath) StSocketRead (fun sbytes =>
      bind (add_bytes g_new plug_socket_name sbytes) StSocketAdd (fun gs =>
      match keyed plugs with
      | None => fail StPlugName
      | Some ks =>
        addp (pf_registry f) (fst gs) [] (registrations hash_order ks) (fun g ids =>
        bind (do_plug g ids (snd gs)) StPlug (fun g' =>
        bind (encode_g g' (plug_opts (pf_sw f))) StEncode k))
      end)))
    | _, _ => fail StUsage
    end.

  Definition pback (sw : plug_sw) (output : option str) (b : str) : outcome :=
    if plug_terminal_guard sw (is_some output) stdout_tty then fail StTerminal
    else emit print_text write_ok (psw_wat sw) output b.

  Lemma plug_front_back f : run f = pfront f (pback (pf_sw f) (pf_output f)).
  Proof. reflexivity. Qed.

  Lemma pfront_cases f :
    (exists b, forall k, pfront f k = k b) \/ (exists o, stopped_o o /\ forall k, pfront f k = o).
  Proof.
    unfold pfront.
    destruct (parse_pkg_refs _ _) as [plugs|]; [|right; eexists; split; [eexists; left; reflexivity | reflexivity]].
    destruct (parse_pkg_ref _ _) as [socket|]; [|right; eexists; split; [eexists; left; reflexivity | reflexivity]].
    destruct (is_nil plugs); [right; eexists; split; [eexists; left; reflexivity | reflexivity]|].
    repeat match goal with
    | |- context[bind ?r _ _] =>
        destruct r; cbn [bind];
        [ | right; eexists; split; [eexists; left; reflexivity | reflexivity]
          | right; eexists; split; [eexists; right; reflexivity | reflexivity] ]
    end.
    destruct (keyed plugs) as [ks|]; [|right; eexists; split; [eexists; left; reflexivity | reflexivity]].
    match goal with |- context[addp ?reg ?g ?acc ?l _] =>
      destruct (add_plugs_cases reg l g acc) as [[g2 [ids H]] | [o [So H]]] end.
    - match type of H with forall k, add_plugs _ _ _ _ _ (fst ?gs) _ _ k = _ => rename gs into gsock end.
      destruct (do_plug g2 ids (snd gsock)) as [g'| |] eqn:Edp.
      + destruct (encode_g g' (plug_opts (pf_sw f))) as [b| |] eqn:Ee.
        * left. exists b. intros k. rewrite H. cbn [bind]. rewrite Edp. cbn [bind]. rewrite Ee. reflexivity.
        * right. exists (fail StEncode). split; [eexists; left; reflexivity|]. intros k.
          rewrite H. cbn [bind]. rewrite Edp. cbn [bind]. rewrite Ee. reflexivity.
        * right. exists (panic StEncode). split; [eexists; right; reflexivity|]. intros k.
          rewrite H. cbn [bind]. rewrite Edp. cbn [bind]. rewrite Ee. reflexivity.
      + right. exists (fail StPlug). split; [eexists; left; reflexivity|]. intros k.
        rewrite H. cbn [bind]. rewrite Edp. reflexivity.
      + right. exists (panic StPlug). split; [eexists; right; reflexivity|]. intros k.
        rewrite H. cbn [bind]. rewrite Edp. reflexivity.
    - right. exists o. split; auto.
  Qed.

  Theorem plug_o_equals_stdout f p :
    write_ok p = true ->
    refuses_terminal (psw_wat (pf_sw f)) false stdout_tty = false ->
    (exists out, run (with_poutput f (Some p)) = delivered (Some p) out (newline_after (psw_wat (pf_sw f))) /\
                 run (with_poutput f None) = delivered None out (newline_after (psw_wat (pf_sw f))))
    \/ (exit_code (run (with_poutput f (Some p))) <> 0 /\ run (with_poutput f None) = run (with_poutput f (Some p))).
  Proof.
    intros Wk Gd. rewrite !plug_front_back.
    change (pfront (with_poutput f (Some p))) with (pfront f). change (pfront (with_poutput f None)) with (pfront f).
    cbn [with_poutput pf_sw pf_output].
    destruct (pfront_cases f) as [[b Hb] | [o [So Hk]]].
    - rewrite !Hb. unfold pback. rewrite !plug_guard_is_documented. cbn [is_some]. rewrite Gd.
      assert (refuses_terminal (psw_wat (pf_sw f)) true stdout_tty = false) as -> by (destruct (psw_wat (pf_sw f)); reflexivity).
      rewrite !emit_delivered by (intros q E; congruence).
      destruct (if psw_wat (pf_sw f) then print_text b else SOk b) as [out| |].
      + left. exists out. split; reflexivity.
      + right. split; [discriminate | reflexivity].
      + right. split; [discriminate | reflexivity].
    - rewrite !Hk. right. split; [now apply stopped_exit | reflexivity].
  Qed.

  Theorem plug_t_prints_same_component f :
    refuses_terminal false (is_some (pf_output f)) stdout_tty = false ->
    (forall p, pf_output f = Some p -> write_ok p = true) ->
    (exists b, run (with_pwat f false) = delivered (pf_output f) b [] /\
               run (with_pwat f true) = match print_text b with
                                        | SOk t => delivered (pf_output f) t [10]
                                        | SErr => fail StPrint
                                        | SPanic => panic StPrint
                                        end)
    \/ (exit_code (run (with_pwat f false)) <> 0 /\ run (with_pwat f true) = run (with_pwat f false)).
  Proof.
    intros Gd Wk. rewrite !plug_front_back.
    change (pfront (with_pwat f true)) with (pfront (with_pwat f false)).
    cbn [with_pwat pf_sw pf_output].
    destruct (pfront_cases (with_pwat f false)) as [[b Hb] | [o [So Hk]]].
    - rewrite !Hb. unfold pback. rewrite !plug_guard_is_documented. cbn [psw_wat]. rewrite Gd.
      cbn [refuses_terminal]. rewrite !emit_delivered by exact Wk. left. exists b. split; reflexivity.
    - rewrite !Hk. right. split; [now apply stopped_exit | reflexivity].
  Qed.
End PlugProofs.

(** * wac targets *)

Lemma assoc_filter_notin {A} (p : str * A -> bool) n (l : list (str * A)) :
  ~ In n (map fst l) -> assoc_str n (filter p l) = None.
Proof.
  induction l as [|[k e] l IH]; cbn; auto. intros N.
  assert (assoc_str n (filter p l) = None) as IH' by (apply IH; tauto).
  destruct (p (k, e)); auto. cbn. destruct (str_eqb k n) eqn:E; auto.
  apply cli_str_eqb_eq in E. subst. exfalso. apply N. now left.
Qed.

Section TargetsProofs.
  Variables W C : Type.
  Variable wit_encode : str -> sres str.
  Variable wit_decode : str -> sres (list (str * wit_export W)).
  Variable read_bin : str -> sres str.
  Variable comp_decode : str -> sres C.
  Variable validate_t : W -> C -> sres unit.
  Notation run := (targets W C wit_encode wit_decode read_bin comp_decode validate_t).

  Theorem targets_exit_zero_iff f :
    exit_code (run f) = 0 <->
    exists wb exports cb c w,
      wit_encode (tf_wit f) = SOk wb /\ wit_decode wb = SOk exports /\
      read_bin (tf_component f) = SOk cb /\ comp_decode cb = SOk c /\
      select_world exports (tf_world f) = Some w /\ validate_t w c = SOk tt.
  Proof.
    rewrite exit_zero_iff_success. unfold targets. split.
    - intros H. rewrite bind_success in H. destruct H as [wb [E1 H]].
      rewrite bind_success in H. destruct H as [ex [E2 H]].
      rewrite bind_success in H. destruct H as [cb [E3 H]].
      rewrite bind_success in H. destruct H as [c [E4 H]].
      destruct (select_world ex (tf_world f)) as [w|] eqn:E5; [|discriminate].
      rewrite bind_success in H. destruct H as [[] [E6 _]]. exists wb, ex, cb, c, w. auto 10.
    - intros [wb [ex [cb [c [w [E1 [E2 [E3 [E4 [E5 E6]]]]]]]]]].
      rewrite E1. cbn. rewrite E2. cbn. rewrite E3. cbn. rewrite E4. cbn. rewrite E5, E6. reflexivity.
  Qed.

  Theorem targets_never_writes f : o_stdout (run f) = [] /\ o_writes (run f) = [].
  Proof.
    unfold targets.
    repeat match goal with
    | |- context[bind ?r _ _] => destruct r; cbn [bind]; try (split; reflexivity)
    | |- context[match select_world ?e ?w with _ => _ end] => destruct (select_world e w); try (split; reflexivity)
    end.
  Qed.
End TargetsProofs.

(** `--world NAME` selects the world of that name (export names of a package are unique). *)
Theorem targets_named_world_documented {W} (exports : list (str * wit_export W)) n :
  NoDup (map fst exports) ->
  select_world exports (Some n) = documented_world exports (Some n).
Proof.
  unfold select_world, documented_world, worlds_of.
  induction exports as [|[k e] l IH]; cbn; auto. intros ND. inversion ND as [|? ? NI ND']; subst.
  destruct (str_eqb k n) eqn:E.
  - apply cli_str_eqb_eq in E. subst k. destruct e; cbn; rewrite ?cli_str_eqb_refl; auto.
    now rewrite assoc_filter_notin.
  - destruct (is_world_export e); cbn; rewrite ?E; auto.
Qed.

(** Without `--world`: the only world is selected, PROVIDED the selection looks at worlds only
    (or the package exports nothing but worlds). *)
Theorem targets_default_world_documented {W} (exports : list (str * wit_export W)) :
  targets_default_counts_all_exports = false \/ forallb (fun e => is_world_export (snd e)) exports = true ->
  select_world exports None = documented_world exports None.
Proof.
  unfold select_world, documented_world, default_candidates, worlds_of.
  (* uniform in the generated constant *)
  generalize targets_default_counts_all_exports as flag. intros flag H.
  assert (flag = false \/ filter (fun e => is_world_export (snd e)) exports = exports) as Hf.
  { destruct H as [H|H]; [left; exact H | right].
    induction exports as [|x l IH]; cbn in *; [reflexivity|].
    apply andb_true_iff in H. destruct H as [-> H]. now rewrite IH. }
  destruct flag.
  - destruct Hf as [Hf | ->]; [discriminate|].
    destruct exports as [|[k e] [|? ?]]; [reflexivity | destruct e; reflexivity | destruct e; reflexivity].
  - destruct (filter _ exports) as [|[k e] [|? ?]]; [reflexivity | destruct e; reflexivity | destruct e; reflexivity].
Qed.

(** The documented default fails as soon as the WIT package also has an interface: the code
    counts every export of the encoded package, not only the worlds. *)
Theorem targets_default_world_refuted :
  targets_default_counts_all_exports = true ->
  exists (exports : list (str * wit_export unit)),
    NoDup (map fst exports) /\ documented_world exports None = Some tt /\ select_world exports None = None.
Proof.
  intros H. exists [([97], EOther); ([119], EWorld tt)]. split.
  - repeat constructor; cbn; intuition discriminate.
  - unfold select_world, default_candidates. rewrite H. split; reflexivity.
Qed.

(** * README examples against the generated flag table *)

Lemma readme_examples_accepted_or_known_lemma :
  forallb (fun e => accepts cli_flags e || argv_eqb e readme_targets_example) readme_examples = true.
Proof. vm_compute. reflexivity. Qed.

Lemma readme_targets_example_rejected : accepts cli_flags readme_targets_example = false.
Proof. vm_compute. reflexivity. Qed.

Lemma guard_positions : compose_guard_before_encode = true /\ plug_guard_before_encode = false.
Proof. split; reflexivity. Qed.

(** * The literal reading of "-o writes exactly the bytes otherwise sent to stdout" *)
Lemma o_equals_stdout_literal_counterexample :
  exists (pt : str -> sres str) (wo : str -> bool) b p out,
    emit pt wo true (Some p) b = delivered (Some p) out [] /\
    o_stdout (emit pt wo true None b) <> out.
Proof.
  exists (fun _ => SOk [40]), (fun _ => true), [0], [111], [40]. split; [reflexivity|]. cbn. discriminate.
Qed.
