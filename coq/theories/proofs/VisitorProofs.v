(** Proofs for C17: package discovery ([Visitor.v]) against the resolver's package requests
    ([ResolveSkel.v]).

    Both traversals are flattened: the visitor into the list of callback events it would deliver in
    order ([ev_document]; [visitor_flat] shows that [gvisit] with ANY callback is the interpretation
    of that list, early stops and the self-[new] error included), the resolver by construction
    ([actions]).  The theorems then compare the two lists. *)
From WacV Require Import Str Token Lexer Semver Ast Visitor ResolveSkel SemverProofs.

(** * Decidable equality on keys *)
Lemma version_eqb_eq a b : version_eqb a b = true <-> a = b.
Proof.
  destruct a as [a1 a2 a3 a4 a5], b as [b1 b2 b3 b4 b5]. unfold version_eqb. cbn [major minor patch pre build].
  rewrite !andb_true_iff, !N.eqb_eq, !str_eqb_eq. split.
  - intros [[[[-> ->] ->] ->] ->]. reflexivity.
  - intros H. injection H as -> -> -> -> ->. auto.
Qed.

Lemma oversion_eqb_eq a b : oversion_eqb a b = true <-> a = b.
Proof.
  destruct a as [a|], b as [b|]; cbn; try (split; congruence).
  rewrite version_eqb_eq. split; congruence.
Qed.

Lemma pkgkey_eqb_eq a b : pkgkey_eqb a b = true <-> a = b.
Proof.
  destruct a as [an av], b as [bn bv]. unfold pkgkey_eqb. cbn [fst snd].
  rewrite andb_true_iff, str_eqb_eq, oversion_eqb_eq. split.
  - intros [-> ->]. reflexivity.
  - intros H. injection H as -> ->. auto.
Qed.

Lemma pkgkey_eqb_refl a : pkgkey_eqb a a = true.
Proof. now apply pkgkey_eqb_eq. Qed.

Lemma pkgkey_eqb_false a b : pkgkey_eqb a b = false <-> a <> b.
Proof.
  split.
  - intros H E. apply pkgkey_eqb_eq in E. congruence.
  - intros H. destruct (pkgkey_eqb a b) eqn:E; auto. apply pkgkey_eqb_eq in E. contradiction.
Qed.

(** * Induction over expressions (mutual, with the nested argument list) *)
Section ExprInd.
  Variables (P : expr -> Prop) (Q : primary_expr -> Prop) (R : inst_arg -> Prop).
  Hypothesis HExpr : forall sp p post, Q p -> P (Expr sp p post).
  Hypothesis HNew : forall sp pkg args, Forall R args -> Q (PNew sp pkg args).
  Hypothesis HNested : forall sp e, P e -> Q (PNested sp e).
  Hypothesis HIdent : forall i, Q (PIdent i).
  Hypothesis HInferred : forall i, R (AInferred i).
  Hypothesis HSpread : forall i, R (ASpread i).
  Hypothesis HNamed : forall n e, P e -> R (ANamed n e).
  Hypothesis HFill : forall sp, R (AFill sp).

  Fixpoint expr_ind' (e : expr) {struct e} : P e :=
    match e with
    | Expr sp p post => HExpr sp p post (primary_ind' p)
    end
  with primary_ind' (p : primary_expr) {struct p} : Q p :=
    match p with
    | PNew sp pkg args =>
        HNew sp pkg args
          ((fix go (l : list inst_arg) : Forall R l :=
              match l with
              | [] => Forall_nil R
              | a :: r => Forall_cons a (arg_ind' a) (go r)
              end) args)
    | PNested sp e => HNested sp e (expr_ind' e)
    | PIdent i => HIdent i
    end
  with arg_ind' (a : inst_arg) {struct a} : R a :=
    match a with
    | AInferred i => HInferred i
    | ASpread i => HSpread i
    | ANamed n e => HNamed n e (expr_ind' e)
    | AFill sp => HFill sp
    end.
End ExprInd.

(** * The visitor's events, in delivery order *)
Inductive vevent : Set :=
| VRef (name : str) (v : option version) (sp : span)      (* a package path *)
| VNew (pkg : package_name).                              (* a [new]: self check, then callback *)

Definition ev_name (ev : vevent) : str :=
  match ev with VRef n _ _ => n | VNew pkg => pn_name pkg end.
Definition ev_key (ev : vevent) : pkgkey :=
  match ev with VRef n v _ => (n, v) | VNew pkg => (pn_name pkg, pn_version pkg) end.
Definition ev_span (ev : vevent) : span :=
  match ev with VRef _ _ sp => sp | VNew pkg => pn_span pkg end.

Definition ev_path (p : package_path) : list vevent := [VRef (pp_name p) (pp_version p) (name_span p)].
Definition ev_use (u : use_decl) : list vevent :=
  match u_path u with UPPackage p => ev_path p | UPIdent _ => [] end.
Definition ev_interface_item (it : interface_item) : list vevent :=
  match it with IIUse u => ev_use u | _ => [] end.
Definition ev_world_item_path (p : world_item_path) : list vevent :=
  match p with
  | WPNamed _ (ETInterface items) => flat_map ev_interface_item items
  | WPPackage p => ev_path p
  | _ => []
  end.
Definition ev_world_item (it : world_item) : list vevent :=
  match it with
  | WIUse u => ev_use u
  | WIType _ => []
  | WIImport _ p => ev_world_item_path p
  | WIExport _ p => ev_world_item_path p
  | WIInclude _ (WRPackage p) _ => ev_path p
  | WIInclude _ (WRIdent _) _ => []
  end.
Definition ev_import (t : import_type) : list vevent :=
  match t with
  | ITPackage p => ev_path p
  | ITInterface items => flat_map ev_interface_item items
  | _ => []
  end.
Definition ev_type_statement (t : type_statement) : list vevent :=
  match t with
  | TSInterface _ _ items => flat_map ev_interface_item items
  | TSWorld _ _ items => flat_map ev_world_item items
  | TSType _ => []
  end.

Fixpoint ev_expr (e : expr) {struct e} : list vevent :=
  match e with Expr _ p _ => ev_primary p end
with ev_primary (p : primary_expr) {struct p} : list vevent :=
  match p with
  | PNew _ pkg args =>
      VNew pkg :: (fix go (l : list inst_arg) : list vevent :=
                     match l with [] => [] | a :: r => ev_arg a ++ go r end) args
  | PNested _ inner => ev_expr inner
  | PIdent _ => []
  end
with ev_arg (a : inst_arg) {struct a} : list vevent :=
  match a with
  | ANamed _ e => ev_expr e
  | _ => []
  end.

Fixpoint ev_args (l : list inst_arg) : list vevent :=
  match l with [] => [] | a :: r => ev_arg a ++ ev_args r end.

Definition ev_statement (st : statement) : list vevent :=
  match st with
  | SImport _ _ _ t => ev_import t
  | SType t => ev_type_statement t
  | SLet _ _ e => ev_expr e
  | SExport _ e _ => ev_expr e
  end.

Definition ev_document (d : document) : list vevent :=
  match pd_targets (doc_directive d) with Some t => ev_path t | None => [] end
  ++ flat_map ev_statement (doc_statements d).

Lemma ev_primary_new sp pkg args : ev_primary (PNew sp pkg args) = VNew pkg :: ev_args args.
Proof. reflexivity. Qed.

(** * Interpretation of an event list with an arbitrary callback *)
Section Interp.
  Context {S : Type}.
  Variable cb : S -> str -> option version -> span -> S * bool.
  Variable this : str.

  Definition ev_step (s : S) (ev : vevent) : vres (S * bool) :=
    match ev with
    | VRef n v sp => VOk (cb s n v sp)
    | VNew pkg =>
        if str_eqb (pn_name pkg) this then VErr (CannotInstantiateSelf (pn_span pkg))
        else VOk (cb s (pn_name pkg) (pn_version pkg) (pn_span pkg))
    end.

  Definition andthen (x : vres (S * bool)) (k : S -> vres (S * bool)) : vres (S * bool) :=
    match x with
    | VErr e => VErr e
    | VOk (s1, true) => k s1
    | VOk (s1, false) => VOk (s1, false)
    end.

  Fixpoint interp (s : S) (evs : list vevent) : vres (S * bool) :=
    match evs with
    | [] => VOk (s, true)
    | ev :: r => andthen (ev_step s ev) (fun s1 => interp s1 r)
    end.

  Lemma interp_app s a b : interp s (a ++ b) = andthen (interp s a) (fun s1 => interp s1 b).
  Proof.
    revert s; induction a as [|ev a IH]; intros s; cbn [app interp]; [reflexivity|].
    destruct (ev_step s ev) as [[s1 [|]]|e]; cbn [andthen]; auto.
  Qed.

  Lemma interp_one_ref s n v sp : interp s [VRef n v sp] = VOk (cb s n v sp).
  Proof. cbn. destruct (cb s n v sp) as [s1 [|]]; reflexivity. Qed.

  Lemma cb_path_flat s p : VOk (cb_path cb s p) = interp s (ev_path p).
  Proof. unfold ev_path, cb_path. now rewrite interp_one_ref. Qed.

  Lemma v_all_flat {A} (f : S -> A -> S * bool) (g : A -> list vevent) :
    (forall s x, VOk (f s x) = interp s (g x)) ->
    forall l s, VOk (v_all f s l) = interp s (flat_map g l).
  Proof.
    intros H. induction l as [|x r IH]; intros s; cbn [v_all flat_map]; [reflexivity|].
    rewrite interp_app, <- H. destruct (f s x) as [s1 [|]]; cbn [andthen]; auto.
  Qed.

  Lemma v_use_flat s u : VOk (v_use cb s u) = interp s (ev_use u).
  Proof. unfold v_use, ev_use. destruct (u_path u); [apply cb_path_flat | reflexivity]. Qed.

  Lemma v_interface_item_flat s it : VOk (v_interface_item cb s it) = interp s (ev_interface_item it).
  Proof. destruct it; cbn [v_interface_item ev_interface_item]; [apply v_use_flat | reflexivity..]. Qed.

  Lemma v_world_item_path_flat s p : VOk (v_world_item_path cb s p) = interp s (ev_world_item_path p).
  Proof.
    destruct p as [id t|p|i]; cbn [v_world_item_path ev_world_item_path].
    - destruct t; try reflexivity. apply v_all_flat. intros; apply v_interface_item_flat.
    - apply cb_path_flat.
    - reflexivity.
  Qed.

  Lemma v_world_item_flat s it : VOk (v_world_item cb s it) = interp s (ev_world_item it).
  Proof.
    destruct it as [u|t|docs p|docs p|docs w items]; cbn [v_world_item ev_world_item].
    - apply v_use_flat.
    - reflexivity.
    - apply v_world_item_path_flat.
    - apply v_world_item_path_flat.
    - destruct w; [reflexivity | apply cb_path_flat].
  Qed.

  Lemma v_import_flat s t : VOk (v_import_statement cb s t) = interp s (ev_import t).
  Proof.
    destruct t; cbn [v_import_statement ev_import]; try reflexivity.
    - apply cb_path_flat.
    - apply v_all_flat. intros; apply v_interface_item_flat.
  Qed.

  Lemma v_type_statement_flat s t : VOk (v_type_statement cb s t) = interp s (ev_type_statement t).
  Proof.
    destruct t; cbn [v_type_statement ev_type_statement]; try reflexivity.
    - apply v_all_flat. intros; apply v_interface_item_flat.
    - apply v_all_flat. intros; apply v_world_item_flat.
  Qed.

  Lemma v_expr_flat : forall e s, v_expr cb this s e = interp s (ev_expr e).
  Proof.
    apply (expr_ind' (fun e => forall s, v_expr cb this s e = interp s (ev_expr e))
                     (fun p => forall s, v_primary cb this s p = interp s (ev_primary p))
                     (fun a => forall s, v_arg cb this s a = interp s (ev_arg a))).
    - intros sp p post IH s. exact (IH s).
    - intros sp pkg args IH s. rewrite ev_primary_new. cbn [v_primary interp ev_step].
      destruct (str_eqb (pn_name pkg) this); [reflexivity|].
      destruct (cb s (pn_name pkg) (pn_version pkg) (pn_span pkg)) as [s1 [|]]; cbn [andthen]; [|reflexivity].
      revert s1. induction IH as [|a r Ha _ IHr]; intros s1; [reflexivity|].
      cbn [ev_args]. rewrite interp_app, Ha.
      destruct (interp s1 (ev_arg a)) as [[s2 [|]]|err]; cbn [andthen]; auto.
    - intros sp e IH s. exact (IH s).
    - reflexivity.
    - reflexivity.
    - reflexivity.
    - intros n e IH s. exact (IH s).
    - reflexivity.
  Qed.

  Lemma v_statement_flat s st : v_statement cb this s st = interp s (ev_statement st).
  Proof.
    destruct st; cbn [v_statement ev_statement].
    - apply v_import_flat.
    - apply v_type_statement_flat.
    - apply v_expr_flat.
    - apply v_expr_flat.
  Qed.

  Lemma v_statements_flat l : forall s, v_statements cb this s l = interp s (flat_map ev_statement l).
  Proof.
    induction l as [|st r IH]; intros s; cbn [v_statements flat_map]; [reflexivity|].
    rewrite interp_app, v_statement_flat.
    destruct (interp s (ev_statement st)) as [[s1 [|]]|e]; cbn [andthen]; auto.
  Qed.
End Interp.

(** [PackageVisitor::visit] with any callback is the interpretation of the event list. *)
Theorem visitor_flat {S : Type} (cb : S -> str -> option version -> span -> S * bool) s d :
  gvisit cb s d = interp cb (own_name d) s (ev_document d).
Proof.
  unfold gvisit, ev_document, own_name. rewrite interp_app.
  destruct (pd_targets (doc_directive d)) as [t|].
  - rewrite <- cb_path_flat. destruct (cb_path cb s t) as [s1 [|]]; cbn [andthen]; [|reflexivity].
    apply v_statements_flat.
  - cbn [interp andthen]. apply v_statements_flat.
Qed.

(** * The closure of [packages()] *)
Definition is_self_new (own : str) (ev : vevent) : bool :=
  match ev with VNew pkg => str_eqb (pn_name pkg) own | VRef _ _ _ => false end.

Fixpoint first_self_new (own : str) (evs : list vevent) : option span :=
  match evs with
  | [] => None
  | ev :: r => if is_self_new own ev then Some (ev_span ev) else first_self_new own r
  end.

Definition ins (own : str) (m : keymap) (ev : vevent) : keymap :=
  if str_eqb (ev_name ev) own then m else km_insert m (ev_key ev) (ev_span ev).

Lemma interp_pk own evs : forall m,
  interp (pk_cb own) own m evs =
  match first_self_new own evs with
  | Some sp => VErr (CannotInstantiateSelf sp)
  | None => VOk (fold_left (ins own) evs m, true)
  end.
Proof.
  induction evs as [|ev r IH]; intros m; cbn [interp first_self_new fold_left]; [reflexivity|].
  destruct ev as [n v sp|pkg]; cbn [ev_step is_self_new].
  - unfold pk_cb at 1, ins at 2. cbn [ev_name ev_key ev_span].
    destruct (str_eqb n own); cbn [andthen]; apply IH.
  - destruct (str_eqb (pn_name pkg) own) eqn:E; [reflexivity|].
    unfold pk_cb at 1, ins at 2. cbn [ev_name ev_key ev_span]. rewrite E. cbn [andthen]. apply IH.
Qed.

Lemma packages_flat d :
  packages d =
  match first_self_new (own_name d) (ev_document d) with
  | Some sp => VErr (CannotInstantiateSelf sp)
  | None => VOk (fold_left (ins (own_name d)) (ev_document d) [])
  end.
Proof.
  unfold packages. rewrite visitor_flat, interp_pk.
  destruct (first_self_new (own_name d) (ev_document d)); reflexivity.
Qed.

(** ** The insertion-ordered map *)
Lemma km_insert_keys m k sp k0 :
  In k0 (map fst (km_insert m k sp)) <-> In k0 (map fst m) \/ k0 = k.
Proof.
  induction m as [|[k' sp'] r IH]; cbn [km_insert map fst In].
  - intuition.
  - destruct (pkgkey_eqb k' k) eqn:E; cbn [map fst In].
    + apply pkgkey_eqb_eq in E. subst k'. intuition.
    + rewrite IH. intuition.
Qed.

Lemma km_insert_nodup m k sp : NoDup (map fst m) -> NoDup (map fst (km_insert m k sp)).
Proof.
  induction m as [|[k' sp'] r IH]; cbn [km_insert map fst]; intros H.
  - constructor; [intros [] | constructor].
  - destruct (pkgkey_eqb k' k) eqn:E; cbn [map fst]; [exact H|].
    inversion H as [|? ? Hn Hr]; subst. constructor; [|auto].
    intros Hin. apply km_insert_keys in Hin as [Hin|Hin]; [contradiction|].
    apply pkgkey_eqb_false in E. congruence.
Qed.

(** The keys an event list contributes: every event not naming the own package. *)
Definition foreign (own : str) (ev : vevent) : bool := negb (str_eqb (ev_name ev) own).
Definition ev_keys (own : str) (evs : list vevent) : list pkgkey := map ev_key (filter (foreign own) evs).

Lemma fold_ins_keys own evs : forall m k,
  In k (map fst (fold_left (ins own) evs m)) <-> In k (map fst m) \/ In k (ev_keys own evs).
Proof.
  induction evs as [|ev r IH]; intros m k; cbn [fold_left].
  - unfold ev_keys; cbn. intuition.
  - rewrite IH. unfold ev_keys, ins, foreign. cbn [filter].
    destruct (str_eqb (ev_name ev) own); cbn [negb map In].
    + reflexivity.
    + rewrite km_insert_keys. intuition.
Qed.

Lemma fold_ins_nodup own evs : forall m, NoDup (map fst m) -> NoDup (map fst (fold_left (ins own) evs m)).
Proof.
  induction evs as [|ev r IH]; intros m H; cbn [fold_left]; [exact H|].
  apply IH. unfold ins. destruct (str_eqb (ev_name ev) own); [exact H | now apply km_insert_nodup].
Qed.

Lemma visit_ok_inv d ks :
  visit d = VOk ks ->
  first_self_new (own_name d) (ev_document d) = None /\
  ks = map fst (fold_left (ins (own_name d)) (ev_document d) []).
Proof.
  unfold visit. rewrite packages_flat.
  destruct (first_self_new (own_name d) (ev_document d)); [discriminate|].
  intros H. injection H as <-. auto.
Qed.

Lemma visit_keys d ks : visit d = VOk ks -> forall k, In k ks <-> In k (ev_keys (own_name d) (ev_document d)).
Proof.
  intros H k. apply visit_ok_inv in H as [_ ->]. rewrite fold_ins_keys. cbn. intuition.
Qed.

(** ** Membership in [ev_keys] *)
Lemma ev_keys_app own a b : ev_keys own (a ++ b) = ev_keys own a ++ ev_keys own b.
Proof. unfold ev_keys. now rewrite filter_app, map_app. Qed.

Lemma ev_keys_flat_map {A} own (g : A -> list vevent) l k :
  In k (ev_keys own (flat_map g l)) <-> exists x, In x l /\ In k (ev_keys own (g x)).
Proof.
  induction l as [|x r IH]; cbn [flat_map].
  - cbn. split; [intros [] | intros [x [[] _]]].
  - rewrite ev_keys_app, in_app_iff, IH. split.
    + intros [H|[y [Hy H]]]; [exists x | exists y]; cbn; auto.
    + intros [y [[<-|Hy] H]]; [left | right; exists y]; auto.
Qed.

Lemma ev_keys_name own evs k : In k (ev_keys own evs) -> fst k <> own.
Proof.
  unfold ev_keys. rewrite in_map_iff. intros [ev [<- Hin]]. apply filter_In in Hin as [_ Hf].
  unfold foreign in Hf. apply negb_true_iff, str_eqb_neq in Hf. destruct ev; exact Hf.
Qed.

(** * Requests of the resolver skeleton *)
Lemma reqs_app_in k a b : In k (reqs (a ++ b)) -> In k (reqs a) \/ In k (reqs b).
Proof.
  induction a as [|[n v sp|n sp] a IH]; cbn [app reqs]; auto; [].
  intros [H|H]; [left; now left|]. apply IH in H as [H|H]; [left; now right | now right].
Qed.

Lemma reqs_flat_map_in {A} k (f : A -> list action) l :
  In k (reqs (flat_map f l)) -> exists x, In x l /\ In k (reqs (f x)).
Proof.
  induction l as [|x r IH]; cbn [flat_map]; [intros []|].
  intros H. apply reqs_app_in in H as [H|H].
  - exists x; cbn; auto.
  - apply IH in H as [y [Hy H]]. exists y; cbn; auto.
Qed.

Section Incl.
  Variable own : str.
  Notation Kin k evs := (In k (ev_keys own evs)).

  Lemma rs_path_in k p : In k (reqs (rs_path own p)) -> Kin k (ev_path p).
  Proof.
    unfold rs_path, ev_path, ev_keys, foreign. cbn [filter ev_name].
    destruct (str_eqb (pp_name p) own); cbn; auto.
  Qed.

  Lemma rs_use_in k u : In k (reqs (rs_use own u)) -> Kin k (ev_use u).
  Proof. unfold rs_use, ev_use. destruct (u_path u); [apply rs_path_in | intros []]. Qed.

  Lemma rs_interface_item_in k it : In k (reqs (rs_interface_item own it)) -> Kin k (ev_interface_item it).
  Proof. destruct it; cbn [rs_interface_item ev_interface_item]; [apply rs_use_in | intros [] ..]. Qed.

  Lemma rs_interface_items_in k items :
    In k (reqs (rs_interface_items own items)) -> Kin k (flat_map ev_interface_item items).
  Proof.
    unfold rs_interface_items. intros H. apply reqs_flat_map_in in H as [x [Hx H]].
    apply ev_keys_flat_map. exists x. split; [exact Hx | now apply rs_interface_item_in].
  Qed.

  Lemma rs_world_item_path_in k p : In k (reqs (rs_world_item_path own p)) -> Kin k (ev_world_item_path p).
  Proof.
    destruct p as [id t|p|i]; cbn [rs_world_item_path ev_world_item_path].
    - destruct t; try (intros []). apply rs_interface_items_in.
    - apply rs_path_in.
    - intros [].
  Qed.

  Lemma rs_world_item_now_in k it : In k (reqs (rs_world_item_now own it)) -> Kin k (ev_world_item it).
  Proof.
    destruct it as [u|t|docs p|docs p|docs w items]; cbn [rs_world_item_now ev_world_item].
    - apply rs_use_in.
    - intros [].
    - apply rs_world_item_path_in.
    - apply rs_world_item_path_in.
    - intros [].
  Qed.

  Lemma rs_world_item_later_in k it : In k (reqs (rs_world_item_later own it)) -> Kin k (ev_world_item it).
  Proof.
    destruct it as [u|t|docs p|docs p|docs w items]; cbn [rs_world_item_later ev_world_item]; try (intros []).
    destruct w; [intros [] | apply rs_path_in].
  Qed.

  Lemma rs_world_items_in k items :
    In k (reqs (rs_world_items own items)) -> Kin k (flat_map ev_world_item items).
  Proof.
    unfold rs_world_items. intros H. apply ev_keys_flat_map.
    apply reqs_app_in in H as [H|H]; apply reqs_flat_map_in in H as [x [Hx H]]; exists x; split; auto.
    - now apply rs_world_item_now_in.
    - now apply rs_world_item_later_in.
  Qed.

  Lemma rs_import_in k t : In k (reqs (rs_import own t)) -> Kin k (ev_import t).
  Proof.
    destruct t; cbn [rs_import ev_import]; try (intros []).
    - apply rs_path_in.
    - apply rs_interface_items_in.
  Qed.

  Lemma rs_type_statement_in k t : In k (reqs (rs_type_statement own t)) -> Kin k (ev_type_statement t).
  Proof.
    destruct t; cbn [rs_type_statement ev_type_statement]; try (intros []).
    - apply rs_interface_items_in.
    - apply rs_world_items_in.
  Qed.

  Fixpoint rs_args (l : list inst_arg) : list action :=
    match l with [] => [] | a :: r => rs_arg own a ++ rs_args r end.

  Lemma rs_primary_new sp pkg args :
    rs_primary own (PNew sp pkg args) =
    if str_eqb (pn_name pkg) own then [ASelfNew (pn_name pkg) (pn_span pkg)]
    else AReq (pn_name pkg) (pn_version pkg) (pn_span pkg) :: rs_args args.
  Proof.
    cbn. destruct (str_eqb (pn_name pkg) own); reflexivity.
  Qed.

  Lemma rs_expr_in : forall e k, In k (reqs (rs_expr own e)) -> Kin k (ev_expr e).
  Proof.
    apply (expr_ind' (fun e => forall k, In k (reqs (rs_expr own e)) -> Kin k (ev_expr e))
                     (fun p => forall k, In k (reqs (rs_primary own p)) -> Kin k (ev_primary p))
                     (fun a => forall k, In k (reqs (rs_arg own a)) -> Kin k (ev_arg a))).
    - intros sp p post IH k. exact (IH k).
    - intros sp pkg args IH k. rewrite rs_primary_new, ev_primary_new.
      change (VNew pkg :: ev_args args) with ([VNew pkg] ++ ev_args args).
      rewrite ev_keys_app, in_app_iff. unfold ev_keys at 1, foreign. cbn [filter ev_name].
      destruct (str_eqb (pn_name pkg) own); [intros []|]. cbn [negb map ev_key reqs].
      intros [<-|H]; [left; now left|]. right.
      induction IH as [|a r Ha _ IHr]; [destruct H|].
      cbn [rs_args ev_args] in *. rewrite ev_keys_app, in_app_iff.
      apply reqs_app_in in H as [H|H]; auto.
    - intros sp e IH k. exact (IH k).
    - intros i k [].
    - intros i k [].
    - intros i k [].
    - intros n e IH k. exact (IH k).
    - intros sp k [].
  Qed.

  Lemma rs_statement_in k st : In k (reqs (rs_statement own st)) -> Kin k (ev_statement st).
  Proof.
    destruct st; cbn [rs_statement ev_statement].
    - apply rs_import_in.
    - apply rs_type_statement_in.
    - apply rs_expr_in.
    - apply rs_expr_in.
  Qed.
End Incl.

Lemma requests_in_events d k : In k (requests d) -> In k (ev_keys (own_name d) (ev_document d)).
Proof.
  unfold requests, actions, ev_document. intros H. rewrite ev_keys_app, in_app_iff.
  apply reqs_app_in in H as [H|H].
  - right. apply reqs_flat_map_in in H as [st [Hst H]]. apply ev_keys_flat_map.
    exists st. split; [exact Hst | now apply rs_statement_in].
  - left. destruct (pd_targets (doc_directive d)); [now apply rs_path_in | destruct H].
Qed.

(** * Main theorems *)

(** Every package the resolver can request is among the discovered ones. *)
Theorem requests_incl_discovered d ks : visit d = VOk ks -> incl (requests d) ks.
Proof.
  intros H k Hk. apply (visit_keys d ks H). now apply requests_in_events.
Qed.

(** The document's own package is never reported. *)
Theorem self_never_discovered d ks : visit d = VOk ks -> forall k, In k ks -> fst k <> own_name d.
Proof.
  intros H k Hk. apply (visit_keys d ks H) in Hk. now apply ev_keys_name in Hk.
Qed.

(** The discovered keys are pairwise distinct (one entry per name AND version). *)
Theorem discovered_nodup d ks : visit d = VOk ks -> NoDup ks.
Proof.
  intros H. apply visit_ok_inv in H as [_ ->]. apply fold_ins_nodup. constructor.
Qed.

(** ** Self instantiation *)
Lemma existsb_flat_map {A B} (f : B -> bool) (g : A -> list B) l :
  existsb f (flat_map g l) = existsb (fun x => existsb f (g x)) l.
Proof. induction l as [|x r IH]; cbn; [reflexivity | now rewrite existsb_app, IH]. Qed.

Lemma first_self_new_none own evs : first_self_new own evs = None <-> existsb (is_self_new own) evs = false.
Proof.
  induction evs as [|ev r IH]; cbn; [intuition|].
  destruct (is_self_new own ev); cbn; [split; discriminate | exact IH].
Qed.

Section SelfNew.
  Variable own : str.
  Notation ex evs := (existsb (is_self_new own) evs).

  Lemma ex_path p : ex (ev_path p) = false.
  Proof. reflexivity. Qed.
  Lemma ex_use u : ex (ev_use u) = false.
  Proof. unfold ev_use. destruct (u_path u); reflexivity. Qed.
  Lemma ex_interface_items items : ex (flat_map ev_interface_item items) = false.
  Proof.
    rewrite existsb_flat_map. induction items as [|it r IH]; cbn [existsb]; [reflexivity|].
    rewrite IH, orb_false_r. destruct it; cbn [ev_interface_item]; [apply ex_use | reflexivity..].
  Qed.
  Lemma ex_world_item_path p : ex (ev_world_item_path p) = false.
  Proof.
    destruct p as [id t|p|i]; cbn [ev_world_item_path]; try reflexivity.
    destruct t; try reflexivity. apply ex_interface_items.
  Qed.
  Lemma ex_world_items items : ex (flat_map ev_world_item items) = false.
  Proof.
    rewrite existsb_flat_map. induction items as [|it r IH]; cbn [existsb]; [reflexivity|].
    rewrite IH, orb_false_r. destruct it as [u|t|docs p|docs p|docs w its]; cbn [ev_world_item].
    - apply ex_use.
    - reflexivity.
    - apply ex_world_item_path.
    - apply ex_world_item_path.
    - destruct w; reflexivity.
  Qed.
  Lemma ex_import t : ex (ev_import t) = false.
  Proof. destruct t; cbn [ev_import]; try reflexivity. apply ex_interface_items. Qed.
  Lemma ex_type_statement t : ex (ev_type_statement t) = false.
  Proof.
    destruct t; cbn [ev_type_statement]; try reflexivity; [apply ex_interface_items | apply ex_world_items].
  Qed.

  Lemma ex_expr : forall e, expr_self_new own e = ex (ev_expr e).
  Proof.
    apply (expr_ind' (fun e => expr_self_new own e = ex (ev_expr e))
                     (fun p => primary_self_new own p = ex (ev_primary p))
                     (fun a => arg_self_new own a = ex (ev_arg a))).
    - intros sp p post IH. exact IH.
    - intros sp pkg args IH. rewrite ev_primary_new. cbn [primary_self_new existsb is_self_new]. f_equal.
      induction IH as [|a r Ha _ IHr]; [reflexivity|].
      cbn [ev_args]. rewrite existsb_app, <- Ha, <- IHr. reflexivity.
    - intros sp e IH. exact IH.
    - reflexivity.
    - reflexivity.
    - reflexivity.
    - intros n e IH. exact IH.
    - reflexivity.
  Qed.

  Lemma ex_statement st : statement_self_new own st = ex (ev_statement st).
  Proof.
    destruct st; cbn [statement_self_new ev_statement].
    - symmetry; apply ex_import.
    - symmetry; apply ex_type_statement.
    - apply ex_expr.
    - apply ex_expr.
  Qed.
End SelfNew.

Lemma has_self_new_events d : has_self_new d = existsb (is_self_new (own_name d)) (ev_document d).
Proof.
  unfold has_self_new, ev_document. rewrite existsb_app, existsb_flat_map.
  replace (existsb (is_self_new (own_name d)) match pd_targets (doc_directive d) with Some t => ev_path t | None => [] end)
    with false by (destruct (pd_targets (doc_directive d)); reflexivity).
  cbn [orb]. induction (doc_statements d) as [|st r IH]; cbn [existsb]; [reflexivity|].
  now rewrite IH, ex_statement.
Qed.

(** A document instantiating its own package, at any nesting, is rejected at discovery ... *)
Theorem self_new_rejected d : has_self_new d = true -> exists sp, visit d = VErr (CannotInstantiateSelf sp).
Proof.
  intros H. rewrite has_self_new_events in H. unfold visit. rewrite packages_flat.
  destruct (first_self_new (own_name d) (ev_document d)) as [sp|] eqn:E.
  - exists sp. reflexivity.
  - apply first_self_new_none in E. congruence.
Qed.

(** ... and discovery fails for no other reason. *)
Theorem visit_error_only_self_new d e : visit d = VErr e -> has_self_new d = true.
Proof.
  unfold visit. rewrite packages_flat, has_self_new_events.
  destruct (first_self_new (own_name d) (ev_document d)) as [sp|] eqn:E; [|discriminate].
  intros _. destruct (existsb (is_self_new (own_name d)) (ev_document d)) eqn:X; [reflexivity|].
  apply first_self_new_none in X. congruence.
Qed.

(** * The interpreter: what is supplied outside [requests] does not matter *)
Section RunProofs.
  Context {content : Type}.
  Variable abort : list (pkgkey * content) -> nat -> option N.

  Lemma run_agree (l1 l2 : pkgkey -> option content) acts :
    (forall k, In k (reqs acts) -> l1 k = l2 k) ->
    forall n reg, run l1 abort acts n reg = run l2 abort acts n reg.
  Proof.
    induction acts as [|[name v sp|name sp] r IH]; intros H n reg; cbn [run]; [reflexivity| |reflexivity].
    destruct (abort reg n); [reflexivity|].
    assert (Hr : forall k, In k (reqs r) -> l1 k = l2 k) by (intros k Hk; apply H; cbn [reqs]; now right).
    destruct (reg_has reg (name, v)); [now rewrite (IH Hr)|].
    rewrite <- (H (name, v)) by (cbn [reqs]; now left).
    destruct (l1 (name, v)); [now rewrite (IH Hr) | reflexivity].
  Qed.

  Lemma log_prefix (l : pkgkey -> option content) acts :
    forall n reg, exists rest, reqs acts = o_log (run l abort acts n reg) ++ rest.
  Proof.
    induction acts as [|[name v sp|name sp] r IH]; intros n reg; cbn [run].
    - destruct (abort reg n); exists []; reflexivity.
    - destruct (abort reg n); [eexists; reflexivity|]. cbn [reqs].
      destruct (reg_has reg (name, v)).
      + destruct (IH (S n) reg) as [rest ->]. exists rest. reflexivity.
      + destruct (l (name, v)).
        * destruct (IH (S n) (reg ++ [(name, v, c)])) as [rest ->]. exists rest. reflexivity.
        * exists (reqs r). reflexivity.
    - destruct (abort reg n); exists []; reflexivity.
  Qed.

  Lemma restrict_in ks (l : pkgkey -> option content) k : In k ks -> restrict ks l k = l k.
  Proof.
    intros H. unfold restrict.
    replace (existsb (pkgkey_eqb k) ks) with true; [reflexivity|].
    symmetry. apply existsb_exists. exists k. split; [exact H | apply pkgkey_eqb_refl].
  Qed.
End RunProofs.

(** Two package maps that agree on the requests of the document give the same resolution. *)
Theorem superset_same_result {content : Type} (abort : list (pkgkey * content) -> nat -> option N)
    (lookup1 lookup2 : pkgkey -> option content) d :
  (forall k, In k (requests d) -> lookup1 k = lookup2 k) ->
  resolve_skel lookup1 abort d = resolve_skel lookup2 abort d.
Proof. intros H. unfold resolve_skel. now apply run_agree. Qed.

(** Hence: supplying exactly the discovered packages, or any superset of them, gives the result of
    supplying everything. *)
Theorem discovered_suffice {content : Type} (abort : list (pkgkey * content) -> nat -> option N)
    (lookup : pkgkey -> option content) d ks ks' :
  visit d = VOk ks -> incl ks ks' ->
  resolve_skel (restrict ks' lookup) abort d = resolve_skel lookup abort d.
Proof.
  intros H Hs. apply superset_same_result. intros k Hk. apply restrict_in.
  apply Hs. now apply (requests_incl_discovered d ks H).
Qed.

(** The resolver performs a prefix of [requests d], whatever is supplied and wherever it stops. *)
Theorem log_is_prefix {content : Type} (abort : list (pkgkey * content) -> nat -> option N)
    (lookup : pkgkey -> option content) d :
  exists rest, requests d = o_log (resolve_skel lookup abort d) ++ rest.
Proof. apply log_prefix. Qed.

(** * Exactness: discovery reports nothing the resolver would not ask for (when nothing fails) *)
Definition act_keys (a : action) : list pkgkey :=
  match a with AReq n v _ => [(n, v)] | ASelfNew _ _ => [] end.
Definition reqs_all (acts : list action) : list pkgkey := flat_map act_keys acts.
Definition act_ok (a : action) : bool := match a with AReq _ _ _ => true | ASelfNew _ _ => false end.
Definition no_self (acts : list action) : bool := forallb act_ok acts.

Lemma reqs_no_self acts : no_self acts = true -> reqs acts = reqs_all acts.
Proof.
  induction acts as [|[n v sp|n sp] r IH]; cbn; [reflexivity| |discriminate].
  intros H. now rewrite (IH H).
Qed.

Lemma reqs_all_app a b : reqs_all (a ++ b) = reqs_all a ++ reqs_all b.
Proof. apply flat_map_app. Qed.

Lemma reqs_all_flat_map {A} (f : A -> list action) l k :
  In k (reqs_all (flat_map f l)) <-> exists x, In x l /\ In k (reqs_all (f x)).
Proof.
  induction l as [|x r IH]; cbn [flat_map].
  - cbn. split; [intros [] | intros [x [[] _]]].
  - rewrite reqs_all_app, in_app_iff, IH. split.
    + intros [H|[y [Hy H]]]; [exists x | exists y]; cbn; auto.
    + intros [y [[<-|Hy] H]]; [left | right; exists y]; auto.
Qed.

Lemma no_self_app a b : no_self (a ++ b) = no_self a && no_self b.
Proof. apply forallb_app. Qed.

Lemma no_self_flat_map {A} (f : A -> list action) l :
  (forall x, no_self (f x) = true) -> no_self (flat_map f l) = true.
Proof.
  intros H. induction l as [|x r IH]; cbn [flat_map]; [reflexivity|]. now rewrite no_self_app, H, IH.
Qed.

Section Exact.
  Variable own : str.
  Notation Kin k evs := (In k (ev_keys own evs)).
  Notation Rin k acts := (In k (reqs_all acts)).
  Notation ex evs := (existsb (is_self_new own) evs).

  Lemma ns_path p : no_self (rs_path own p) = true.
  Proof. unfold rs_path. destruct (str_eqb (pp_name p) own); reflexivity. Qed.
  Lemma ns_use u : no_self (rs_use own u) = true.
  Proof. unfold rs_use. destruct (u_path u); [apply ns_path | reflexivity]. Qed.
  Lemma ns_interface_item it : no_self (rs_interface_item own it) = true.
  Proof. destruct it; cbn [rs_interface_item]; [apply ns_use | reflexivity..]. Qed.
  Lemma ns_interface_items items : no_self (rs_interface_items own items) = true.
  Proof. apply no_self_flat_map, ns_interface_item. Qed.
  Lemma ns_world_item_path p : no_self (rs_world_item_path own p) = true.
  Proof.
    destruct p as [id t|p|i]; cbn [rs_world_item_path]; [|apply ns_path|reflexivity].
    destruct t; try reflexivity. apply ns_interface_items.
  Qed.
  Lemma ns_world_items items : no_self (rs_world_items own items) = true.
  Proof.
    unfold rs_world_items. rewrite no_self_app, !no_self_flat_map; [reflexivity| |].
    - intros [u|t|docs p|docs p|docs w its]; cbn [rs_world_item_later]; try reflexivity.
      destruct w; [reflexivity | apply ns_path].
    - intros [u|t|docs p|docs p|docs w its]; cbn [rs_world_item_now]; try reflexivity;
        [apply ns_use | apply ns_world_item_path..].
  Qed.
  Lemma ns_import t : no_self (rs_import own t) = true.
  Proof. destruct t; cbn [rs_import]; try reflexivity; [apply ns_path | apply ns_interface_items]. Qed.
  Lemma ns_type_statement t : no_self (rs_type_statement own t) = true.
  Proof.
    destruct t; cbn [rs_type_statement]; try reflexivity; [apply ns_interface_items | apply ns_world_items].
  Qed.

  Lemma ra_path k p : Kin k (ev_path p) -> Rin k (rs_path own p).
  Proof.
    unfold rs_path, ev_path, ev_keys, foreign. cbn [filter ev_name].
    destruct (str_eqb (pp_name p) own); cbn; auto.
  Qed.
  Lemma ra_use k u : Kin k (ev_use u) -> Rin k (rs_use own u).
  Proof. unfold rs_use, ev_use. destruct (u_path u); [apply ra_path | intros []]. Qed.
  Lemma ra_interface_item k it : Kin k (ev_interface_item it) -> Rin k (rs_interface_item own it).
  Proof. destruct it; cbn [rs_interface_item ev_interface_item]; [apply ra_use | intros [] ..]. Qed.
  Lemma ra_interface_items k items :
    Kin k (flat_map ev_interface_item items) -> Rin k (rs_interface_items own items).
  Proof.
    intros H. apply ev_keys_flat_map in H as [x [Hx H]]. apply reqs_all_flat_map.
    exists x. split; [exact Hx | now apply ra_interface_item].
  Qed.
  Lemma ra_world_item_path k p : Kin k (ev_world_item_path p) -> Rin k (rs_world_item_path own p).
  Proof.
    destruct p as [id t|p|i]; cbn [rs_world_item_path ev_world_item_path].
    - destruct t; try (intros []). apply ra_interface_items.
    - apply ra_path.
    - intros [].
  Qed.
  Lemma ra_world_item k it :
    Kin k (ev_world_item it) -> Rin k (rs_world_item_now own it) \/ Rin k (rs_world_item_later own it).
  Proof.
    destruct it as [u|t|docs p|docs p|docs w its]; cbn [rs_world_item_now rs_world_item_later ev_world_item].
    - left. now apply ra_use.
    - intros [].
    - left. now apply ra_world_item_path.
    - left. now apply ra_world_item_path.
    - destruct w; [intros [] | right; now apply ra_path].
  Qed.
  Lemma ra_world_items k items : Kin k (flat_map ev_world_item items) -> Rin k (rs_world_items own items).
  Proof.
    intros H. apply ev_keys_flat_map in H as [x [Hx H]]. unfold rs_world_items.
    rewrite reqs_all_app, in_app_iff. apply ra_world_item in H as [H|H]; [left | right];
      apply reqs_all_flat_map; exists x; auto.
  Qed.
  Lemma ra_import k t : Kin k (ev_import t) -> Rin k (rs_import own t).
  Proof.
    destruct t; cbn [rs_import ev_import]; try (intros []); [apply ra_path | apply ra_interface_items].
  Qed.
  Lemma ra_type_statement k t : Kin k (ev_type_statement t) -> Rin k (rs_type_statement own t).
  Proof.
    destruct t; cbn [rs_type_statement ev_type_statement]; try (intros []);
      [apply ra_interface_items | apply ra_world_items].
  Qed.

  Lemma ra_expr : forall e, ex (ev_expr e) = false ->
    no_self (rs_expr own e) = true /\ forall k, Kin k (ev_expr e) -> Rin k (rs_expr own e).
  Proof.
    apply (expr_ind'
      (fun e => ex (ev_expr e) = false ->
                no_self (rs_expr own e) = true /\ forall k, Kin k (ev_expr e) -> Rin k (rs_expr own e))
      (fun p => ex (ev_primary p) = false ->
                no_self (rs_primary own p) = true /\ forall k, Kin k (ev_primary p) -> Rin k (rs_primary own p))
      (fun a => ex (ev_arg a) = false ->
                no_self (rs_arg own a) = true /\ forall k, Kin k (ev_arg a) -> Rin k (rs_arg own a))).
    - intros sp p post IH. exact IH.
    - intros sp pkg args IH. rewrite rs_primary_new, ev_primary_new. cbn [existsb is_self_new].
      intros H. apply orb_false_iff in H as [E H]. rewrite E.
      assert (A : no_self (rs_args own args) = true /\
                  forall k, Kin k (ev_args args) -> Rin k (rs_args own args)).
      { induction IH as [|a r Ha _ IHr]; [split; [reflexivity | intros k []]|].
        cbn [ev_args] in H. rewrite existsb_app in H. apply orb_false_iff in H as [H1 H2].
        destruct (Ha H1) as [N1 K1]. destruct (IHr H2) as [N2 K2]. cbn [rs_args ev_args]. split.
        - now rewrite no_self_app, N1, N2.
        - intros k. rewrite ev_keys_app, reqs_all_app, !in_app_iff. intros [X|X]; auto. }
      destruct A as [N K]. split; [exact N|].
      intros k. change (VNew pkg :: ev_args args) with ([VNew pkg] ++ ev_args args).
      rewrite ev_keys_app, in_app_iff. unfold ev_keys at 1, foreign. cbn [filter ev_name]. rewrite E.
      cbn [negb map ev_key reqs_all flat_map act_keys app In].
      intros [[<-|[]]|X]; [now left | right; now apply K].
    - intros sp e IH. exact IH.
    - intros i _. split; [reflexivity | intros k []].
    - intros i _. split; [reflexivity | intros k []].
    - intros i _. split; [reflexivity | intros k []].
    - intros n e IH. exact IH.
    - intros sp _. split; [reflexivity | intros k []].
  Qed.

  Lemma ra_statement st : ex (ev_statement st) = false ->
    no_self (rs_statement own st) = true /\ forall k, Kin k (ev_statement st) -> Rin k (rs_statement own st).
  Proof.
    destruct st; cbn [rs_statement ev_statement]; intros H.
    - split; [apply ns_import | intros k; apply ra_import].
    - split; [apply ns_type_statement | intros k; apply ra_type_statement].
    - now apply ra_expr.
    - now apply ra_expr.
  Qed.

  Lemma ra_statements l : ex (flat_map ev_statement l) = false ->
    no_self (flat_map (rs_statement own) l) = true /\
    forall k, Kin k (flat_map ev_statement l) -> Rin k (flat_map (rs_statement own) l).
  Proof.
    induction l as [|st r IH]; cbn [flat_map]; [split; [reflexivity | intros k []]|].
    rewrite existsb_app. intros H. apply orb_false_iff in H as [H1 H2].
    destruct (ra_statement st H1) as [N1 K1]. destruct (IH H2) as [N2 K2]. split.
    - now rewrite no_self_app, N1, N2.
    - intros k. rewrite ev_keys_app, reqs_all_app, !in_app_iff. intros [X|X]; auto.
  Qed.
End Exact.

Theorem discovered_all_requested d ks : visit d = VOk ks -> incl ks (requests d).
Proof.
  intros H k Hk. apply (visit_keys d ks H) in Hk. apply visit_ok_inv in H as [E _].
  apply first_self_new_none in E. unfold ev_document in E, Hk. rewrite existsb_app in E.
  apply orb_false_iff in E as [_ E]. destruct (ra_statements (own_name d) _ E) as [N K].
  unfold requests, actions. rewrite reqs_no_self.
  - rewrite reqs_all_app, in_app_iff. rewrite ev_keys_app, in_app_iff in Hk. destruct Hk as [Hk|Hk].
    + right. destruct (pd_targets (doc_directive d)); [now apply ra_path | destruct Hk].
    + left. now apply K.
  - rewrite no_self_app, N. destruct (pd_targets (doc_directive d)); [apply ns_path | reflexivity].
Qed.
