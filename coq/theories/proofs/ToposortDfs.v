(** C02: the first phase of [toposort] ([EncodeModel.dfs_loop] / [topo_phase1]): one-step view of the
    explicit-stack DFS, a Hoare-style rule for the fuelled loop (which also gives fuel independence:
    the out-of-fuel exit is never taken), and the DFS invariant.

    Colours: a node is WHITE when it is not in [df_disc], GREY when discovered and not finished,
    BLACK when in [df_fin]. The stack may hold several entries of a node; the ACTIVE entry of a grey
    node is its top-most one ([before y st] = the entries above it). *)
From Coq Require Import List Arith Bool NArith Lia Permutation.
From WacV Require Import Str Graph Wiring WiringSpec EncodeModel GraphInv GraphUnreg.
Import ListNotations.
Local Open Scope nat_scope.

(** * small facts *)
Lemma memn_In x l : memn x l = true <-> In x l.
Proof. unfold memn. apply existsb_eqb_In. Qed.
Lemma memn_notIn x l : memn x l = false <-> ~ In x l.
Proof. unfold memn. apply existsb_eqb_notIn. Qed.

Lemma filter_len_le {A} (f : A -> bool) l : length (filter f l) <= length l.
Proof. induction l as [|x l IH]; cbn; auto. destruct (f x); cbn; lia. Qed.

Lemma memn_cons x a l : memn x (a :: l) = (x =? a) || memn x l.
Proof. reflexivity. Qed.

Lemma node_ids_live_iff g n : In n (node_ids g) <-> live g n = true.
Proof.
  unfold node_ids. rewrite nodes_where_In. rewrite live_liveb, liveb_true. split.
  - intros [nd [H _]]. eauto.
  - intros [nd H]. eauto.
Qed.
Lemma node_ids_nodup g : NoDup (node_ids g).
Proof. apply nodes_where_NoDup. Qed.

Lemma live_lt_nodes g n : live g n = true -> n < length (nodes g).
Proof. rewrite live_liveb, liveb_true. intros [nd H]. eapply getn_lt; eauto. Qed.

Lemma node_ids_length g : length (node_ids g) <= length (nodes g).
Proof.
  rewrite <- (seq_length (length (nodes g)) 0). apply NoDup_incl_length; [apply node_ids_nodup|].
  intros x Hx. apply node_ids_live_iff, live_lt_nodes in Hx. apply in_seq. lia.
Qed.

(** the entries above the top-most occurrence of [y] *)
Fixpoint before (y : nat) (st : list nat) : list nat :=
  match st with
  | [] => []
  | w :: s => if w =? y then [] else w :: before y s
  end.

Lemma before_cons_eq y s : before y (y :: s) = [].
Proof. cbn. now rewrite Nat.eqb_refl. Qed.
Lemma before_cons_ne y w s : w <> y -> before y (w :: s) = w :: before y s.
Proof. intros H. cbn. apply Nat.eqb_neq in H. now rewrite H. Qed.
Lemma before_app_notin y a b : ~ In y a -> before y (a ++ b) = a ++ before y b.
Proof.
  induction a as [|w a IH]; cbn; intros H; auto.
  destruct (w =? y) eqn:E; [apply Nat.eqb_eq in E; tauto|]. rewrite IH; auto.
Qed.
Lemma before_incl y st : incl (before y st) st.
Proof.
  induction st as [|w s IH]; cbn; [apply incl_refl|]. destruct (w =? y); [intros x []|].
  intros x [<-|H]; [now left | right; auto].
Qed.

(** * successors and the push loop *)
Definition succs (g : gstate) (n : nat) : list nat := map etgt (outgoing g n).

Lemma succs_edge g n t : In t (succs g n) <-> exists e, In e (edges g) /\ esrc e = n /\ etgt e = t.
Proof.
  unfold succs, outgoing. rewrite in_map_iff. split.
  - intros [e [E I]]. apply filter_In in I as [I S]. apply Nat.eqb_eq in S. eauto.
  - intros [e [I [S T]]]. exists e. split; auto. apply filter_In. split; auto. now apply Nat.eqb_eq.
Qed.

Definition push_succs (disc ss stack : list nat) : list nat :=
  fold_left (fun st s => if memn s disc then st else s :: st) ss stack.

Definition pushed (disc ss : list nat) : list nat := rev (filter (fun s => negb (memn s disc)) ss).

Lemma push_succs_eq disc ss : forall stack, push_succs disc ss stack = pushed disc ss ++ stack.
Proof.
  unfold push_succs, pushed. induction ss as [|s r IH]; intros stack; cbn; auto.
  rewrite IH. destruct (memn s disc); cbn; auto. now rewrite <- app_assoc.
Qed.

Lemma pushed_In disc ss x : In x (pushed disc ss) <-> In x ss /\ ~ In x disc.
Proof.
  unfold pushed. rewrite <- in_rev, filter_In, negb_true_iff, memn_notIn. tauto.
Qed.

Lemma pushed_length disc ss : length (pushed disc ss) <= length ss.
Proof. unfold pushed. rewrite rev_length. apply filter_len_le. Qed.

(** * one iteration of the [while let Some(&nx) = dfs.stack.last()] loop *)
Definition dfs_step (g : gstate) (nx : nat) (rest : list nat) (d : dfs) : option (list nat * dfs) :=
  if memn nx (df_disc d) then
    if memn nx (df_fin d) then Some (rest, d)
    else Some (rest, {| df_disc := df_disc d; df_fin := nx :: df_fin d; df_out := nx :: df_out d |})
  else
    if memn nx (succs g nx) then None
    else Some (pushed (nx :: df_disc d) (succs g nx) ++ nx :: rest,
               {| df_disc := nx :: df_disc d; df_fin := df_fin d; df_out := df_out d |}).

Lemma dfs_loop_S g f nx rest d :
  dfs_loop g (S f) (nx :: rest) d =
  match dfs_step g nx rest d with None => None | Some (st', d') => dfs_loop g f st' d' end.
Proof.
  unfold dfs_step. cbn [dfs_loop]. fold (succs g nx).
  destruct (memn nx (df_disc d)); [destruct (memn nx (df_fin d)); reflexivity|].
  destruct (memn nx (succs g nx)); [reflexivity|].
  fold (push_succs (nx :: df_disc d) (succs g nx) (nx :: rest)). now rewrite push_succs_eq.
Qed.

Lemma dfs_loop_nil g f d : dfs_loop g f [] d = Some d.
Proof. destruct f; reflexivity. Qed.

(** * the rule: an invariant with a strictly decreasing measure that is positive on non-empty stacks.
    With fuel at least the measure the loop ends on the EMPTY stack (so the fuel exit is not taken and
    more fuel changes nothing); [Q] is what a self loop exit may assume. *)
Section Rule.
  Variable g : gstate.
  Variable P : list nat -> dfs -> Prop.
  Variable Q : Prop.
  Variable mu : list nat -> dfs -> nat.
  Hypothesis mu_pos : forall nx rest d, 0 < mu (nx :: rest) d.
  Hypothesis step_ok : forall nx rest d, P (nx :: rest) d ->
    match dfs_step g nx rest d with
    | None => Q
    | Some (st', d') => P st' d' /\ mu st' d' < mu (nx :: rest) d
    end.

  Lemma dfs_loop_rule : forall f st d, P st d -> mu st d <= f ->
    (forall f', f <= f' -> dfs_loop g f' st d = dfs_loop g f st d) /\
    match dfs_loop g f st d with None => Q | Some d' => P [] d' end.
  Proof.
    induction f as [|f IH]; intros st d HP Hm.
    - destruct st as [|nx rest]; [|pose proof (mu_pos nx rest d); lia].
      split; [intros f' _; now rewrite !dfs_loop_nil | now rewrite dfs_loop_nil].
    - destruct st as [|nx rest].
      { split; [intros f' _; now rewrite !dfs_loop_nil | now rewrite dfs_loop_nil]. }
      pose proof (step_ok nx rest d HP) as S. rewrite dfs_loop_S.
      destruct (dfs_step g nx rest d) as [[st' d']|] eqn:E.
      + destruct S as [HP' Hlt]. destruct (IH st' d' HP') as [Hf Hr]; [lia|]. split; auto.
        intros f' Hf'. destruct f' as [|f']; [lia|]. rewrite dfs_loop_S, E. apply Hf. lia.
      + split; auto. intros f' Hf'. destruct f' as [|f']; [lia|]. now rewrite dfs_loop_S, E.
  Qed.
End Rule.

(** * the measure: stack entries + undiscovered live nodes + edges leaving undiscovered nodes *)
Definition white_edges (g : gstate) (disc : list nat) : list edge :=
  filter (fun e => negb (memn (esrc e) disc)) (edges g).

Definition dfs_mu (g : gstate) (st : list nat) (d : dfs) : nat :=
  length st + (length (node_ids g) - length (df_disc d)) + length (white_edges g (df_disc d)).

Lemma white_edges_discover g disc nx : ~ In nx disc ->
  length (white_edges g (nx :: disc)) + length (outgoing g nx) = length (white_edges g disc).
Proof.
  intros H. unfold white_edges, outgoing. apply memn_notIn in H.
  induction (edges g) as [|e r IH]; cbn [filter]; auto.
  rewrite memn_cons. destruct (Nat.eqb_spec (esrc e) nx) as [E|E].
  - rewrite E, H. cbn [orb negb length]. lia.
  - cbn [orb]. destruct (memn (esrc e) disc); cbn [negb length]; lia.
Qed.

Lemma dfs_mu_bound g i d : dfs_mu g [i] d <= dfs_fuel g.
Proof.
  unfold dfs_mu, dfs_fuel, white_edges. pose proof (node_ids_length g).
  pose proof (filter_len_le (fun e => negb (memn (esrc e) (df_disc d))) (edges g)). cbn [length]. lia.
Qed.

(** * the invariant (no acyclicity assumed) *)
Definition grey (d : dfs) (x : nat) : Prop := In x (df_disc d) /\ ~ In x (df_fin d).

Section Inv.
  Variable g : gstate.
  Hypothesis EL : forall e, In e (edges g) -> live g (esrc e) = true /\ live g (etgt e) = true.
  (** nodes that must stay "discovered or on the stack" *)
  Variable R : list nat.

  Record DInv (st : list nat) (d : dfs) : Prop := {
    di_out : df_fin d = df_out d;
    di_nodup_out : NoDup (df_out d);
    di_nodup_disc : NoDup (df_disc d);
    di_fin_disc : incl (df_fin d) (df_disc d);
    di_grey_st : forall x, grey d x -> In x st;
    di_live_st : forall x, In x st -> live g x = true;
    di_live_disc : forall x, In x (df_disc d) -> live g x = true;
    (** every successor of a grey node was already discovered or waits above its active entry *)
    di_succ : forall x t, grey d x -> In t (succs g x) -> In t (df_disc d) \/ In t (before x st);
    di_req : forall x, In x R -> In x (df_disc d) \/ In x st;
    di_noself : forall x, In x (df_disc d) -> ~ In x (succs g x) }.

  Lemma succs_live n t : In t (succs g n) -> live g t = true.
  Proof. intros H. apply succs_edge in H as [e [I [_ <-]]]. now apply EL. Qed.

  Lemma disc_length_bound disc : NoDup disc -> (forall x, In x disc -> live g x = true) ->
    length disc <= length (node_ids g).
  Proof. intros ND L. apply NoDup_incl_length; auto. intros x Hx. apply node_ids_live_iff. auto. Qed.

  Definition has_self_loop : Prop := exists e, In e (edges g) /\ esrc e = etgt e.

  Lemma dfs_step_inv nx rest d : DInv (nx :: rest) d ->
    match dfs_step g nx rest d with
    | None => has_self_loop
    | Some (st', d') => DInv st' d' /\ dfs_mu g st' d' < dfs_mu g (nx :: rest) d
    end.
  Proof.
    intros I. unfold dfs_step.
    destruct (memn nx (df_disc d)) eqn:Dn.
    - apply memn_In in Dn.
      (* facts shared by both pop cases *)
      assert (Hsucc : forall x t, grey d x -> x <> nx -> In t (succs g x) -> In t (df_disc d) \/ In t (before x rest)).
      { intros x t Gx Ne Ht. destruct (di_succ _ _ I x t Gx Ht) as [H|H]; auto.
        rewrite before_cons_ne in H by congruence. destruct H as [<-|H]; auto. }
      assert (Hreq : forall x, In x R -> In x (df_disc d) \/ In x rest).
      { intros x Hx. destruct (di_req _ _ I x Hx) as [H|[<-|H]]; auto. }
      destruct (memn nx (df_fin d)) eqn:Fn.
      + apply memn_In in Fn. split.
        * constructor; try apply I; auto.
          -- intros x Gx. destruct (di_grey_st _ _ I x Gx) as [<-|H]; auto. destruct Gx; contradiction.
          -- intros x Hx. apply (di_live_st _ _ I). now right.
          -- intros x t Gx Ht. apply Hsucc; auto. intros ->. destruct Gx; contradiction.
        * unfold dfs_mu. cbn [length]. lia.
      + apply memn_notIn in Fn. split.
        * constructor; cbn [df_disc df_fin df_out].
          -- f_equal. apply I.
          -- constructor; [rewrite <- (di_out _ _ I); auto | apply I].
          -- apply I.
          -- intros x [<-|Hx]; auto. now apply (di_fin_disc _ _ I).
          -- intros x [Dx Fx]. cbn [df_disc df_fin] in *.
             assert (Gx : grey d x) by (split; auto; intros H; apply Fx; now right).
             destruct (di_grey_st _ _ I x Gx) as [<-|H]; auto. exfalso. apply Fx. now left.
          -- intros x Hx. apply (di_live_st _ _ I). now right.
          -- apply I.
          -- intros x t [Dx Fx] Ht. cbn [df_disc df_fin] in *.
             assert (Gx : grey d x) by (split; auto; intros H; apply Fx; now right).
             apply Hsucc; auto. intros ->. apply Fx. now left.
          -- exact Hreq.
          -- apply I.
        * unfold dfs_mu. cbn [length df_disc]. lia.
    - apply memn_notIn in Dn.
      destruct (memn nx (succs g nx)) eqn:Sl.
      + apply memn_In, succs_edge in Sl as [e [Ie [S T]]]. exists e. split; auto. congruence.
      + apply memn_notIn in Sl.
        set (pu := pushed (nx :: df_disc d) (succs g nx)).
        assert (Pu : forall x, In x pu -> In x (succs g nx) /\ x <> nx /\ ~ In x (df_disc d)).
        { intros x Hx. apply pushed_In in Hx as [A B]. split; auto. split; intros H; apply B; [now left | now right]. }
        assert (Lnx : live g nx = true) by (apply (di_live_st _ _ I); now left).
        split.
        * constructor; cbn [df_disc df_fin df_out]; try apply I.
          -- constructor; [auto | apply I].
          -- intros x Hx. right. now apply (di_fin_disc _ _ I).
          -- intros x [Dx Fx]. cbn [df_disc df_fin] in *. apply in_or_app. right.
             destruct Dx as [<-|Dx]; [now left|]. apply (di_grey_st _ _ I). split; auto.
          -- intros x Hx. apply in_app_or in Hx as [Hx|Hx]; [|now apply (di_live_st _ _ I)].
             apply Pu in Hx as [Hx _]. eapply succs_live; eauto.
          -- intros x [<-|Hx]; auto. now apply (di_live_disc _ _ I).
          -- intros x t [Dx Fx] Ht. cbn [df_disc df_fin] in *.
             destruct Dx as [<-|Dx].
             ++ (* the node just discovered: its white successors were pushed above it *)
                destruct (in_dec Nat.eq_dec t (nx :: df_disc d)) as [H|H]; [now left|]. right.
                rewrite before_app_notin by (intros H'; apply Pu in H'; tauto).
                rewrite before_cons_eq, app_nil_r. apply pushed_In. auto.
             ++ assert (Gx : grey d x) by (split; auto).
                assert (Nx : ~ In x pu) by (intros H'; apply Pu in H'; tauto).
                rewrite before_app_notin by exact Nx.
                destruct (di_succ _ _ I x t Gx Ht) as [H|H]; [left; now right|]. right. apply in_or_app. now right.
          -- intros x Hx. destruct (di_req _ _ I x Hx) as [H|H]; [left; now right|].
             right. apply in_or_app. now right.
          -- intros x [<-|Hx]; [exact Sl | now apply (di_noself _ _ I)].
        * unfold dfs_mu. cbn [df_disc]. rewrite app_length. cbn [length].
          pose proof (white_edges_discover g (df_disc d) nx Dn) as W.
          pose proof (pushed_length (nx :: df_disc d) (succs g nx)) as Lp. fold pu in Lp.
          assert (Ls : length (succs g nx) = length (outgoing g nx)) by (unfold succs; apply map_length).
          assert (Ld : length (nx :: df_disc d) <= length (node_ids g)).
          { apply disc_length_bound.
            - constructor; [auto | apply I].
            - intros x [<-|Hx]; auto. now apply (di_live_disc _ _ I). }
          cbn [length] in Ld. lia.
  Qed.

  (** the loop from an invariant state, with the model's fuel or more *)
  Lemma dfs_loop_inv f st d : DInv st d -> dfs_mu g st d <= f ->
    (forall f', f <= f' -> dfs_loop g f' st d = dfs_loop g f st d) /\
    match dfs_loop g f st d with None => has_self_loop | Some d' => DInv [] d' end.
  Proof.
    apply (dfs_loop_rule g DInv has_self_loop (dfs_mu g)).
    - intros nx rest d0. unfold dfs_mu. cbn [length]. lia.
    - exact dfs_step_inv.
  Qed.
End Inv.

(** when the stack is empty every discovered node is finished *)
Lemma DInv_nil_disc_fin g R d x : DInv g R [] d -> In x (df_disc d) -> In x (df_out d).
Proof.
  intros I Dx. rewrite <- (di_out _ _ _ _ I).
  destruct (in_dec Nat.eq_dec x (df_fin d)) as [H|H]; auto.
  destruct (di_grey_st _ _ _ _ I x (conj Dx H)).
Qed.
