(** Lexer classes, part E: [relex_stable]. If [scan_token] produced a token of kind [k] with text
    [w] somewhere, then on [w ++ rest] it produces the same kind and length, provided [rest] satisfies
    the follow condition [follow_ok k w rest] of spec/LexClasses.v (one or two characters of
    lookahead). *)
From WacV Require Import Str Ord Token Lexer LexTables LexImpl LexSpec LexTablesProofs Semver Ast Parser LexClasses.
From WacV Require Import LexerSound NoPanicLexer LexerClassA LexerClassB LexerClassC LexerClassD.
From Coq Require Import Lia.
Local Open Scope nat_scope.

Section Relex.
Variable d : deviations.
Variable base : lexcfg.
Hypothesis Htab : tables_ok base.
Notation cfg := (cfg_with d base).
Notation au := (uppercase_words d).

(* ------------------------------------------------------------------ evaluating scan_id on w1 ++ Y *)

Definition scan_after (fuel : nat) (w1 Y : str) : scanres :=
  if head_is c_minus Y then
    if pkg_separator_zone d && is_keyword_prefix w1 then ScanUnmodelled
    else if dangling_dash d then ScanTok TIdent (S (length w1)) else ScanTok (kw_or_ident_of w1) (length w1)
  else
    let n2 := seg_loop fuel au c_colon Y in
    match n2 with
    | O => if head_is c_colon Y && keyword_colon d then ScanTok TIdent (length w1) else ScanTok (kw_or_ident_of w1) (length w1)
    | S _ =>
        let after := skipn n2 Y in
        if pkg_separator_zone d && (head_is c_minus after || head_is c_colon after) then ScanUnmodelled
        else match seg_loop fuel au c_slash after with
             | O => ScanTok TPackageName (length w1 + n2 + version_tail_len after)
             | S m => ScanTok TPackagePath (length w1 + n2 + S m + version_tail_len (skipn (S m) after))
             end
    end.

Lemma scan_id_app fuel w1 Y : scan_id cfg fuel (w1 ++ Y) (length w1) = scan_after fuel w1 Y.
Proof.
  unfold scan_id, scan_after. cbn [allow_upper keywords q_pkgzone q_dash q_kwcolon cfg_with]. cbv zeta.
  rewrite firstn_app_exact, skipn_app_exact, (lookup_keywords base _ Htab), (kw_prefix_tables base _ Htab).
  fold (kw_or_ident_of w1). destruct (head_is c_minus Y); [reflexivity|].
  destruct (seg_loop fuel au c_colon Y) as [|m2] eqn:E2; [reflexivity|].
  rewrite skipn_plus, skipn_app_exact.
  destruct (pkg_separator_zone d && _); [reflexivity|].
  destruct (seg_loop fuel au c_slash (skipn (S m2) Y)) as [|m3] eqn:E3; [reflexivity|].
  rewrite skipn_plus, skipn_plus, skipn_app_exact. reflexivity.
Qed.

Lemma scan_token_app fuel w1 Y :
  id_b d w1 = true -> id_len au (w1 ++ Y) = length w1 -> scan_token cfg fuel (w1 ++ Y) = scan_after fuel w1 Y.
Proof.
  intros Hi Hn. rewrite scan_token_unfold. pose proof (id_b_not_nil d _ Hi) as Hne.
  destruct (w1 ++ Y) as [|c r] eqn:Es; [destruct w1; [congruence|discriminate]|].
  assert (Hl : 0 < length w1) by (destruct w1; [congruence|cbn; lia]).
  assert (Hq : (c =? c_quote)%N = false).
  { destruct (c =? c_quote)%N eqn:E; [|reflexivity]. apply N.eqb_eq in E. subst c. exfalso.
    assert (id_len au (c_quote :: r) = 0); [|lia].
    unfold id_len, words_len. change (c_quote =? c_percent)%N with false. change (is_lower c_quote) with false.
    change (is_upper c_quote) with false. cbn iota. now rewrite andb_false_r. }
  rewrite Hq. cbn [allow_upper cfg_with]. rewrite Hn. destruct (length w1) as [|n0] eqn:El; [lia|].
  rewrite <- El, <- Es. apply scan_id_app.
Qed.

(* ------------------------------------------------------------------ small facts *)

Lemma seg_loop_zero c (Hc : is_sep c = true) fuel Y : length Y < fuel -> no_seg d c Y = true -> seg_loop fuel au c Y = 0.
Proof.
  intros Hf Hno. destruct (seg_loop_exact d c Hc [] Y fuel eq_refl) as [_ H]; [exact Hf|]. apply H; [exact Hno|congruence].
Qed.

Lemma no_seg_other c x r : (x =? c)%N = false -> no_seg d c (x :: r) = true.
Proof. intros H. cbn [no_seg]. now rewrite H. Qed.

Lemma id_not_dash w : id_b d w = true -> dash_ident_b d w = false.
Proof.
  intros Hi. destruct (dash_ident_b d w) eqn:E; [|reflexivity]. exfalso. unfold dash_ident_b in E.
  destruct (rev w) as [|c r] eqn:Er; [discriminate|]. apply andb_true_iff in E. destruct E as [Ec E]. apply N.eqb_eq in Ec. subst c.
  assert (Hw : w = rev r ++ [c_minus]) by (rewrite <- (rev_involutive w), Er; reflexivity).
  destruct (id_len_exact d (rev r) [c_minus] E) as [_ H1].
  assert (Hf : id_follow d (rev r) [c_minus] = true).
  { unfold id_follow. cbn [word_stop starts_word]. change (if last_case (rev r) false then upper_or_digit c_minus else lower_or_digit c_minus)
      with (cont_b (last_case (rev r) false) c_minus). rewrite cont_b_minus. reflexivity. }
  specialize (H1 Hf). rewrite <- Hw in H1.
  destruct (id_len_exact d w [] Hi) as [H2 _]. rewrite app_nil_r in H2. rewrite Hw, app_length in H2. cbn [length] in H2.
  rewrite <- Hw in H2. lia.
Qed.

Definition special (k : token) : bool :=
  match k with TIdent | TString | TPackageName | TPackagePath | TComment | TBlockComment => true | _ => false end.

Lemma follow_ok_plain k w rest :
  special k = false -> follow_ok d k w rest = if is_symbol_kind k then symbol_follow w rest else word_follow d false w rest.
Proof. destruct k; try discriminate; intros _; reflexivity. Qed.

Lemma kw_row_facts w k : In (w, k) doc_keywords -> special k = false /\ is_symbol_kind k = false /\ lower_word w = true.
Proof.
  intros H. pose proof (kw_row d w k H) as Hr. unfold kw_row_ok in Hr. cbn [fst snd] in Hr.
  apply andb_true_iff in Hr. destruct Hr as [Hr H9]. apply andb_true_iff in Hr. destruct Hr as [Hr H8].
  apply andb_true_iff in Hr. destruct Hr as [Hr H7]. apply andb_true_iff in Hr. destruct Hr as [Hr H6].
  apply andb_true_iff in Hr. destruct Hr as [Hr H5]. apply andb_true_iff in Hr. destruct Hr as [Hr H4].
  apply andb_true_iff in Hr. destruct Hr as [Hr H3]. apply andb_true_iff in Hr. destruct Hr as [H1 H2].
  repeat split; auto.
  - destruct k; try reflexivity; discriminate.
  - now apply negb_true_iff in H5.
Qed.

Lemma sym_row_facts w k : In (w, k) doc_symbols ->
  special k = false /\ is_symbol_kind k = true /\
  exists c r, w = c :: r /\ is_alpha c = false /\ (c =? c_percent)%N = false /\ (c =? c_quote)%N = false.
Proof.
  intros H. pose proof (sym_row d w k H) as Hr. unfold sym_row_ok in Hr. cbn [fst snd] in Hr.
  apply andb_true_iff in Hr. destruct Hr as [Hr H11]. apply andb_true_iff in Hr. destruct Hr as [Hr H10].
  apply andb_true_iff in Hr. destruct Hr as [Hr H9]. apply andb_true_iff in Hr. destruct Hr as [Hr H8].
  apply andb_true_iff in Hr. destruct Hr as [Hr H7]. apply andb_true_iff in Hr. destruct Hr as [Hr H6].
  apply andb_true_iff in Hr. destruct Hr as [Hr H5]. apply andb_true_iff in Hr. destruct Hr as [Hr H4].
  apply andb_true_iff in Hr. destruct Hr as [Hr H3]. apply andb_true_iff in Hr. destruct Hr as [H1 H2].
  repeat split; auto.
  - destruct k; try reflexivity; discriminate.
  - destruct w as [|c r]; [discriminate|]. exists c, r. apply andb_true_iff in H3. destruct H3 as [H3 Hq].
    apply andb_true_iff in H3. destruct H3 as [Ha Hp]. apply negb_true_iff in Ha, Hp, Hq. auto.
Qed.

Lemma sym_key_unique x k k' : In (x, k) doc_symbols -> In (x, k') doc_symbols -> k = k'.
Proof.
  assert (H : forallb (fun kv => forallb (fun kv' => negb (str_eqb (fst kv) (fst kv')) || token_eqb (snd kv) (snd kv')) doc_symbols)
                doc_symbols = true) by (vm_compute; reflexivity).
  rewrite forallb_forall in H. intros H1 H2. specialize (H _ H1). rewrite forallb_forall in H. specialize (H _ H2).
  cbn [fst snd] in H. rewrite lc_str_eqb_refl in H. cbn [negb orb] in H. now apply token_eqb_eq.
Qed.

(** [best_symbol] is determined by the set of rows when texts are keys. *)
Lemma best_symbol_complete tbl s x k :
  (forall y k1 k2, In (y, k1) tbl -> In (y, k2) tbl -> k1 = k2) ->
  In (x, k) tbl -> x <> [] -> starts_with x s = true ->
  (forall y k', In (y, k') tbl -> starts_with y s = true -> y <> [] -> length y <= length x) ->
  best_symbol tbl s = Some (k, length x).
Proof.
  intros Huniq Hin Hne Hs Hmax. destruct (best_symbol tbl s) as [[k' n']|] eqn:E.
  - destruct (best_symbol_spec _ _ _ _ E) as [(x' & Hin' & Hs' & Hne' & ->) Hmax'].
    pose proof (Hmax _ _ Hin' Hs' Hne') as H1. pose proof (Hmax' _ _ Hin Hs Hne) as H2.
    assert (Hl : length x' = length x) by lia.
    assert (Hx : x' = x).
    { rewrite <- (starts_with_firstn _ _ Hs'), <- (starts_with_firstn _ _ Hs), Hl. reflexivity. }
    subst x'. now rewrite (Huniq _ _ _ Hin' Hin).
  - exfalso. apply Hne. exact (best_symbol_none _ _ E _ _ Hin Hs).
Qed.

Lemma not_alpha_id_len c r : is_alpha c = false -> (c =? c_percent)%N = false -> id_len au (c :: r) = 0.
Proof.
  intros Ha Hp. apply id_len_zero. unfold starts_id. cbn [strip_percent]. rewrite Hp. cbn [starts_word].
  unfold is_alpha in Ha. apply orb_false_iff in Ha. destruct Ha as [-> ->]. now rewrite andb_false_r.
Qed.

(* ------------------------------------------------------------------ how a token was produced *)

(** The ways [scan_token] produces a token from a text starting with an id ([x] its shape). *)
Inductive produced (x : shape) (k : token) (n : nat) : Prop :=
| pr_dash : dangling_dash d = true -> (pkg_separator_zone d && is_keyword_prefix (sh_id x)) = false ->
            k = TIdent -> n = S (length (sh_id x)) -> head_is c_minus (after_id x) = true -> produced x k n
| pr_word : n = length (sh_id x) -> sh_colon x = [] \/ head_is c_minus (after_id x) = true ->
            k = kw_or_ident_of (sh_id x) \/ (k = TIdent /\ keyword_colon d = true) -> produced x k n
| pr_name : sh_colon x <> [] -> sh_slash x = [] -> k = TPackageName ->
            n = length (sh_id x ++ chain_text c_colon (sh_colon x) ++ sh_ver x) -> produced x k n
| pr_path : sh_colon x <> [] -> sh_slash x <> [] -> k = TPackagePath ->
            n = length (sh_id x ++ chain_text c_colon (sh_colon x) ++ chain_text c_slash (sh_slash x) ++ sh_ver x) ->
            produced x k n.

Lemma scan_result_produced x k n : scan_result d x = ScanTok k n -> produced x k n.
Proof.
  unfold scan_result. cbv zeta. destruct (head_is c_minus (after_id x)) eqn:Ehd.
  - destruct (pkg_separator_zone d && is_keyword_prefix (sh_id x)) eqn:Ez; [discriminate|].
    destruct (dangling_dash d) eqn:Edd; intros H; inversion H; subst.
    + now apply pr_dash.
    + apply pr_word; auto.
  - destruct (sh_colon x) as [|j segsC] eqn:EC.
    + destruct (head_is c_colon (after_id x) && keyword_colon d) eqn:Ekc; intros H; inversion H; subst.
      * apply andb_true_iff in Ekc. destruct Ekc as [_ Ekc]. apply pr_word; auto.
      * apply pr_word; auto.
    + destruct (pkg_separator_zone d && _); [discriminate|]. destruct (sh_slash x) as [|p1 segsP] eqn:EP; intros H; injection H as <- <-.
      * apply pr_name; auto; [congruence|now rewrite EC].
      * apply pr_path; auto; [congruence|congruence|now rewrite EC, EP].
Qed.

(* ------------------------------------------------------------------ relex: words (identifiers and keywords) *)

Lemma kw_or_ident_special w : special (kw_or_ident_of w) = false \/ kw_or_ident_of w = TIdent.
Proof.
  unfold kw_or_ident_of. destruct (lookup_str w doc_keywords) as [k|] eqn:E; [|now right]. left.
  apply lookup_str_some in E. now destruct (kw_row_facts _ _ E).
Qed.

Lemma kw_or_ident_kw w : is_keyword_text w = false -> kw_or_ident_of w = TIdent.
Proof. unfold is_keyword_text, kw_or_ident_of. destruct (lookup_str w doc_keywords); [discriminate|reflexivity]. Qed.

Lemma kw_or_ident_not_ident w : kw_or_ident_of w <> TIdent -> is_keyword_text w = true.
Proof. unfold is_keyword_text, kw_or_ident_of. destruct (lookup_str w doc_keywords); [reflexivity|congruence]. Qed.

Lemma relex_word fuel w k rest :
  id_b d w = true -> (k = kw_or_ident_of w \/ (k = TIdent /\ keyword_colon d = true)) ->
  follow_ok d k w rest = true -> length (w ++ rest) < fuel ->
  scan_token cfg fuel (w ++ rest) = ScanTok k (length w).
Proof.
  intros Hi Hk Hfol Hf.
  (* reduce follow_ok to word_follow *)
  assert (Hwf : word_follow d (match k with TIdent => true | _ => false end) w rest = true /\
                (k = TIdent \/ (k = kw_or_ident_of w /\ k <> TIdent))).
  { destruct Hk as [Hk|[Hk Hkc]].
    - destruct (kw_or_ident_special w) as [Hsp|Hid].
      + rewrite <- Hk in Hsp. rewrite follow_ok_plain in Hfol by exact Hsp.
        assert (Hsym : is_symbol_kind k = false).
        { subst k. unfold kw_or_ident_of in *. destruct (lookup_str w doc_keywords) as [k|] eqn:E; [|discriminate].
          apply lookup_str_some in E. now destruct (kw_row_facts _ _ E) as (_ & ? & _). }
        rewrite Hsym in Hfol. split; [destruct k; try discriminate; exact Hfol|]. right. split; [exact Hk|]. intros ->. discriminate.
      + rewrite Hid in Hk. subst k. cbn [follow_ok] in Hfol. rewrite (id_not_dash _ Hi) in Hfol. split; [exact Hfol|now left].
    - subst k. cbn [follow_ok] in Hfol. rewrite (id_not_dash _ Hi) in Hfol. split; [exact Hfol|now left]. }
  destruct Hwf as [Hwf Hkind]. unfold word_follow in Hwf. apply andb_true_iff in Hwf. destruct Hwf as [Hidf Hwf].
  destruct (id_len_exact d w rest Hi) as [_ Hex]. specialize (Hex Hidf).
  rewrite (scan_token_app fuel w rest Hi Hex). unfold scan_after.
  assert (Hres : forall is_ident, (negb is_ident || negb (is_keyword_text w)) = true ->
                 is_ident = (match k with TIdent => true | _ => false end) -> kw_or_ident_of w = k).
  { intros b Hb Hbk. destruct Hkind as [->|[Hk' Hne]].
    - subst b. cbn [negb orb] in Hb. apply negb_true_iff in Hb. now apply kw_or_ident_kw.
    - now symmetry. }
  rewrite app_length in Hf.
  destruct rest as [|c r].
  - cbn [head_is]. destruct fuel; [lia|]. cbn [seg_loop andb]. rewrite (Hres _ Hwf eq_refl). reflexivity.
  - cbn [head_is]. destruct (c =? c_minus)%N eqn:Em.
    + apply andb_true_iff in Hwf. destruct Hwf as [Hwf Hb]. apply andb_true_iff in Hwf. destruct Hwf as [Hdd Hz].
      apply negb_true_iff in Hdd, Hz. rewrite Hz, Hdd, (Hres _ Hb eq_refl). reflexivity.
    + destruct (c =? c_colon)%N eqn:Ec.
      * apply andb_true_iff in Hwf. destruct Hwf as [Hsi Hkw]. apply negb_true_iff in Hsi.
        rewrite seg_loop_zero; [|exact is_sep_colon|cbn [length] in *; lia|cbn [no_seg]; rewrite Ec, Hsi; reflexivity].
        cbn [andb]. destruct (keyword_colon d) eqn:Ekc.
        -- destruct Hkind as [->|[Hk' Hne]]; [reflexivity|]. exfalso.
           rewrite (kw_or_ident_not_ident w) in Hkw by congruence. destruct k; try congruence; discriminate.
        -- destruct Hkind as [->|[Hk' Hne]]; [|now rewrite <- Hk'].
           destruct (is_keyword_text w) eqn:Ekw; [discriminate|]. now rewrite kw_or_ident_kw.
      * rewrite seg_loop_zero; [|exact is_sep_colon|cbn [length] in *; lia|now apply no_seg_other].
        cbn [andb]. rewrite (Hres _ Hwf eq_refl). reflexivity.
Qed.

(* ------------------------------------------------------------------ relex: package names and paths *)

Lemma vtail_cases ver : vtail_b ver = true -> ver = [] \/ exists v, ver = c_atsign :: v /\ semver_b v = true.
Proof.
  destruct ver as [|c v]; [now left|]. cbn [vtail_b]. intros H. apply andb_true_iff in H. destruct H as [Hc H].
  apply N.eqb_eq in Hc. subst c. right. eauto.
Qed.

Lemma id_follow_at w r : id_follow d w (c_atsign :: r) = true.
Proof. now apply id_follow_sep. Qed.

Lemma no_version_other c r : (c =? c_atsign)%N = false -> no_version (c :: r) = true.
Proof. intros H. cbn [no_version]. now rewrite H. Qed.

Lemma head_is_false c x r : (x =? c)%N = false -> head_is c (x :: r) = false.
Proof. intros H. exact H. Qed.

(** Stop conditions that [pkg_follow] provides after the core of a package name [a] (no version). *)
Lemma pkg_follow_stops path a rest :
  pkg_follow d path a rest = true -> nosep c_atsign a = true ->
  id_follow d a rest = true /\ no_seg d c_slash rest = true /\ no_version rest = true /\
  (path = false -> no_seg d c_colon rest = true /\
                   (pkg_separator_zone d && (head_is c_minus rest || head_is c_colon rest)) = false).
Proof.
  intros H Ha. unfold pkg_follow, split_version in H. rewrite (split_first_nosep _ _ Ha) in H.
  apply andb_true_iff in H. destruct H as [Hidf H]. split; [exact Hidf|].
  destruct rest as [|c r].
  { split; [reflexivity|split; [reflexivity|]]. intros _. split; [reflexivity|]. now rewrite andb_false_r. }
  destruct (c =? c_minus)%N eqn:Em.
  { apply N.eqb_eq in Em. subst c. split; [reflexivity|split; [reflexivity|]]. intros ->. cbn [orb] in H. split; [reflexivity|].
    cbn [head_is]. rewrite N.eqb_refl. cbn [orb]. apply negb_true_iff in H. now rewrite H. }
  destruct (c =? c_colon)%N eqn:Ec.
  { apply N.eqb_eq in Ec. subst c. split; [reflexivity|split; [reflexivity|]]. intros ->. cbn [orb] in H. apply andb_true_iff in H.
    destruct H as [H1 H2]. apply negb_true_iff in H1, H2. split.
    - cbn [no_seg]. rewrite N.eqb_refl, H1. reflexivity.
    - now rewrite H2. }
  destruct (c =? c_slash)%N eqn:Es.
  { apply N.eqb_eq in Es. subst c. apply negb_true_iff in H. split; [|split; [reflexivity|]].
    - cbn [no_seg]. rewrite N.eqb_refl, H. reflexivity.
    - intros _. split; [reflexivity|]. now rewrite andb_false_r. }
  destruct (c =? c_atsign)%N eqn:Ea.
  { apply N.eqb_eq in Ea. subst c. apply negb_true_iff in H. split; [reflexivity|split].
    - cbn [no_version]. rewrite N.eqb_refl, H. reflexivity.
    - intros _. split; [reflexivity|]. now rewrite andb_false_r. }
  split; [now apply no_seg_other|split; [now apply no_version_other|]]. intros _. split; [now apply no_seg_other|].
  cbn [head_is]. rewrite Em, Ec. now rewrite andb_false_r.
Qed.

Lemma pkg_follow_version path a v rest :
  nosep c_atsign a = true -> pkg_follow d path (a ++ c_atsign :: v) rest = semver_follow v rest.
Proof. intros Ha. unfold pkg_follow, split_version. now rewrite (split_first_app_sep _ _ _ Ha). Qed.

Lemma seg_loop_S fuel c segs Y n : segs <> [] -> seg_loop fuel au c Y = length (chain_text c segs) -> n = length (chain_text c segs) ->
  exists m, n = S m.
Proof. intros Hne _ ->. destruct segs as [|j segs]; [congruence|]. rewrite length_chain_cons. eauto. Qed.

Lemma relex_name fuel i segs ver rest :
  id_b d i = true -> segs <> [] -> forallb (id_b d) segs = true -> vtail_b ver = true ->
  pkg_follow d false (i ++ chain_text c_colon segs ++ ver) rest = true ->
  length ((i ++ chain_text c_colon segs ++ ver) ++ rest) < fuel ->
  scan_token cfg fuel ((i ++ chain_text c_colon segs ++ ver) ++ rest) =
  ScanTok TPackageName (length (i ++ chain_text c_colon segs ++ ver)).
Proof.
  intros Hi Hne Hs Hv Hfol Hf. set (cC := chain_text c_colon segs) in *.
  assert (HcC : exists r', cC = c_colon :: r').
  { unfold cC. destruct segs as [|j segs]; [congruence|]. rewrite chain_text_cons. eauto. }
  destruct HcC as (rC & HrC).
  replace ((i ++ cC ++ ver) ++ rest) with (i ++ cC ++ ver ++ rest) in * by now rewrite <- !app_assoc.
  assert (Hidl : id_len au (i ++ cC ++ ver ++ rest) = length i).
  { destruct (id_len_exact d i (cC ++ ver ++ rest) Hi) as [_ H]. apply H. rewrite HrC. cbn [app]. apply id_follow_sep. exact is_sep_colon. }
  rewrite (scan_token_app fuel i _ Hi Hidl). unfold scan_after. rewrite HrC at 1. cbn [app head_is].
  change (c_colon =? c_minus)%N with false. cbn iota.
  assert (Hnosep : nosep c_atsign (i ++ cC) = true) by (apply (core_nosep d); auto; exact is_sep_at).
  (* stop conditions for the chain of [: id] *)
  assert (Hstops : no_seg d c_colon (ver ++ rest) = true /\ id_follow d cC (ver ++ rest) = true /\
                   (pkg_separator_zone d && (head_is c_minus (ver ++ rest) || head_is c_colon (ver ++ rest))) = false /\
                   no_seg d c_slash (ver ++ rest) = true /\ vtail_stop ver rest = true).
  { destruct (vtail_cases _ Hv) as [->|(v & -> & Hsv)].
    - rewrite app_nil_r in Hfol. cbn [app]. destruct (pkg_follow_stops false (i ++ cC) rest Hfol Hnosep) as (H1 & H2 & H3 & H4).
      destruct (H4 eq_refl) as [H5 H6].
      assert (H1' : id_follow d cC rest = true).
      { unfold cC in *. rewrite id_follow_app_chain in H1; [exact H1|exact is_sep_colon|exact Hne|exact Hs]. }
      repeat split; auto.
    - cbn [app]. repeat split; try reflexivity.
      + apply id_follow_at.
      + cbn [head_is]. now rewrite andb_false_r.
      + cbn [vtail_stop]. rewrite app_assoc, pkg_follow_version in Hfol by exact Hnosep. exact Hfol. }
  destruct Hstops as (S1 & S2 & S3 & S4 & S5).
  rewrite !app_length in Hf.
  destruct (seg_loop_exact d c_colon is_sep_colon segs (ver ++ rest) fuel Hs) as [_ HexC].
  { fold cC. rewrite !app_length. lia. }
  fold cC in HexC. rewrite (HexC S1 (fun _ => S2)).
  destruct (length cC) as [|m] eqn:El; [rewrite HrC in El; discriminate|]. rewrite <- El, skipn_app_exact, S3.
  rewrite seg_loop_zero; [|exact is_sep_slash|rewrite app_length; lia|exact S4].
  destruct (version_tail_exact ver rest Hv) as [_ Hvt]. rewrite (Hvt S5), !app_length. f_equal. lia.
Qed.

Lemma relex_path fuel i segs path ver rest :
  id_b d i = true -> segs <> [] -> forallb (id_b d) segs = true -> path <> [] -> forallb (id_b d) path = true ->
  vtail_b ver = true ->
  pkg_follow d true (i ++ chain_text c_colon segs ++ chain_text c_slash path ++ ver) rest = true ->
  length ((i ++ chain_text c_colon segs ++ chain_text c_slash path ++ ver) ++ rest) < fuel ->
  scan_token cfg fuel ((i ++ chain_text c_colon segs ++ chain_text c_slash path ++ ver) ++ rest) =
  ScanTok TPackagePath (length (i ++ chain_text c_colon segs ++ chain_text c_slash path ++ ver)).
Proof.
  intros Hi Hne Hs Hpne Hp Hv Hfol Hf. set (cC := chain_text c_colon segs) in *. set (cP := chain_text c_slash path) in *.
  assert (HcC : exists r', cC = c_colon :: r').
  { unfold cC. destruct segs as [|j segs]; [congruence|]. rewrite chain_text_cons. eauto. }
  assert (HcP : exists r', cP = c_slash :: r').
  { unfold cP. destruct path as [|j path]; [congruence|]. rewrite chain_text_cons. eauto. }
  destruct HcC as (rC & HrC). destruct HcP as (rP & HrP).
  replace ((i ++ cC ++ cP ++ ver) ++ rest) with (i ++ cC ++ cP ++ ver ++ rest) in * by now rewrite <- !app_assoc.
  assert (Hidl : id_len au (i ++ cC ++ cP ++ ver ++ rest) = length i).
  { destruct (id_len_exact d i (cC ++ cP ++ ver ++ rest) Hi) as [_ H]. apply H. rewrite HrC. cbn [app]. apply id_follow_sep. exact is_sep_colon. }
  rewrite (scan_token_app fuel i _ Hi Hidl). unfold scan_after. rewrite HrC at 1. cbn [app head_is].
  change (c_colon =? c_minus)%N with false. cbn iota.
  assert (Hnosep : nosep c_atsign ((i ++ cC) ++ cP) = true).
  { rewrite nosep_app. assert (H0 : nosep c_atsign (i ++ cC) = true) by (apply (core_nosep d); auto; exact is_sep_at).
    rewrite H0. apply (chain_nosep d c_slash c_atsign); auto. }
  assert (Hstops : no_seg d c_slash (ver ++ rest) = true /\ id_follow d cP (ver ++ rest) = true /\ vtail_stop ver rest = true).
  { destruct (vtail_cases _ Hv) as [->|(v & -> & Hsv)].
    - rewrite app_nil_r in Hfol. cbn [app].
      assert (Hfol' : pkg_follow d true ((i ++ cC) ++ cP) rest = true) by (rewrite <- !app_assoc; exact Hfol).
      destruct (pkg_follow_stops true ((i ++ cC) ++ cP) rest Hfol' Hnosep) as (H1 & H2 & H3 & _).
      assert (H1' : id_follow d cP rest = true).
      { unfold cP in *. rewrite id_follow_app_chain in H1; [exact H1|exact is_sep_slash|exact Hpne|exact Hp]. }
      repeat split; auto.
    - cbn [app]. repeat split; try reflexivity.
      + apply id_follow_at.
      + cbn [vtail_stop]. replace (i ++ cC ++ cP ++ c_atsign :: v) with (((i ++ cC) ++ cP) ++ c_atsign :: v) in Hfol by now rewrite <- !app_assoc.
        rewrite pkg_follow_version in Hfol by exact Hnosep. exact Hfol. }
  destruct Hstops as (S1 & S2 & S3).
  rewrite !app_length in Hf.
  destruct (seg_loop_exact d c_colon is_sep_colon segs (cP ++ ver ++ rest) fuel Hs) as [_ HexC].
  { fold cC. rewrite !app_length. lia. }
  fold cC in HexC. rewrite HexC.
  2:{ rewrite HrP. cbn [app]. now apply no_seg_other. }
  2:{ intros _. rewrite HrP. cbn [app]. apply id_follow_sep. exact is_sep_slash. }
  destruct (length cC) as [|m] eqn:El; [rewrite HrC in El; discriminate|]. rewrite <- El, skipn_app_exact.
  rewrite HrP at 1 2. cbn [app head_is]. change (c_slash =? c_minus)%N with false. change (c_slash =? c_colon)%N with false.
  cbn [orb]. rewrite andb_false_r.
  destruct (seg_loop_exact d c_slash is_sep_slash path (ver ++ rest) fuel Hp) as [_ HexP].
  { fold cP. rewrite !app_length. lia. }
  fold cP in HexP. rewrite (HexP S1 (fun _ => S2)).
  destruct (length cP) as [|m'] eqn:El'; [rewrite HrP in El'; discriminate|]. rewrite <- El', skipn_app_exact.
  destruct (version_tail_exact ver rest Hv) as [_ Hvt]. rewrite (Hvt S3), !app_length. f_equal. lia.
Qed.

(* ------------------------------------------------------------------ relex_stable *)

Theorem relex_stable_scan fuel s k n fuel' rest :
  length s < fuel -> scan_token cfg fuel s = ScanTok k n ->
  follow_ok d k (firstn n s) rest = true -> length (firstn n s ++ rest) < fuel' ->
  scan_token cfg fuel' (firstn n s ++ rest) = ScanTok k n.
Proof.
  intros Hf Hscan Hfol Hf'. destruct (id_len au s) as [|n0] eqn:En.
  - rewrite scan_token_unfold in Hscan. destruct s as [|c r]; [discriminate|]. destruct (c =? c_quote)%N eqn:Eq.
    + (* string *)
      apply N.eqb_eq in Eq. subst c. destruct (find_char c_quote r) as [m|] eqn:Ef; [|discriminate].
      inversion Hscan; subst k n. destruct (find_char_spec _ _ _ Ef) as (body & rest0 & -> & <- & Hb).
      change (firstn (S (S (length body))) (c_quote :: body ++ c_quote :: rest0))
        with (c_quote :: firstn (S (length body)) (body ++ c_quote :: rest0)).
      rewrite firstn_app_S. rewrite scan_token_unfold. cbn [app]. rewrite N.eqb_refl, <- app_assoc. cbn [app].
      now rewrite find_char_complete.
    + (* punctuation *)
      cbn [allow_upper cfg_with symbols] in Hscan. rewrite En in Hscan.
      destruct (best_symbol (symbols base) (c :: r)) as [[k' n']|] eqn:Eb; [|discriminate]. inversion Hscan; subst k' n'.
      destruct (best_symbol_spec _ _ _ _ Eb) as [(x & Hin & Hs & Hne & ->) _].
      rewrite (starts_with_firstn _ _ Hs) in *. pose proof Hin as Hin'. apply Htab in Hin'.
      destruct (sym_row_facts _ _ Hin') as (Hsp & Hsym & c0 & r0 & -> & Ha & Hp & Hq).
      rewrite follow_ok_plain, Hsym in Hfol by exact Hsp.
      rewrite scan_token_unfold. cbn [app]. rewrite Hq. cbn [allow_upper cfg_with symbols]. rewrite (not_alpha_id_len _ _ Ha Hp).
      change (c0 :: r0 ++ rest) with ((c0 :: r0) ++ rest).
      rewrite (best_symbol_complete (symbols base) ((c0 :: r0) ++ rest) (c0 :: r0) k); auto.
      * intros y k1 k2 H1 H2. apply Htab in H1, H2. eapply sym_key_unique; eauto.
      * apply starts_with_app.
      * intros y k' Hy Hsy Hney. apply Htab in Hy. unfold symbol_follow in Hfol. rewrite forallb_forall in Hfol.
        specialize (Hfol _ Hy). cbn [fst] in Hfol. rewrite Hsy in Hfol. cbn [negb orb] in Hfol. now apply Nat.leb_le in Hfol.
  - destruct (scan_token_shape_eq d base Htab fuel s Hf) as (x & Hx & Hres); [congruence|]. rewrite Hres in Hscan.
    pose proof (shape_text d _ _ _ Hx) as Hs.
    destruct Hx as (_ & Hi & _ & Hst & HidsC & _ & _ & _ & HidsP & _ & _ & _ & Hv & _).
    destruct (scan_result_produced _ _ _ Hscan) as [Hdd Hz -> -> Hhd | -> Hw Hk | HneC HP -> -> | HneC HneP -> ->].
    + (* identifier with a dangling dash *)
      destruct (head_is_inv _ _ Hhd) as (r' & Er).
      assert (Hs' : s = sh_id x ++ c_minus :: r') by (rewrite Hs at 1; rewrite <- Er; reflexivity).
      rewrite Hs', firstn_app_S in *. cbn [follow_ok] in Hfol. rewrite (dash_ident_intro d _ Hi) in Hfol.
      apply negb_true_iff in Hfol. rewrite <- app_assoc in *. cbn [app] in *.
      assert (Hidl : id_len au (sh_id x ++ c_minus :: rest) = length (sh_id x)).
      { destruct (id_len_exact d (sh_id x) (c_minus :: rest) Hi) as [_ H]. apply H. unfold id_follow. cbn [word_stop].
        change (if last_case (sh_id x) false then upper_or_digit c_minus else lower_or_digit c_minus)
          with (cont_b (last_case (sh_id x) false) c_minus). rewrite cont_b_minus, N.eqb_refl, Hfol. reflexivity. }
      rewrite (scan_token_app fuel' _ _ Hi Hidl). unfold scan_after. cbn [head_is]. rewrite N.eqb_refl, Hz, Hdd. reflexivity.
    + (* identifier or keyword *)
      rewrite Hs, firstn_app_exact in *. now apply relex_word.
    + (* package name *)
      rewrite HP in Hs. cbn [chain_text map concat app] in Hs.
      change (concat (map (cons c_colon) (sh_colon x))) with (chain_text c_colon (sh_colon x)) in Hs.
      replace (sh_id x ++ chain_text c_colon (sh_colon x) ++ sh_ver x ++ sh_rest x)
        with ((sh_id x ++ chain_text c_colon (sh_colon x) ++ sh_ver x) ++ sh_rest x) in Hs by now rewrite <- !app_assoc.
      rewrite Hs, firstn_app_exact in *. now apply relex_name.
    + (* package path *)
      replace (sh_id x ++ chain_text c_colon (sh_colon x) ++ chain_text c_slash (sh_slash x) ++ sh_ver x ++ sh_rest x)
        with ((sh_id x ++ chain_text c_colon (sh_colon x) ++ chain_text c_slash (sh_slash x) ++ sh_ver x) ++ sh_rest x) in Hs
        by now rewrite <- !app_assoc.
      rewrite Hs, firstn_app_exact in *. now apply relex_path.
Qed.

End Relex.
