(** Lexer classes, part B: the segment scanner [seg_loop] (a chain of [sep id]), the version scanners
    [semver_len] / [version_tail_len], and the split/join lemmas that connect the classes of
    spec/LexClasses.v (defined by splitting a text at its separators) with concatenations. *)
From WacV Require Import Str Token Lexer LexSpec Semver Ast Parser LexClasses LexerSound LexerClassA.
From Coq Require Import Lia.
Local Open Scope nat_scope.

(* ------------------------------------------------------------------ split / join *)

Definition nosep (c : N) (w : str) : bool := forallb (fun x => negb (x =? c)%N) w.

(** [sep w1 sep w2 ...] *)
Definition chain_text (c : N) (segs : list str) : str := concat (map (cons c) segs).

Lemma chain_text_cons c i segs : chain_text c (i :: segs) = c :: i ++ chain_text c segs.
Proof. reflexivity. Qed.

Lemma nosep_app c a b : nosep c (a ++ b) = nosep c a && nosep c b.
Proof. apply forallb_app. Qed.

Lemma split_on_nosep c w : nosep c w = true -> split_on c w = [w].
Proof.
  induction w as [|x w IH]; [reflexivity|]. cbn [nosep forallb split_on]. intros H. apply andb_true_iff in H.
  destruct H as [Hx H]. apply negb_true_iff in Hx. rewrite Hx, (IH H). reflexivity.
Qed.

Lemma split_on_app_sep c a b : nosep c a = true -> split_on c (a ++ c :: b) = a :: split_on c b.
Proof.
  induction a as [|x a IH]; cbn [app nosep forallb split_on].
  - intros _. now rewrite N.eqb_refl.
  - intros H. apply andb_true_iff in H. destruct H as [Hx H]. apply negb_true_iff in Hx. rewrite Hx, (IH H). reflexivity.
Qed.

(** [i ++ chain_text c segs] splits back into [i :: segs]. *)
Lemma split_on_chain c : forall segs i,
  nosep c i = true -> forallb (nosep c) segs = true -> split_on c (i ++ chain_text c segs) = i :: segs.
Proof.
  induction segs as [|j segs IH]; intros i Hi Hs.
  - cbn [chain_text map concat]. rewrite app_nil_r. now apply split_on_nosep.
  - rewrite chain_text_cons. cbn [forallb] in Hs. apply andb_true_iff in Hs. destruct Hs as [Hj Hs].
    rewrite split_on_app_sep by assumption. now rewrite IH.
Qed.

(** Conversely every text is its first piece followed by the chain of the others. *)
Lemma split_on_join c : forall s, exists i segs,
  split_on c s = i :: segs /\ s = i ++ chain_text c segs /\ nosep c i = true /\ forallb (nosep c) segs = true.
Proof.
  induction s as [|x s IH].
  - exists [], []. repeat split; reflexivity.
  - destruct IH as (i & segs & Hsp & Hs & Hi & Hsegs). cbn [split_on]. destruct (x =? c)%N eqn:E.
    + apply N.eqb_eq in E. subst x. exists [], (i :: segs). rewrite Hsp. repeat split.
      * rewrite chain_text_cons. cbn [app]. now rewrite <- Hs.
      * cbn [forallb]. now rewrite Hi, Hsegs.
    + rewrite Hsp. exists (x :: i), segs. repeat split; auto.
      * cbn [app]. now rewrite <- Hs.
      * cbn [nosep forallb]. rewrite E. cbn [negb andb]. exact Hi.
Qed.

Lemma chain_text_app c a b : chain_text c (a ++ b) = chain_text c a ++ chain_text c b.
Proof. unfold chain_text. now rewrite map_app, concat_app. Qed.

Lemma chain_text_nil_iff c segs : chain_text c segs = [] <-> segs = [].
Proof. destruct segs; [tauto|]. rewrite chain_text_cons. split; discriminate. Qed.

Lemma split_first_nosep c w : nosep c w = true -> split_first c w = None.
Proof.
  induction w as [|x w IH]; [reflexivity|]. cbn [nosep forallb split_first]. intros H. apply andb_true_iff in H.
  destruct H as [Hx H]. apply negb_true_iff in Hx. rewrite Hx, (IH H). reflexivity.
Qed.

Lemma split_first_app_sep c a b : nosep c a = true -> split_first c (a ++ c :: b) = Some (a, b).
Proof.
  induction a as [|x a IH]; cbn [app nosep forallb split_first].
  - intros _. now rewrite N.eqb_refl.
  - intros H. apply andb_true_iff in H. destruct H as [Hx H]. apply negb_true_iff in Hx. rewrite Hx, (IH H). reflexivity.
Qed.

Lemma split_first_inv c : forall w a b, split_first c w = Some (a, b) -> w = a ++ c :: b /\ nosep c a = true.
Proof.
  induction w as [|x w IH]; intros a b; cbn [split_first]; [discriminate|]. destruct (x =? c)%N eqn:E.
  - intros H. inversion H; subst. apply N.eqb_eq in E. subst x. now split.
  - destruct (split_first c w) as [[a' b']|]; [|discriminate]. intros H. inversion H; subst.
    destruct (IH a' b eq_refl) as [-> Hn]. split; [reflexivity|]. cbn [nosep forallb]. rewrite E. exact Hn.
Qed.

Lemma split_first_none_nosep c : forall w, split_first c w = None -> nosep c w = true.
Proof.
  induction w as [|x w IH]; [reflexivity|]. cbn [split_first nosep forallb]. destruct (x =? c)%N; [discriminate|].
  destruct (split_first c w) as [[a b]|]; [discriminate|]. intros _. now apply IH.
Qed.

Lemma forallb_impl {A} (p q : A -> bool) l : (forall x, p x = true -> q x = true) -> forallb p l = true -> forallb q l = true.
Proof.
  intros Hpq. induction l as [|x l IH]; cbn [forallb]; auto. intros H. apply andb_true_iff in H. destruct H as [Hx H].
  now rewrite (Hpq _ Hx), IH.
Qed.

Section Seg.
Variable d : deviations.
Notation au := (uppercase_words d).

(** Separators are not id characters. *)
Definition is_sep (c : N) : bool := negb (id_char c) && negb (c =? c_percent)%N.

Lemma id_nosep c w : is_sep c = true -> id_b d w = true -> nosep c w = true.
Proof.
  intros Hc H. apply id_b_chars in H. eapply forallb_impl; [|exact H]. cbn. intros x Hx.
  apply negb_true_iff, N.eqb_neq. intros ->. unfold is_sep in Hc. apply andb_true_iff in Hc. destruct Hc as [H1 H2].
  apply negb_true_iff in H1, H2. rewrite H1, H2 in Hx. discriminate.
Qed.

Lemma ids_nosep c segs : is_sep c = true -> forallb (id_b d) segs = true -> forallb (nosep c) segs = true.
Proof. intros Hc. apply forallb_impl. intros x. now apply id_nosep. Qed.

Lemma chain_nosep c c' segs :
  is_sep c' = true -> (c' =? c)%N = false -> forallb (id_b d) segs = true -> nosep c' (chain_text c segs) = true.
Proof.
  intros Hc Hne. induction segs as [|i segs IH]; [reflexivity|]. cbn [forallb]. intros H. apply andb_true_iff in H.
  destruct H as [Hi H]. rewrite chain_text_cons. cbn [nosep forallb]. rewrite N.eqb_sym, Hne. cbn [negb andb].
  change (nosep c' (i ++ chain_text c segs) = true). rewrite nosep_app, (id_nosep _ _ Hc Hi), (IH H). reflexivity.
Qed.

Lemma is_sep_not_cont up c : is_sep c = true -> cont_b up c = false.
Proof.
  unfold is_sep, id_char, is_alpha. intros H. apply andb_true_iff in H. destruct H as [H _]. apply negb_true_iff in H.
  apply orb_false_iff in H. destruct H as [H _]. apply orb_false_iff in H. destruct H as [H Hd]. apply orb_false_iff in H.
  destruct H as [Hu Hl]. destruct up; cbn [cont_b]; unfold upper_or_digit, lower_or_digit; now rewrite ?Hu, ?Hl, Hd.
Qed.

Lemma is_sep_not_minus c : is_sep c = true -> (c =? c_minus)%N = false.
Proof.
  unfold is_sep, id_char. intros H. apply andb_true_iff in H. destruct H as [H _]. apply negb_true_iff in H.
  apply orb_false_iff in H. now destruct H.
Qed.

Lemma is_sep_not_alpha c : is_sep c = true -> is_alpha c = false.
Proof.
  unfold is_sep, id_char. intros H. apply andb_true_iff in H. destruct H as [H _]. apply negb_true_iff in H.
  apply orb_false_iff in H. destruct H as [H _]. apply orb_false_iff in H. now destruct H.
Qed.

(** After an id, a separator stops the id scanner. *)
Lemma id_follow_sep w c r : is_sep c = true -> id_follow d w (c :: r) = true.
Proof.
  intros Hc. unfold id_follow. cbn [word_stop].
  change (if last_case w false then upper_or_digit c else lower_or_digit c) with (cont_b (last_case w false) c).
  now rewrite (is_sep_not_cont _ _ Hc), (is_sep_not_minus _ Hc).
Qed.

(* ------------------------------------------------------------------ last_case *)

Lemma last_case_app a b x : last_case (a ++ b) x = last_case b (last_case a x).
Proof. revert x. induction a as [|c a IH]; intros x; cbn [app last_case]; auto. Qed.

Lemma kebab_last_case w x y : kebab_b d w = true -> last_case w x = last_case w y.
Proof.
  intros H. pose proof (kebab_starts d _ H) as Hs. destruct w as [|c r]; [discriminate|]. cbn [starts_word] in Hs.
  cbn [last_case]. unfold is_alpha. apply orb_true_iff in Hs. destruct Hs as [Hs|Hs].
  - rewrite Hs, orb_true_r. reflexivity.
  - apply andb_true_iff in Hs. destruct Hs as [_ Hs]. rewrite Hs. reflexivity.
Qed.

Lemma id_last_case w x y : id_b d w = true -> last_case w x = last_case w y.
Proof.
  unfold id_b. destruct w as [|c r]; [cbn [strip_percent]; rewrite kebab_b_nil; discriminate|].
  cbn [strip_percent]. destruct (c =? c_percent)%N eqn:E.
  - apply N.eqb_eq in E. subst c. intros H. rewrite !last_case_percent. now apply kebab_last_case.
  - apply kebab_last_case.
Qed.

Lemma chain_last_case c segs x y :
  is_sep c = true -> segs <> [] -> forallb (id_b d) segs = true ->
  last_case (chain_text c segs) x = last_case (chain_text c segs) y.
Proof.
  intros Hc. revert x y. induction segs as [|i segs IH]; intros x y Hne H; [congruence|]. cbn [forallb] in H.
  apply andb_true_iff in H. destruct H as [Hi H]. rewrite chain_text_cons. cbn [last_case].
  rewrite (is_sep_not_alpha _ Hc). rewrite !last_case_app. destruct segs as [|j segs].
  - cbn [chain_text map concat last_case]. now apply id_last_case.
  - apply IH; [discriminate|exact H].
Qed.

Lemma id_follow_app_id a i rest : id_b d i = true -> id_follow d (a ++ i) rest = id_follow d i rest.
Proof. intros H. unfold id_follow. rewrite last_case_app. now rewrite (id_last_case i _ false H). Qed.

Lemma id_follow_app_chain c a segs rest :
  is_sep c = true -> segs <> [] -> forallb (id_b d) segs = true ->
  id_follow d (a ++ chain_text c segs) rest = id_follow d (chain_text c segs) rest.
Proof. intros Hc Hne H. unfold id_follow. rewrite last_case_app. now rewrite (chain_last_case c segs _ false Hc Hne H). Qed.

(* ------------------------------------------------------------------ seg_loop *)

(** [rest] does not start with [sep id]. *)
Definition no_seg (c : N) (rest : str) : bool :=
  match rest with x :: r => negb ((x =? c)%N && starts_id d r) | [] => true end.

Lemma length_chain_cons c i segs : length (chain_text c (i :: segs)) = S (length i + length (chain_text c segs)).
Proof. rewrite chain_text_cons. cbn [length]. now rewrite app_length. Qed.

(** soundness and stop condition *)
Lemma seg_loop_sound c (Hc : is_sep c = true) : forall fuel s, length s < fuel ->
  exists segs, firstn (seg_loop fuel au c s) s = chain_text c segs /\ forallb (id_b d) segs = true /\
               no_seg c (skipn (seg_loop fuel au c s) s) = true /\
               (segs <> [] -> id_follow d (chain_text c segs) (skipn (seg_loop fuel au c s) s) = true).
Proof.
  induction fuel as [|f IH]; intros s Hf; [lia|]. cbn [seg_loop]. destruct s as [|x r].
  { exists []. repeat split; auto; try congruence. }
  destruct (x =? c)%N eqn:E.
  2:{ exists []. cbn [firstn skipn no_seg]. rewrite E. repeat split; auto; try congruence. }
  apply N.eqb_eq in E. subst x.
  destruct (id_len au r) as [|n] eqn:En.
  { exists []. cbn [firstn skipn no_seg]. rewrite N.eqb_refl. apply id_len_zero in En. rewrite En. repeat split; auto; try congruence. }
  pose proof (id_len_le au r) as Hle. rewrite En in Hle.
  assert (Hi : id_b d (firstn (S n) r) = true) by (rewrite <- En; apply id_len_sound; congruence).
  assert (Hst : id_follow d (firstn (S n) r) (skipn (S n) r) = true) by (rewrite <- En; apply id_len_stops; congruence).
  cbn [length] in Hf. destruct (IH (skipn (S n) r)) as (segs & Hfs & Hids & Hno & Hfol).
  { rewrite skipn_length. lia. }
  set (k := seg_loop f au c (skipn (S n) r)) in *.
  remember (firstn (S n) r) as i eqn:Ei. remember (skipn (S n) r) as r1 eqn:Er1.
  exists (i :: segs). rewrite chain_text_cons.
  replace (S (S n) + k) with (S (S n + k)) by lia. cbn [firstn skipn]. rewrite firstn_plus, skipn_plus, <- Ei, <- Er1, Hfs.
  repeat split.
  - cbn [forallb]. now rewrite Hi, Hids.
  - exact Hno.
  - intros _. destruct segs as [|j segs].
    + cbn [chain_text map concat]. rewrite app_nil_r. change (c :: i) with ([c] ++ i).
      rewrite id_follow_app_id by exact Hi. cbn [chain_text map concat] in Hfs.
      assert (Hk : k = 0 \/ r1 = []).
      { destruct k; [now left|]. right. destruct r1; [reflexivity|discriminate]. }
      destruct Hk as [Hk|Hk]; [rewrite Hk; exact Hst|]. rewrite Hk in *. now destruct k.
    + change (c :: i ++ chain_text c (j :: segs)) with ((c :: i) ++ chain_text c (j :: segs)).
      rewrite id_follow_app_chain; [|exact Hc|discriminate|exact Hids]. apply Hfol. discriminate.
Qed.

(** maximality and exactness *)
Lemma seg_loop_exact c (Hc : is_sep c = true) : forall segs rest fuel,
  forallb (id_b d) segs = true -> length (chain_text c segs ++ rest) < fuel ->
  length (chain_text c segs) <= seg_loop fuel au c (chain_text c segs ++ rest) /\
  (no_seg c rest = true -> (segs <> [] -> id_follow d (chain_text c segs) rest = true) ->
   seg_loop fuel au c (chain_text c segs ++ rest) = length (chain_text c segs)).
Proof.
  induction segs as [|i segs IH]; intros rest fuel Hids Hf.
  - cbn [chain_text map concat app length]. split; [lia|]. intros Hno _. destruct fuel as [|f]; [reflexivity|].
    cbn [seg_loop]. destruct rest as [|x r]; [reflexivity|]. cbn [no_seg] in Hno. destruct (x =? c)%N; [|reflexivity].
    cbn [andb negb] in Hno. apply negb_true_iff in Hno. apply id_len_zero in Hno. now rewrite Hno.
  - cbn [forallb] in Hids. apply andb_true_iff in Hids. destruct Hids as [Hi Hids].
    rewrite length_chain_cons. rewrite chain_text_cons in *. cbn [app length] in Hf.
    destruct fuel as [|f]; [lia|]. cbn [app seg_loop]. rewrite N.eqb_refl. rewrite <- app_assoc in *.
    rewrite app_length in Hf.
    destruct (id_len_exact d i (chain_text c segs ++ rest) Hi) as [Hge Hex].
    pose proof (id_b_not_nil d i Hi) as Hne. assert (0 < length i) by (destruct i; [congruence|cbn; lia]).
    destruct segs as [|j segs].
    + (* last segment *)
      cbn [chain_text map concat app length] in *.
      destruct (id_len au (i ++ rest)) as [|n] eqn:En; [lia|]. split; [lia|].
      intros Hno Hfol. specialize (Hfol ltac:(discriminate)).
      change (c :: i ++ []) with ([c] ++ i ++ []) in Hfol. rewrite app_nil_r, id_follow_app_id in Hfol by exact Hi.
      specialize (Hex Hfol). rewrite Hex, skipn_app_exact.
      destruct (IH rest f eq_refl) as [_ H0]; [cbn [chain_text map concat app]; lia|].
      cbn [chain_text map concat app length] in H0. rewrite H0; [lia|exact Hno|congruence].
    + (* inner segment: a separator follows *)
      assert (Hexact : id_len au (i ++ chain_text c (j :: segs) ++ rest) = length i).
      { apply Hex. rewrite chain_text_cons. cbn [app]. now apply id_follow_sep. }
      rewrite Hexact. destruct (length i) as [|n] eqn:El; [lia|]. rewrite <- El, skipn_app_exact.
      destruct (IH rest f Hids) as [H1 H2]; [lia|]. split; [lia|]. intros Hno Hfol.
      rewrite H2; [lia|exact Hno|]. intros _. specialize (Hfol ltac:(discriminate)).
      change (c :: i ++ chain_text c (j :: segs)) with ((c :: i) ++ chain_text c (j :: segs)) in Hfol.
      rewrite id_follow_app_chain in Hfol; [exact Hfol|exact Hc|discriminate|exact Hids].
Qed.

End Seg.

(* ------------------------------------------------------------------ versions *)

Definition ne_vc (w : str) : bool := nonempty_all version_char w.

(** digits* ( '.' group )* *)
Definition num_b (s : str) : bool :=
  match split_on c_period s with
  | num :: groups => forallb is_digit num && forallb ne_vc groups
  | [] => false
  end.
(** group ( '.' group )* *)
Definition grp_b (s : str) : bool := forallb ne_vc (split_on c_period s).
(** inside a group ([ing]) or directly after the digits: the rest of the version *)
Definition vrest_b (ing : bool) (s : str) : bool :=
  match split_on c_period s with
  | seg :: groups => (if ing then forallb version_char seg else is_nil_str seg) && forallb ne_vc groups
  | [] => false
  end.

Lemma version_char_period : version_char c_period = false. Proof. reflexivity. Qed.
Lemma is_digit_period : is_digit c_period = false. Proof. reflexivity. Qed.

Lemma vrest_b_nil ing : vrest_b ing [] = true.
Proof. destruct ing; reflexivity. Qed.

Lemma grp_b_nil : grp_b [] = false. Proof. reflexivity. Qed.

Lemma vrest_b_cons ing c r :
  vrest_b ing (c :: r) = if (c =? c_period)%N then grp_b r else ing && version_char c && vrest_b ing r.
Proof.
  unfold vrest_b, grp_b. cbn [split_on]. destruct (c =? c_period)%N; [now destruct ing|].
  pose proof (split_on_not_nil c_period r). destruct (split_on c_period r) as [|seg segs]; [congruence|].
  destruct ing; cbn [forallb is_nil_str andb]; [now rewrite andb_assoc|reflexivity].
Qed.

Lemma grp_b_cons c r : grp_b (c :: r) = version_char c && vrest_b true r.
Proof.
  unfold vrest_b, grp_b. cbn [split_on]. destruct (c =? c_period)%N eqn:E.
  - apply N.eqb_eq in E. subst c. reflexivity.
  - pose proof (split_on_not_nil c_period r). destruct (split_on c_period r) as [|seg segs]; [congruence|].
    cbn [forallb ne_vc nonempty_all]. now rewrite andb_assoc.
Qed.

Lemma num_b_nil : num_b [] = true. Proof. reflexivity. Qed.

Lemma num_b_cons c r : num_b (c :: r) = if (c =? c_period)%N then grp_b r else is_digit c && num_b r.
Proof.
  unfold num_b, grp_b. cbn [split_on]. destruct (c =? c_period)%N; [reflexivity|].
  pose proof (split_on_not_nil c_period r). destruct (split_on c_period r) as [|seg segs]; [congruence|].
  cbn [forallb]. now rewrite andb_assoc.
Qed.

Lemma semver_b_cons c r : semver_b (c :: r) = is_digit c && num_b r.
Proof.
  unfold semver_b, num_b. cbn [split_on]. destruct (c =? c_period)%N eqn:E.
  - apply N.eqb_eq in E. subst c. reflexivity.
  - pose proof (split_on_not_nil c_period r). destruct (split_on c_period r) as [|seg segs]; [congruence|].
    cbn [nonempty_all forallb]. change (forallb (nonempty_all version_char) segs) with (forallb ne_vc segs).
    now rewrite andb_assoc.
Qed.

Lemma semver_b_nil : semver_b [] = false. Proof. reflexivity. Qed.

Lemma model_semver_char c : semver_char c = version_char c.
Proof. reflexivity. Qed.

(** One-pass form of [semver_len]. *)
Fixpoint num_len (s : str) : nat :=
  match s with c :: r => if is_digit c then S (num_len r) else semver_rest false s | [] => 0 end.

Lemma semver_len_num s : semver_len s = match s with c :: _ => if is_digit c then num_len s else 0 | [] => 0 end.
Proof.
  unfold semver_len. induction s as [|c r IH]; [reflexivity|]. cbn [run_len num_len]. destruct (is_digit c); [|reflexivity].
  destruct r as [|c2 r2]; [reflexivity|]. cbn [run_len] in *. destruct (is_digit c2) eqn:E2.
  - cbn [skipn] in *. rewrite <- IH. destruct (run_len is_digit r2); cbn [skipn]; lia.
  - cbn [skipn num_len]. now rewrite E2.
Qed.

(** in a group ([true]) or in the leading digits ([false]) at the end of the version [v] *)
Definition in_group (v : str) : bool := existsb (N.eqb c_period) v.

Definition vstop (ing : bool) (rest : str) : bool :=
  match rest with
  | [] => true
  | c :: r => negb (if ing then version_char c else is_digit c) &&
              negb ((c =? c_period)%N && match r with c2 :: _ => version_char c2 | [] => false end)
  end.

Lemma semver_follow_vstop v rest : semver_follow v rest = vstop (in_group v) rest.
Proof. reflexivity. Qed.

Lemma semver_rest_sound : forall s ing, vrest_b ing (firstn (semver_rest ing s) s) = true.
Proof.
  fix IH 1. intros s ing. destruct s as [|c r]; [apply vrest_b_nil|]. cbn [semver_rest]. change semver_char with version_char.
  destruct (ing && version_char c) eqn:E.
  - cbn [firstn]. rewrite vrest_b_cons. apply andb_true_iff in E. destruct E as [-> Ec].
    destruct (c =? c_period)%N eqn:Ep; [apply N.eqb_eq in Ep; subst c; discriminate|]. rewrite Ec. apply IH.
  - destruct (c =? c_period)%N eqn:Ep; [|apply vrest_b_nil]. destruct r as [|c2 r2]; [apply vrest_b_nil|].
    change semver_char with version_char. destruct (version_char c2) eqn:E2; [|apply vrest_b_nil].
    cbn [firstn]. rewrite vrest_b_cons, Ep, grp_b_cons, E2. apply IH.
Qed.

Lemma semver_rest_exact : forall w ing rest,
  vrest_b ing w = true ->
  length w <= semver_rest ing (w ++ rest) /\
  (vstop (ing || in_group w) rest = true -> semver_rest ing (w ++ rest) = length w).
Proof.
  fix IH 1. intros w ing rest Hw. destruct w as [|c r].
  - split; [cbn; lia|]. cbn [app length in_group existsb]. rewrite orb_false_r. destruct rest as [|x rest]; [reflexivity|].
    cbn [vstop semver_rest]. change semver_char with version_char. intros H. apply andb_true_iff in H. destruct H as [H1 H2].
    apply negb_true_iff in H1, H2. destruct ing.
    + rewrite H1. cbn [andb]. destruct (x =? c_period)%N; [|reflexivity]. cbn [andb] in H2.
      destruct rest as [|c2 r2]; [reflexivity|]. change semver_char with version_char. rewrite H2. reflexivity.
    + cbn [andb]. destruct (x =? c_period)%N; [|reflexivity]. cbn [andb] in H2.
      destruct rest as [|c2 r2]; [reflexivity|]. change semver_char with version_char. rewrite H2. reflexivity.
  - rewrite vrest_b_cons in Hw. cbn [app semver_rest length in_group existsb]. change semver_char with version_char.
    destruct (c =? c_period)%N eqn:Ep.
    + apply N.eqb_eq in Ep. subst c. rewrite version_char_period, andb_false_r. cbn [N.eqb Pos.eqb c_period].
      rewrite orb_true_r. destruct r as [|c2 r2]; [discriminate|]. rewrite grp_b_cons in Hw. apply andb_true_iff in Hw.
      destruct Hw as [H2 Hw]. cbn [app length]. change semver_char with version_char. rewrite H2. destruct (IH r2 true rest Hw) as [Ha Hb].
      split; [lia|]. intros Hs. cbn [orb] in Hb. now rewrite (Hb Hs).
    + apply andb_true_iff in Hw. destruct Hw as [Hc Hw]. rewrite Hc. apply andb_true_iff in Hc. destruct Hc as [-> _].
      destruct (IH r true rest Hw) as [Ha Hb]. split; [lia|]. cbn [orb] in *. intros Hs.
      now rewrite (Hb Hs).
Qed.

Lemma num_len_sound : forall s, num_b (firstn (num_len s) s) = true.
Proof.
  induction s as [|c r IH]; [reflexivity|]. cbn [num_len]. destruct (is_digit c) eqn:E.
  - cbn [firstn]. rewrite num_b_cons. destruct (c =? c_period)%N eqn:Ep; [apply N.eqb_eq in Ep; subst c; discriminate|].
    now rewrite E, IH.
  - pose proof (semver_rest_sound (c :: r) false) as H. remember (semver_rest false (c :: r)) as n eqn:En.
    destruct n as [|n]; [reflexivity|]. cbn [firstn] in *. rewrite vrest_b_cons in H. rewrite num_b_cons.
    destruct (c =? c_period)%N; [exact H|]. discriminate.
Qed.

Lemma num_len_exact : forall w rest,
  num_b w = true ->
  length w <= num_len (w ++ rest) /\ (vstop (in_group w) rest = true -> num_len (w ++ rest) = length w).
Proof.
  induction w as [|c r IH]; intros rest Hw.
  - split; [cbn; lia|]. cbn [app length in_group existsb]. destruct rest as [|x rest]; [reflexivity|].
    intros Hs. cbn [num_len]. cbn [vstop] in Hs. apply andb_true_iff in Hs. destruct Hs as [H1 H2]. apply negb_true_iff in H1.
    rewrite H1. destruct (semver_rest_exact [] false (x :: rest) eq_refl) as [_ H]. apply H.
    cbn [vstop in_group existsb orb]. rewrite H1, H2. reflexivity.
  - rewrite num_b_cons in Hw. cbn [app num_len length in_group existsb]. destruct (c =? c_period)%N eqn:Ep.
    + apply N.eqb_eq in Ep. subst c. rewrite is_digit_period.
      assert (Hv : vrest_b false (c_period :: r) = true) by (rewrite vrest_b_cons; exact Hw).
      destruct (semver_rest_exact (c_period :: r) false rest Hv) as [Ha Hb]. cbn [app length in_group existsb orb] in *.
      split; [exact Ha|]. exact Hb.
    + apply andb_true_iff in Hw. destruct Hw as [Hc Hw]. rewrite Hc. destruct (IH rest Hw) as [Ha Hb].
      split; [lia|]. rewrite (N.eqb_sym c_period c), Ep. cbn [orb]. intros Hs. now rewrite (Hb Hs).
Qed.

Lemma semver_len_sound s : semver_len s <> 0 -> semver_b (firstn (semver_len s) s) = true.
Proof.
  rewrite semver_len_num. destruct s as [|c r]; [congruence|]. destruct (is_digit c) eqn:E; [|congruence]. intros _.
  cbn [num_len]. rewrite E. cbn [firstn]. rewrite semver_b_cons, E. apply num_len_sound.
Qed.

Lemma semver_len_zero s : semver_len s = 0 <-> starts_version s = false.
Proof.
  rewrite semver_len_num. destruct s as [|c r]; cbn [starts_version]; [tauto|]. destruct (is_digit c) eqn:E; [|tauto].
  cbn [num_len]. rewrite E. split; [lia|discriminate].
Qed.

Lemma semver_len_exact v rest :
  semver_b v = true ->
  length v <= semver_len (v ++ rest) /\ (semver_follow v rest = true -> semver_len (v ++ rest) = length v).
Proof.
  rewrite semver_len_num. destruct v as [|c r]; [discriminate|]. rewrite semver_b_cons. intros H. apply andb_true_iff in H.
  destruct H as [Hc H]. cbn [app num_len length]. rewrite Hc. destruct (num_len_exact r rest H) as [Ha Hb].
  split; [lia|]. rewrite semver_follow_vstop. cbn [in_group existsb].
  destruct (c_period =? c)%N eqn:Ep; [apply N.eqb_eq in Ep; subst c; discriminate|]. cbn [orb]. intros Hs. now rewrite (Hb Hs).
Qed.

(** ('@' version)? *)
Definition vtail_b (w : str) : bool :=
  match w with [] => true | c :: v => (c =? c_atsign)%N && semver_b v end.

Definition no_version (rest : str) : bool :=
  match rest with c :: r => negb ((c =? c_atsign)%N && starts_version r) | [] => true end.

Definition vtail_stop (w rest : str) : bool :=
  match w with [] => no_version rest | _ :: v => semver_follow v rest end.

Lemma version_tail_sound s : vtail_b (firstn (version_tail_len s) s) = true.
Proof.
  destruct s as [|c r]; [reflexivity|]. cbn [version_tail_len]. destruct (c =? c_atsign)%N eqn:E; [|reflexivity].
  pose proof (semver_len_sound r) as H. destruct (semver_len r) as [|n]; [reflexivity|]. cbn [firstn vtail_b]. rewrite E.
  apply H. discriminate.
Qed.

Lemma version_tail_exact w rest :
  vtail_b w = true ->
  length w <= version_tail_len (w ++ rest) /\ (vtail_stop w rest = true -> version_tail_len (w ++ rest) = length w).
Proof.
  destruct w as [|c v]; cbn [vtail_b].
  - intros _. split; [cbn; lia|]. cbn [app length vtail_stop]. destruct rest as [|x r]; [reflexivity|].
    cbn [no_version version_tail_len]. destruct (x =? c_atsign)%N; [|reflexivity]. cbn [andb]. intros H.
    apply negb_true_iff in H. apply semver_len_zero in H. now rewrite H.
  - intros H. apply andb_true_iff in H. destruct H as [Hc H]. cbn [app version_tail_len length vtail_stop]. rewrite Hc.
    destruct (semver_len_exact v rest H) as [Ha Hb]. assert (0 < length v) by (destruct v; [discriminate|cbn; lia]).
    destruct (semver_len (v ++ rest)) as [|n] eqn:En; [lia|]. split; [lia|]. intros Hs. specialize (Hb Hs). lia.
Qed.

Lemma semver_b_nosep c v : version_char c = false -> (c =? c_period)%N = false -> semver_b v = true -> nosep c v = true.
Proof.
  intros Hc Hp. destruct v as [|x v]; [reflexivity|]. rewrite semver_b_cons. intros H. apply andb_true_iff in H.
  destruct H as [Hx H]. cbn [nosep forallb].
  assert (Hd : forall y, is_digit y = true -> (y =? c)%N = false).
  { intros y Hy. apply N.eqb_neq. intros ->. unfold version_char in Hc. now rewrite Hy in Hc. }
  rewrite (Hd _ Hx). cbn [negb andb].
  assert (Hv : forall y, version_char y = true -> (y =? c)%N = false).
  { intros y Hy. apply N.eqb_neq. intros ->. congruence. }
  assert (Hvr : forall w ing, vrest_b ing w = true -> nosep c w = true).
  { fix IH 1. intros w ing. destruct w as [|y w]; [reflexivity|]. rewrite vrest_b_cons. cbn [nosep forallb].
    destruct (y =? c_period)%N eqn:Ey.
    - apply N.eqb_eq in Ey. subst y. rewrite N.eqb_sym, Hp. cbn [negb andb]. destruct w as [|z w]; [discriminate|].
      rewrite grp_b_cons. intros Hz. apply andb_true_iff in Hz. destruct Hz as [Hz Hw]. cbn [forallb]. rewrite (Hv _ Hz).
      cbn [negb andb]. exact (IH w true Hw).
    - intros Hz. apply andb_true_iff in Hz. destruct Hz as [Hz Hw]. apply andb_true_iff in Hz. destruct Hz as [_ Hz].
      rewrite (Hv _ Hz). cbn [negb andb]. exact (IH w ing Hw). }
  revert H. induction v as [|y v IHv]; [reflexivity|]. rewrite num_b_cons. cbn [forallb]. destruct (y =? c_period)%N eqn:Ey.
  - intros H. apply (Hvr (y :: v) false). rewrite vrest_b_cons, Ey. exact H.
  - intros H. apply andb_true_iff in H. destruct H as [Hy H]. rewrite (Hd _ Hy). cbn [negb andb]. now apply IHv.
Qed.
