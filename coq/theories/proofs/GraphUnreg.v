(** C06: [unregister] preserves the invariant, never reaches a bookkeeping panic, succeeds on a live
    package identifier and leaves no node of the package behind. *)
From Coq Require Import List Arith Bool NArith Lia Permutation.
From WacV Require Import Graph GraphInv GraphPrims GraphSteps GraphRemove.
Import ListNotations.

Lemma pkg_eqb_true a id : pkg_eqb a (Some id) = true <-> a = Some id.
Proof.
  destruct a as [[i g]|], id as [j h]; cbn; [|split; discriminate].
  rewrite andb_true_iff, !Nat.eqb_eq. split; [intros [-> ->]|intros [= -> ->]]; auto.
Qed.

(** * [nodes_where] *)
Definition nw_g (f : node -> bool) (p : nat * option node) : list nat :=
  match snd p with Some nd => if f nd then [fst p] else [] | None => [] end.

Lemma nw_in f l : forall a n,
  In n (flat_map (nw_g f) (combine (seq a (length l)) l)) <->
  a <= n /\ exists nd, nth_error l (n - a) = Some (Some nd) /\ f nd = true.
Proof.
  induction l as [|x l IH]; intros a n; cbn [length seq combine flat_map].
  - split; [intros []|]. intros [_ [nd [H _]]]. destruct (n - a); discriminate.
  - rewrite in_app_iff, IH. unfold nw_g at 1. cbn [fst snd]. split.
    + intros [H|[Hle [nd [H1 H2]]]].
      * destruct x as [nd|]; [|destruct H]. destruct (f nd) eqn:Fn; [|destruct H]. destruct H as [<-|[]].
        split; [lia|]. exists nd. rewrite Nat.sub_diag. auto.
      * split; [lia|]. exists nd. replace (n - a) with (S (n - S a)) by lia. auto.
    + intros [Hle [nd [H1 H2]]]. destruct (Nat.eq_dec n a) as [->|Hne].
      * left. rewrite Nat.sub_diag in H1. cbn in H1. injection H1 as ->. rewrite H2. now left.
      * right. split; [lia|]. exists nd. replace (n - a) with (S (n - S a)) in H1 by lia. auto.
Qed.

Lemma nw_nodup f l : forall a, NoDup (flat_map (nw_g f) (combine (seq a (length l)) l)).
Proof.
  induction l as [|x l IH]; intros a; cbn [length seq combine flat_map]; [constructor|].
  unfold nw_g at 1. cbn [fst snd]. destruct x as [nd|]; [destruct (f nd)|]; cbn [app]; auto.
  constructor; auto. intros H. apply nw_in in H as [H _]. lia.
Qed.

Lemma nodes_where_In s f n : In n (nodes_where s f) <-> exists nd, getn (nodes s) n = Some nd /\ f nd = true.
Proof.
  unfold nodes_where. change (In n (flat_map (nw_g f) (combine (seq 0 (length (nodes s))) (nodes s))) <->
                              exists nd, getn (nodes s) n = Some nd /\ f nd = true).
  rewrite nw_in, Nat.sub_0_r. unfold getn. split.
  - intros [_ [nd [H1 H2]]]. exists nd. now rewrite H1.
  - intros [nd [H1 H2]]. split; [lia|]. exists nd. destruct (nth_error (nodes s) n) as [[x|]|]; try discriminate.
    injection H1 as ->. auto.
Qed.

Lemma nodes_where_NoDup s f : NoDup (nodes_where s f).
Proof. unfold nodes_where. apply (nw_nodup f (nodes s) 0). Qed.

(** * dropping a list of nodes *)
Definition mem (l : list nat) (m : nat) : bool := existsb (Nat.eqb m) l.

Lemma mem_In l m : mem l m = true <-> In m l.
Proof. apply existsb_eqb_In. Qed.

Lemma drop_all_nodes l : forall s m,
  getn (nodes (fold_left drop_node l s)) m = if mem l m then None else getn (nodes s) m.
Proof.
  induction l as [|a r IH]; intros s m; cbn [fold_left]; [reflexivity|].
  rewrite IH. cbn [drop_node nodes]. rewrite getn_set_none. unfold mem. cbn [existsb].
  destruct (m =? a); cbn; destruct (existsb _ r); auto.
Qed.

Lemma drop_all_edges l : forall s,
  edges (fold_left drop_node l s) = filter (fun e => negb (mem l (esrc e)) && negb (mem l (etgt e))) (edges s).
Proof.
  induction l as [|a r IH]; intros s; cbn [fold_left].
  - symmetry. apply filter_all. reflexivity.
  - rewrite IH. cbn [drop_node edges]. rewrite filter_filter. apply filter_ext. intros e. unfold mem. cbn [existsb].
    destruct (esrc e =? a), (etgt e =? a), (existsb _ r), (existsb _ r); reflexivity.
Qed.

Lemma drop_all_rest l : forall s,
  imports (fold_left drop_node l s) = imports s /\ exports (fold_left drop_node l s) = exports s /\
  defined (fold_left drop_node l s) = defined s /\ pkgs (fold_left drop_node l s) = pkgs s /\
  free_pkgs (fold_left drop_node l s) = free_pkgs s.
Proof. induction l as [|a r IH]; intros s; cbn [fold_left]; [auto|]. apply (IH (drop_node s a)). Qed.

Lemma drop_all_free l : forall s,
  NoDup l -> (forall m, In m l -> liveb (nodes s) m = true) -> FreeOK (nodes s) (free_nodes s) ->
  FreeOK (nodes (fold_left drop_node l s)) (free_nodes (fold_left drop_node l s)).
Proof.
  induction l as [|a r IH]; intros s ND L F; cbn [fold_left]; auto.
  inversion ND as [|? ? Hn ND']; subst. apply IH; auto.
  - intros m Hm. cbn [drop_node nodes]. unfold liveb. rewrite getn_set_none.
    destruct (Nat.eqb_spec m a) as [->|Hne]; [contradiction|]. apply (L m). now right.
  - cbn [drop_node nodes free_nodes]. specialize (L a (or_introl eq_refl)). apply liveb_true in L as [nd L].
    eapply FreeOK_drop; eauto.
Qed.

(** * the package table *)
Lemma PkgOK_unregister u ns pk fp i g sl p0 :
  PkgOK u ns pk fp -> nth_error pk i = Some sl -> ps_gen sl = g -> ps_pkg sl = Some p0 ->
  (forall n nd, getn ns n = Some nd -> npkg nd <> Some (i, g)) ->
  PkgOK u ns (set_nth pk i {| ps_pkg := None; ps_gen := S g |}) (i :: fp).
Proof.
  intros P Sl G Pp Hno. pose proof P as [A B Fr N].
  assert (Li : i < length pk) by (apply nth_error_Some; congruence).
  eapply PkgOK_pkgs; eauto.
  - intros n nd id Gn K. destruct (A n nd id Gn K) as [q Q]. destruct (Nat.eq_dec (fst id) i) as [Ei|Ei].
    + exfalso. unfold get_pkg_l in Q. rewrite Ei, Sl in Q. destruct (Nat.eqb_spec (ps_gen sl) (snd id)) as [Eg|Eg]; [|discriminate].
      apply (Hno n nd Gn). rewrite K. destruct id as [a b]. cbn in *. subst. reflexivity.
    + now apply get_pkg_l_set_other.
  - intros j [<-|Hj].
    + eexists. rewrite nth_error_set_nth, Nat.eqb_refl. apply Nat.ltb_lt in Li. rewrite Li. split; reflexivity.
    + destruct (Fr j Hj) as [sl' [Sl' Nn]]. rewrite nth_error_set_nth.
      destruct (Nat.eqb_spec j i) as [->|Hne]; [|eauto]. apply Nat.ltb_lt in Li. rewrite Li. eexists. split; reflexivity.
  - constructor; auto. intros Hi. destruct (Fr i Hi) as [sl' [Sl' Nn]]. congruence.
Qed.

(** * unregister *)
Lemma forallb_live_ok {A} ns (l : list (A * nat)) :
  (forall x, In x l -> liveb ns (snd x) = true) -> forallb (fun p => liveb ns (snd p)) l = true.
Proof. intros H. apply forallb_forall. exact H. Qed.

Lemma unregister_spec u s id :
  InvC u s ->
  InvC u (fst (unregister s id)) /\ ok_outcome (snd (unregister s id)) /\
  (get_pkg s id <> None -> snd (unregister s id) = OUnit) /\
  (snd (unregister s id) = OUnit ->
     (forall n, node_pkg_is s id n = true -> live (fst (unregister s id)) n = false) /\
     (forall n, live (fst (unregister s id)) n = true -> live s n = true) /\
     get_pkg (fst (unregister s id)) id = None).
Proof.
  intros HI. pose proof HI as [F E X I D P]. unfold unregister, get_pkg.
  destruct (nth_error (pkgs s) (fst id)) as [sl|] eqn:Sl.
  2:{ cbn [fst snd]. split; [exact HI|split; [ok_triv|split; [congruence|discriminate]]]. }
  destruct (Nat.eqb_spec (ps_gen sl) (snd id)) as [Gen|Gen]; cbn [negb].
  2:{ cbn [fst snd]. split; [exact HI|split; [ok_triv|split; [congruence|discriminate]]]. }
  assert (Hlive : forallb (fun p => live s (snd p)) (exports s) && forallb (fun p => live s (snd p)) (defined s)
                  && forallb (fun p => live s (snd p)) (imports s) = true).
  { rewrite !andb_true_iff. repeat split.
    - apply (forallb_live_ok (nodes s)). intros [nm n] H. eapply xo_live; eauto.
    - apply (forallb_live_ok (nodes s)). intros [t n] H. apply (do_def _ _ D) in H as [nd [G _]]. apply liveb_true; eauto.
    - apply (forallb_live_ok (nodes s)). intros [nm n] H. apply (io_iff _ _ I) in H as [nd [G _]]. apply liveb_true; eauto. }
  rewrite Hlive. cbn [negb].
  set (npi := node_pkg_is s id).
  set (s1 := with_maps s _ _ _).
  set (q := fun e => npi (esrc e) && negb (npi (etgt e))).
  change (flat_map _ (edges s)) with (arg_pairs q (edges s)).
  set (l := arg_pairs q (edges s)).
  destruct (remove_satisfied_all_ok l s1) as [s2 R].
  { apply arg_pairs_NoDup. intros t i. eapply count_le_1; eauto. }
  { intros p Hp. eapply (arg_pairs_sat_has (nodes s)); eauto. }
  rewrite R. apply remove_satisfied_all_spec in R as (Hc & L & R1 & R2 & R3 & R4 & R5 & R6 & R7).
  cbn [s1 with_maps nodes free_nodes edges imports exports defined pkgs free_pkgs] in *.
  destruct (ps_pkg sl) as [p0|] eqn:Pp.
  2:{ cbn [fst snd]. split; [exact HI|split; [ok_triv|split; [congruence|discriminate]]]. }
  cbn [fst snd].
  set (victims := nodes_where s2 (fun nd => pkg_eqb (npkg nd) (Some id))).
  set (s3 := fold_left drop_node victims s2).
  set (d := mem victims).
  assert (Hd_eq : forall m, d m = npi m).
  { intros m. apply eq_true_iff_eq. unfold d. rewrite mem_In. unfold victims. rewrite nodes_where_In.
    unfold npi, node_pkg_is. rewrite get_node_getn. specialize (Hc m).
    destruct (getn (nodes s) m) as [a|], (getn (nodes s2) m) as [b|]; cbn in Hc; try contradiction.
    - destruct Hc as (C1 & _). rewrite <- C1. split; [intros [x [[= <-] H]]; auto|eauto].
    - split; [intros [x [H _]]; discriminate|discriminate]. }
  assert (Hd : forall m, getn (nodes s3) m = if d m then None else getn (nodes s2) m).
  { intros m. apply drop_all_nodes. }
  assert (Hq : forall e, In e (edges s) -> forall m, d m = false -> etgt e = m -> q e = d (esrc e)).
  { intros e _ m Dm T. unfold q. rewrite T, <- !Hd_eq, Dm. apply andb_true_r. }
  destruct (drop_all_rest victims s2) as (S1 & S2 & S3 & S4 & S5). fold s3 in S1, S2, S3, S4, S5.
  assert (Hkeep : forall {A} (m : list (A * nat)) x,
             In x (filter (fun p => negb (npi (snd p))) m) <-> In x m /\ d (snd x) = false).
  { intros A m x. rewrite filter_In, negb_true_iff, Hd_eq. reflexivity. }
  assert (HF : FreeOK (nodes s3) (free_nodes s3)).
  { apply drop_all_free.
    - apply nodes_where_NoDup.
    - intros m Hm. apply nodes_where_In in Hm as [nd [G _]]. apply liveb_true; eauto.
    - rewrite R1. eapply FreeOK_ext; eauto. intros m Hm. specialize (Hc m). rewrite Hm in Hc.
      destruct (getn (nodes s2) m); [destruct Hc|auto]. }
  assert (HP3 : PkgOK u (nodes s3) (pkgs s) (free_pkgs s)).
  { eapply purge_pkg with (l := l) (s1 := s2); eauto. }
  assert (Hno : forall n nd, getn (nodes s3) n = Some nd -> npkg nd <> Some (fst id, ps_gen sl)).
  { intros n nd G K. rewrite Hd in G. destruct (d n) eqn:Dn; [discriminate|].
    assert (In n victims); [|apply mem_In in H; unfold d in Dn; congruence].
    apply nodes_where_In. exists nd. split; auto. apply pkg_eqb_true. rewrite K, Gen. now destruct id. }
  split; [|split; [ok_triv|split; [reflexivity|intros _; split; [|split]]]].
  - constructor; cbn [with_pkgs nodes free_nodes edges imports exports defined pkgs free_pkgs].
    + exact HF.
    + unfold s3 at 2. rewrite drop_all_edges, R2. apply (purge_edges u s s2 d q HI Hq (nodes s3) l eq_refl Hc Hd).
    + rewrite S2, R4. eapply purge_ex with (l := l) (s1 := s2); eauto. apply NoDup_map_filter, X.
    + rewrite S1, R3. eapply purge_im with (l := l) (s1 := s2); eauto. apply NoDup_map_filter, I.
    + rewrite S3, R5. eapply purge_df with (l := l) (s1 := s2); eauto.
    + rewrite S4, S5, R6, R7. eapply PkgOK_unregister; eauto.
  - intros n Hn. rewrite live_liveb. cbn [with_pkgs nodes]. apply liveb_false. rewrite Hd, Hd_eq.
    fold npi in Hn. now rewrite Hn.
  - intros n Hn. rewrite live_liveb in *. cbn [with_pkgs nodes] in Hn. unfold liveb in *. rewrite Hd in Hn.
    destruct (d n); [discriminate|]. specialize (Hc n).
    destruct (getn (nodes s) n), (getn (nodes s2) n); cbn in Hc; auto; discriminate.
  - cbn [with_pkgs pkgs]. rewrite S4, R6, nth_error_set_nth, Nat.eqb_refl.
    assert (Li : fst id < length (pkgs s)) by (apply nth_error_Some; congruence).
    apply Nat.ltb_lt in Li. rewrite Li. cbn [ps_gen ps_pkg]. destruct (S (ps_gen sl) =? snd id); reflexivity.
Qed.

Lemma unregister_inv u s id : InvC u s -> InvC u (fst (unregister s id)).
Proof. intros H. apply (unregister_spec u s id H). Qed.

Lemma unregister_ok u s id : InvC u s -> ok_outcome (snd (unregister s id)).
Proof. intros H. apply (unregister_spec u s id H). Qed.
