(** C19 — the stage oracles of model/Cli.v bundled in records ("worlds"), so that the property
    theorems can quantify over ALL stage behaviours with one binder, plus the table-driven worlds
    and [show] functions used by the correspondence (tools/props/c19.py writes a cases.v that
    evaluates these with vm_compute; no extraction, no OCaml glue). *)
From WacV Require Import Str Show CliTypes CliTable Semver Cli.

(** * Worlds *)

Record cworld := mk_cworld {
  cw_Doc : Type; cw_Keys : Type; cw_Pkgs : Type; cw_Res : Type; cw_Client : Type;
  cw_read_file : str -> sres str;
  cw_parse_doc : str -> sres cw_Doc;
  cw_registry_new : option str -> sres cw_Client;
  cw_discover : cw_Doc -> sres cw_Keys;
  cw_fs_resolve : str -> (str -> option str) -> cw_Keys -> sres cw_Pkgs;
  cw_keys_missing : cw_Keys -> cw_Pkgs -> cw_Keys;
  cw_keys_is_empty : cw_Keys -> bool;
  cw_registry_resolve : cw_Client -> cw_Keys -> sres cw_Pkgs;
  cw_pkgs_extend : cw_Pkgs -> cw_Pkgs -> cw_Pkgs;
  cw_resolve_doc : cw_Doc -> cw_Pkgs -> sres cw_Res;
  cw_encode : cw_Res -> encode_opts -> sres str;
  cw_print_text : str -> sres str;
  cw_write_ok : str -> bool;
  cw_tty : bool
}.

Definition compose_in (w : cworld) : compose_flags -> outcome :=
  compose (cw_Doc w) (cw_Keys w) (cw_Pkgs w) (cw_Res w) (cw_Client w) (cw_read_file w) (cw_parse_doc w)
          (cw_registry_new w) (cw_discover w) (cw_fs_resolve w) (cw_keys_missing w) (cw_keys_is_empty w)
          (cw_registry_resolve w) (cw_pkgs_extend w) (cw_resolve_doc w) (cw_encode w) (cw_print_text w)
          (cw_write_ok w) (cw_tty w).

(** the file-system resolver only applies the override lookup *)
Definition fs_lookup_only (w : cworld) : Prop :=
  forall dir ov ov' keys, (forall n, ov n = ov' n) -> cw_fs_resolve w dir ov keys = cw_fs_resolve w dir ov' keys.

Record pworld := mk_pworld {
  pw_G : Type; pw_Id : Type;
  pw_is_pkg_name : str -> bool;
  pw_hash_order : list str -> list str;
  pw_download : option str -> str -> option str -> sres str;
  pw_read_bin : str -> sres str;
  pw_g_new : pw_G;
  pw_add_bytes : pw_G -> str -> str -> sres (pw_G * pw_Id);
  pw_add_file : pw_G -> str -> str -> sres (pw_G * pw_Id);
  pw_do_plug : pw_G -> list pw_Id -> pw_Id -> sres pw_G;
  pw_encode_g : pw_G -> encode_opts -> sres str;
  pw_print_text : str -> sres str;
  pw_write_ok : str -> bool;
  pw_tty : bool
}.

Definition plug_in (w : pworld) : plug_flags -> outcome :=
  plug (pw_G w) (pw_Id w) (pw_is_pkg_name w) (pw_hash_order w) (pw_download w) (pw_read_bin w) (pw_g_new w)
       (pw_add_bytes w) (pw_add_file w) (pw_do_plug w) (pw_encode_g w) (pw_print_text w) (pw_write_ok w) (pw_tty w).

Record tworld := mk_tworld {
  tw_W : Type; tw_C : Type;
  tw_wit_encode : str -> sres str;
  tw_wit_decode : str -> sres (list (str * wit_export tw_W));
  tw_read_bin : str -> sres str;
  tw_comp_decode : str -> sres tw_C;
  tw_validate : tw_W -> tw_C -> sres unit
}.

Definition targets_in (w : tworld) : targets_flags -> outcome :=
  targets (tw_W w) (tw_C w) (tw_wit_encode w) (tw_wit_decode w) (tw_read_bin w) (tw_comp_decode w) (tw_validate w).

Record aworld := mk_aworld {
  aw_Doc : Type;
  aw_read_file : str -> sres str;
  aw_parse_doc : str -> sres aw_Doc;
  aw_to_json : aw_Doc -> sres str
}.

Definition parse_in (w : aworld) : str -> outcome :=
  parse_cmd (aw_Doc w) (aw_read_file w) (aw_parse_doc w) (aw_to_json w).

(** * The same invocation with another sink / another format *)

Definition with_output (f : compose_flags) (o : option str) : compose_flags :=
  mk_cf (cf_deps_dir f) (cf_deps f) (cf_sw f) o (cf_registry f) (cf_path f).
Definition with_wat (f : compose_flags) (w : bool) : compose_flags :=
  mk_cf (cf_deps_dir f) (cf_deps f)
        (mk_sw (sw_no_validate (cf_sw f)) w (sw_import_dependencies (cf_sw f)))
        (cf_output f) (cf_registry f) (cf_path f).
Definition with_poutput (f : plug_flags) (o : option str) : plug_flags :=
  mk_pf (pf_plugs f) (pf_socket f) (pf_sw f) o (pf_registry f).
Definition with_pwat (f : plug_flags) (w : bool) : plug_flags :=
  mk_pf (pf_plugs f) (pf_socket f) (mk_psw w) (pf_output f) (pf_registry f).

(** * Table-driven worlds for the correspondence

    Payloads are tokens: the library's result number [k] is the one-element string [[k]]; its text
    form is [[100 + k]].  tools/props/c19.py maps the tokens back to the bytes computed in
    process by the harness. *)

Definition of_code (c : N) : sres unit := match c with 0 => SOk tt | 1 => SErr | _ => SPanic end.
Definition of_code_tok (c : N) : sres str :=
  match c with 0 => SErr | 1 => SPanic | _ => SOk [c] end.    (* tokens are >= 2 *)

Record ccase := mk_ccase {
  cc_read : N; cc_parse : N; cc_reg_early : N; cc_reg_lazy : N; cc_discover : N;
  cc_fs : N;                  (* 0 ok, all found; 1 error; 2 panic; 3 ok, something missing *)
  cc_reg_resolve : N;         (* 0 ok, rest found; 1 error; 2 panic; 3 ok, still missing *)
  cc_resolve : N;
  cc_enc_tt : N; cc_enc_tf : N; cc_enc_ft : N; cc_enc_ff : N;   (* (define_components, validate): 0 err, 1 panic, k>=2 token *)
  cc_print : N;               (* 0 ok, 1 error, 2 panic *)
  cc_write_ok : bool; cc_tty : bool
}.

Definition world_of_ccase (c : ccase) : cworld :=
  mk_cworld unit N N unit unit
    (fun _ => sres_map (fun _ => []) (of_code (cc_read c)))
    (fun _ => of_code (cc_parse c))
    (fun u => match u with Some _ => of_code (cc_reg_early c) | None => of_code (cc_reg_lazy c) end)
    (fun _ => sres_map (fun _ => 1) (of_code (cc_discover c)))
    (fun _ _ _ => match cc_fs c with 0 => SOk 0 | 1 => SErr | 2 => SPanic | _ => SOk 1 end)
    (fun _ pk => pk)
    (fun k => k =? 0)
    (fun _ _ => match cc_reg_resolve c with 0 => SOk 0 | 1 => SErr | 2 => SPanic | _ => SOk 1 end)
    (fun _ b => b)
    (fun _ _ => of_code (cc_resolve c))
    (fun _ o => of_code_tok (match define_components o, validate o with
                             | true, true => cc_enc_tt c | true, false => cc_enc_tf c
                             | false, true => cc_enc_ft c | false, false => cc_enc_ff c end))
    (fun b => match cc_print c with 0 => SOk (map (fun x => 100 + x) b) | 1 => SErr | _ => SPanic end)
    (fun _ => cc_write_ok c)
    (cc_tty c).

(** plug: the graph is the list of registered (name, path) pairs; the library result for a
    registration list is looked up in a table supplied per case. *)
Record pcase := mk_pcase {
  pc_pkg_names : list str;                 (* strings that are valid registry package names *)
  pc_hash_order : list (list str * list str);   (* keys in insertion order -> iteration order *)
  pc_socket_read : N; pc_socket_add : N;
  pc_bad_files : list str;                 (* paths for which Package::from_file / register fails *)
  pc_results : list (list (str * str) * N);    (* registration list -> 0 plug error, 1 encode error, k>=2 token *)
  pc_print : N; pc_write_ok : bool; pc_tty : bool
}.

Fixpoint strs_eqb (a b : list str) : bool :=
  match a, b with
  | [], [] => true
  | x :: a', y :: b' => str_eqb x y && strs_eqb a' b'
  | _, _ => false
  end.

Fixpoint pairs_eqb (a b : list (str * str)) : bool :=
  match a, b with
  | [], [] => true
  | (x1, x2) :: a', (y1, y2) :: b' => str_eqb x1 y1 && str_eqb x2 y2 && pairs_eqb a' b'
  | _, _ => false
  end.

Definition lookup_result (c : pcase) (regs : list (str * str)) : N :=
  match find (fun e => pairs_eqb (fst e) regs) (pc_results c) with
  | Some e => snd e
  | None => 0
  end.

Definition world_of_pcase (c : pcase) : pworld :=
  mk_pworld (list (str * str)) unit
    (fun s => mem_str s (pc_pkg_names c))
    (fun ks => match find (fun e => strs_eqb (fst e) ks) (pc_hash_order c) with Some e => snd e | None => ks end)
    (fun _ _ _ => SErr)                       (* no registry in the correspondence environment *)
    (fun _ => sres_map (fun _ => []) (of_code (pc_socket_read c)))
    []
    (fun g _ _ => sres_map (fun _ => (g, tt)) (of_code (pc_socket_add c)))
    (fun g name path => if mem_str path (pc_bad_files c) then SErr else SOk (g ++ [(name, path)], tt))
    (fun g _ _ => match lookup_result c g with 0 => SErr | _ => SOk g end)
    (fun g _ => match lookup_result c g with 0 => SErr | 1 => SErr | k => SOk [k] end)
    (fun b => match pc_print c with 0 => SOk (map (fun x => 100 + x) b) | 1 => SErr | _ => SPanic end)
    (fun _ => pc_write_ok c)
    (pc_tty c).

(** targets: worlds carry the verdict of validate_target. *)
Record tcase := mk_tcase {
  tc_wit_encode : N; tc_wit_decode : N; tc_comp_read : N; tc_comp_decode : N;
  tc_exports : list (str * wit_export N)      (* EWorld v: v = 0 conforms, 1 does not, 2 panics *)
}.

Definition world_of_tcase (c : tcase) : tworld :=
  mk_tworld N unit
    (fun _ => sres_map (fun _ => []) (of_code (tc_wit_encode c)))
    (fun _ => sres_map (fun _ => tc_exports c) (of_code (tc_wit_decode c)))
    (fun _ => sres_map (fun _ => []) (of_code (tc_comp_read c)))
    (fun _ => of_code (tc_comp_decode c))
    (fun v _ => of_code v).

Record acase := mk_acase { ac_read : N; ac_parse : N; ac_json : N }.
Definition world_of_acase (c : acase) : aworld :=
  mk_aworld unit
    (fun _ => sres_map (fun _ => []) (of_code (ac_read c)))
    (fun _ => of_code (ac_parse c))
    (fun _ => sres_map (fun _ => [2]) (of_code (ac_json c))).

(** * Printing observations (one line per case) *)

Definition show_stage (s : stage) : str :=
  match s with
  | StUsage => [85] | StRead => [82] | StParse => [80] | StRegistryNew => [78] | StDiscover => [68]
  | StFsResolve => [70] | StRegistry => [71] | StUnknownPackage => [75] | StResolve => [83]
  | StTerminal => [84] | StEncode => [69] | StPrint => [88] | StWrite => [87]
  | StFetch => [102] | StSocketRead => [114] | StSocketAdd => [97] | StPlugName => [110]
  | StPlugAdd => [112] | StPlug => [103] | StWitEncode => [119] | StWitDecode => [100]
  | StCompRead => [99] | StCompDecode => [111] | StWorldSelect => [108] | StValidateTarget => [118]
  | StJson => [106]
  end.

Definition sp : N := 32.
Fixpoint show_toks (l : str) : str :=
  match l with
  | [] => []
  | [x] => show_N x
  | x :: r => show_N x ++ [44] ++ show_toks r
  end.

Definition show_str (s : str) : str := match s with [] => [45] | _ => show_toks s end.

(** "exit=<n> st=<ok|F<stage>|P<stage>> out=<tokens> file=<path tokens>:<tokens>|-" *)
Definition show_outcome (o : outcome) : str :=
  show_N (exit_code o) ++ [sp] ++
  (match o_status o with
   | Success => [111; 107]
   | Failed s => 70 :: show_stage s
   | Panicked s => 80 :: show_stage s
   end) ++ [sp] ++ show_str (o_stdout o) ++ [sp] ++
  (match o_writes o with
   | [] => [45]
   | (p, b) :: _ => show_str p ++ [58] ++ show_str b
   end).

Definition show_opt_pair (o : option (str * str)) : str :=
  match o with None => [33] | Some (a, b) => show_str a ++ [124] ++ show_str b end.

Definition show_ref (r : option pkg_ref) : str :=
  match r with
  | None => [33]
  | Some (LocalPath p) => [76; sp] ++ show_str p
  | Some (RegistryPkg n None) => [82; sp] ++ show_str n ++ [sp; 45]
  | Some (RegistryPkg n (Some v)) => [82; sp] ++ show_str n ++ [sp] ++ show_str v
  end.

Fixpoint show_regs (l : list (str * pkg_ref)) : str :=
  match l with
  | [] => []
  | (n, r) :: rest => show_str n ++ [61] ++
                      (match r with LocalPath p => show_str p | RegistryPkg m _ => show_str m end) ++ [59] ++ show_regs rest
  end.

Definition show_bool (b : bool) : str := if b then [49] else [48].
Definition show_optN (o : option N) : str := match o with Some n => show_N n | None => [33] end.
