(** Model of [TypeAggregator] (crates/wac-types/src/aggregator.rs), function by function.

    Interface relied upon (owned by the C07 worker; copied here so that a change is noticed):
    - Types.v:   [id], [mkid], [id_eqb], [valtype], [deftype], [resource] ([res_name], [res_alias : option (option id * id)]),
                 [functype], [ty], [kind], [used := id * option str], [interface] ([i_id], [i_uses], [i_exports]),
                 [world] ([w_id], [w_uses], [w_imports], [w_exports]), [moduletype], [coreextern], [types] + [mktypes],
                 [get_def/get_res/get_func/get_if/get_world/get_mod : types -> id -> option _], [assoc], [assoc2],
                 [ty_eqb], [tree], [unfold : nat -> types -> kind -> option tree].
    - Checker.v: [R] ([Ok]/[Err]/[Panic]/[OutOfFuel]), [is_ok], [st] ([ks], [cache]), [set_ks], [invert], [revert],
                 [vkind], [is_subtype : nat -> st -> types -> kind -> types -> kind -> R unit * st],
                 [core_extern : variance -> coreextern -> coreextern -> R unit], [desc_kind], [desc_ty].
    - Names.v:   [alt_key : str -> option (str * version)], [compat]; Semver.v: [cmp_version].

    State of an aggregator = its own [types] collection, the [imports] IndexMap (insertion-ordered association
    list), the [remapped] HashMap (foreign type -> local type; only get/insert, so a list), the [interfaces]
    map (name -> interface id; ITERATED by [find_semver_compatible_interface]: a HashMap when this model was written,
    an insertion-ordered IndexMap since repository commit 02411ca; the iteration order stays an explicit argument
    [ord], the identity for the IndexMap, and the theorems hold for every [ord] that only yields entries of the table),
    and [name_redirects] (only get/insert/values_mut, so a list).
    The [SubtypeChecker] is owned by the caller and shared by all aggregations: its state [st] is threaded.

    Results: [AOk], [AErr class], [APanic] (arena indexing with a foreign/dangling identifier, [unwrap]/[expect]/
    [assert!]/[panic!] in the Rust code), [AOof] (out of fuel; only on cyclic collections). *)
From WacV Require Import Str Ord Semver Names Types Checker.

(** * Error classes: the innermost aggregator-level message of the error chain
      ("failed to merge interface `..`" contexts are transparent). *)
Inductive aerr :=
| AECannotMerge          (* "{existing} cannot be merged with {kind}" *)
| AEMismatchExport       (* context "mismatched type for export `..`" around a checker error *)
| AEMismatchImport       (* context "mismatched type for import `..`" (worlds) *)
| AEMismatchModImport    (* context "mismatched type for import `m::n`" (module types) *)
| AEMismatchModExport
| AEUsedIface            (* "cannot merge used type `..` as it is expected to be from interface .." *)
| AEUsedName             (* "cannot merge used type `..` as the export names are mismatched" *)
| AEUsedNoId             (* "used type has no interface identifier" *)
| AEUsedNoIdRemap        (* "used type `..` is from an interface without an identifier" *)
| AESubtype.             (* a bare checker error (merge of functions, values, resources) *)

Inductive AR (A : Type) := AOk (a : A) | AErr (e : aerr) | APanic | AOof.
Arguments AOk {A} a. Arguments AErr {A} e. Arguments APanic {A}. Arguments AOof {A}.

(** * State *)
Record core := mkcore {
  c_types : types;
  c_imports : list (str * kind);
  c_remapped : list (ty * ty);
  c_ifaces : list (str * id);
  c_chk : st }.

Definition M (A : Type) := core -> AR (A * core).
Definition ret {A} (a : A) : M A := fun c => AOk (a, c).
Definition bindM {A B} (m : M A) (k : A -> M B) : M B :=
  fun c => match m c with AOk (a, c') => k a c' | AErr e => AErr e | APanic => APanic | AOof => AOof end.
Notation "x <-- m ;;; k" := (bindM m (fun x => k)) (at level 61, m at next level, right associativity).
Notation "m ;;; k" := (bindM m (fun _ => k)) (at level 61, right associativity).
Definition fail {A} (e : aerr) : M A := fun _ => AErr e.
Definition panic {A} : M A := fun _ => APanic.
Definition oof {A} : M A := fun _ => AOof.
Definition get : M core := fun c => AOk (c, c).
Definition idxM {A} (o : option A) : M A := match o with Some a => ret a | None => panic end.
(** a checker-side description that can itself panic / run out of fuel *)
Definition liftR {A} (r : R A) : M A :=
  match r with Ok a => ret a | Err _ => fail AESubtype | Panic => panic | OutOfFuel => oof end.
(** [r.with_context(ctx)?] for a checker verdict *)
Definition must (ctx : aerr) (r : R unit) : M unit :=
  match r with Ok _ => ret tt | Err _ => fail ctx | Panic => panic | OutOfFuel => oof end.

Fixpoint mapM {A B} (f : A -> M B) (l : list A) : M (list B) :=
  match l with
  | [] => ret []
  | x :: r => y <-- f x ;;; ys <-- mapM f r ;;; ret (y :: ys)
  end.
Fixpoint forM {A} (f : A -> M unit) (l : list A) : M unit :=
  match l with
  | [] => ret tt
  | x :: r => f x ;;; forM f r
  end.
Definition optM {A B} (f : A -> M B) (o : option A) : M (option B) :=
  match o with None => ret None | Some x => y <-- f x ;;; ret (Some y) end.

(** ** IndexMap / HashMap operations on association lists *)
(** [IndexMap::insert]: replace the value in place, or append. *)
Fixpoint ins {V} (k : str) (v : V) (l : list (str * V)) : list (str * V) :=
  match l with
  | [] => [(k, v)]
  | (k', v') :: r => if str_eqb k k' then (k', v) :: r else (k', v') :: ins k v r
  end.
(** [IndexMap::shift_remove] *)
Fixpoint rem {V} (k : str) (l : list (str * V)) : list (str * V) :=
  match l with
  | [] => []
  | (k', v') :: r => if str_eqb k k' then r else (k', v') :: rem k r
  end.
Definition has_key {V} (k : str) (l : list (str * V)) : bool :=
  match assoc k l with Some _ => true | None => false end.
Fixpoint ins2 {V} (k : str * str) (v : V) (l : list ((str * str) * V)) : list ((str * str) * V) :=
  match l with
  | [] => [(k, v)]
  | (k', v') :: r => if key2_eqb k k' then (k', v) :: r else (k', v') :: ins2 k v r
  end.
Fixpoint rm_get (k : ty) (l : list (ty * ty)) : option ty :=
  match l with
  | [] => None
  | (k', v) :: r => if ty_eqb k k' then Some v else rm_get k r
  end.
Fixpoint rm_ins (k v : ty) (l : list (ty * ty)) : list (ty * ty) :=
  match l with
  | [] => [(k, v)]
  | (k', v') :: r => if ty_eqb k k' then (k', v) :: r else (k', v') :: rm_ins k v r
  end.
Fixpoint set_nth {A} (n : nat) (x : A) (l : list A) : list A :=
  match l, n with
  | [], _ => []
  | _ :: r, O => x :: r
  | y :: r, S n' => y :: set_nth n' x r
  end.

(** ** Field updates *)
Definition with_types (c : core) (t : types) : core := mkcore t (c_imports c) (c_remapped c) (c_ifaces c) (c_chk c).
Definition with_imports (c : core) (i : list (str * kind)) : core :=
  mkcore (c_types c) i (c_remapped c) (c_ifaces c) (c_chk c).
Definition with_remapped (c : core) (r : list (ty * ty)) : core :=
  mkcore (c_types c) (c_imports c) r (c_ifaces c) (c_chk c).
Definition with_ifaces (c : core) (i : list (str * id)) : core :=
  mkcore (c_types c) (c_imports c) (c_remapped c) i (c_chk c).
Definition with_chk (c : core) (s : st) : core := mkcore (c_types c) (c_imports c) (c_remapped c) (c_ifaces c) s.

Definition t_with_defined (t : types) l := mktypes (t_tag t) l (t_resources t) (t_funcs t) (t_interfaces t) (t_worlds t) (t_modules t).
Definition t_with_resources (t : types) l := mktypes (t_tag t) (t_defined t) l (t_funcs t) (t_interfaces t) (t_worlds t) (t_modules t).
Definition t_with_funcs (t : types) l := mktypes (t_tag t) (t_defined t) (t_resources t) l (t_interfaces t) (t_worlds t) (t_modules t).
Definition t_with_interfaces (t : types) l := mktypes (t_tag t) (t_defined t) (t_resources t) (t_funcs t) l (t_worlds t) (t_modules t).
Definition t_with_worlds (t : types) l := mktypes (t_tag t) (t_defined t) (t_resources t) (t_funcs t) (t_interfaces t) l (t_modules t).
Definition t_with_modules (t : types) l := mktypes (t_tag t) (t_defined t) (t_resources t) (t_funcs t) (t_interfaces t) (t_worlds t) l.

(** [Types::add_*]: append to the arena, the identifier is (tag, old length). *)
Definition add_def (d : deftype) : M id := fun c =>
  let t := c_types c in AOk (mkid (t_tag t) (length (t_defined t)), with_types c (t_with_defined t (t_defined t ++ [d]))).
Definition add_res (r : Types.resource) : M id := fun c =>
  let t := c_types c in AOk (mkid (t_tag t) (length (t_resources t)), with_types c (t_with_resources t (t_resources t ++ [r]))).
Definition add_func (f : functype) : M id := fun c =>
  let t := c_types c in AOk (mkid (t_tag t) (length (t_funcs t)), with_types c (t_with_funcs t (t_funcs t ++ [f]))).
Definition add_if (i : Types.interface) : M id := fun c =>
  let t := c_types c in AOk (mkid (t_tag t) (length (t_interfaces t)), with_types c (t_with_interfaces t (t_interfaces t ++ [i]))).
Definition add_world (w : world) : M id := fun c =>
  let t := c_types c in AOk (mkid (t_tag t) (length (t_worlds t)), with_types c (t_with_worlds t (t_worlds t ++ [w]))).
Definition add_mod (m : moduletype) : M id := fun c =>
  let t := c_types c in AOk (mkid (t_tag t) (length (t_modules t)), with_types c (t_with_modules t (t_modules t ++ [m]))).

(** [self.types[id]] (Index / IndexMut): panics on a foreign or dangling identifier. *)
Definition agg_if (i : id) : M Types.interface := fun c => idxM (get_if (c_types c) i) c.
Definition agg_world (w : id) : M world := fun c => idxM (get_world (c_types c) w) c.
Definition agg_mod (m : id) : M moduletype := fun c => idxM (get_mod (c_types c) m) c.
Definition upd_if (i : id) (f : Types.interface -> Types.interface) : M unit :=
  x <-- agg_if i ;;;
  fun c => let t := c_types c in
           AOk (tt, with_types c (t_with_interfaces t (set_nth (id_idx i) (f x) (t_interfaces t)))).
Definition upd_world (w : id) (f : world -> world) : M unit :=
  x <-- agg_world w ;;;
  fun c => let t := c_types c in
           AOk (tt, with_types c (t_with_worlds t (set_nth (id_idx w) (f x) (t_worlds t)))).
Definition upd_mod (m : id) (f : moduletype -> moduletype) : M unit :=
  x <-- agg_mod m ;;;
  fun c => let t := c_types c in
           AOk (tt, with_types c (t_with_modules t (set_nth (id_idx m) (f x) (t_modules t)))).

Definition if_set_export (n : str) (k : kind) (x : Types.interface) := mkif (i_id x) (i_uses x) (ins n k (i_exports x)).
Definition if_set_use (n : str) (u : used) (x : Types.interface) := mkif (i_id x) (ins n u (i_uses x)) (i_exports x).
Definition w_set_import (n : str) (k : kind) (x : world) := mkworld (w_id x) (w_uses x) (ins n k (w_imports x)) (w_exports x).
Definition w_set_export (n : str) (k : kind) (x : world) := mkworld (w_id x) (w_uses x) (w_imports x) (ins n k (w_exports x)).
Definition w_set_use (n : str) (u : used) (x : world) := mkworld (w_id x) (ins n u (w_uses x)) (w_imports x) (w_exports x).
Definition m_set_import (n : str * str) (e : coreextern) (x : moduletype) := mkmod (ins2 n e (m_imports x)) (m_exports x).
Definition m_set_export (n : str) (e : coreextern) (x : moduletype) := mkmod (m_imports x) (ins n e (m_exports x)).

(** [self.remapped]: [get]; [insert] that overwrites; [insert] followed by [assert!(prev.is_none())]. *)
Definition remapped_get (k : ty) : M (option ty) := fun c => AOk (rm_get k (c_remapped c), c).
Definition remapped_set (k v : ty) : M unit := fun c => AOk (tt, with_remapped c (rm_ins k v (c_remapped c))).
Definition remapped_new (k v : ty) : M unit := fun c =>
  match rm_get k (c_remapped c) with
  | Some _ => APanic
  | None => AOk (tt, with_remapped c (rm_ins k v (c_remapped c)))
  end.

(** [ItemKind::ty] *)
Definition ty_of (k : kind) : ty :=
  match k with
  | KType t => t | KFunc f => TFunc f | KInstance i => TInterface i | KComponent w => TWorld w
  | KModule m => TModule m | KValue v => TValue v
  end.

(** [if let (Instance(target_id), Instance(source_id)) = (target_kind, source_kind) { if target_id != existing ..] *)
Definition nested_pair (tk sk : kind) (existing : id) : option (id * id) :=
  match tk, sk with
  | KInstance target_id, KInstance source_id => if id_eqb target_id existing then None else Some (target_id, source_id)
  | _, _ => None
  end.
(** [!matches!((source.ty(), target.ty()), (Type::Value(Defined(_)), Type::Value(t)) if !matches!(t, Defined(_)))] *)
Definition replaceable (s t : ty) : bool :=
  match s, t with
  | TValue (VDefined _), TValue (VDefined _) => true
  | TValue (VDefined _), TValue _ => false
  | _, _ => true
  end.

Definition opt_str_eqb (a b : option str) : bool :=
  match a, b with Some x, Some y => str_eqb x y | None, None => true | _, _ => false end.

(** [find_semver_compatible_import]: first import, in IndexMap order, on the track of [name]. *)
Fixpoint find_on_track {V} (ak : str) (l : list (str * V)) : option (str * V) :=
  match l with
  | [] => None
  | (n, v) :: r => match alt_key n with
                   | Some (k, _) => if str_eqb k ak then Some (n, v) else find_on_track ak r
                   | None => find_on_track ak r
                   end
  end.
Definition find_compat {V} (name : str) (l : list (str * V)) : option (str * V) :=
  match alt_key name with
  | None => None
  | Some (ak, _) => find_on_track ak l
  end.

Section Prims.
  (** Iteration order of the [interfaces] HashMap as a function of its content (a permutation). *)
  Variable ord : list (str * id) -> list (str * id).
  (** Fuel given to each subtype check. *)
  Variable cf : nat.

  (** checker calls: (foreign a) <: (aggregator b), and (aggregator a) <: (foreign b) *)
  Definition sub_fa (t : types) (a b : kind) : M (R unit) := fun c =>
    let '(r, s') := is_subtype cf (c_chk c) t a (c_types c) b in AOk (r, with_chk c s').
  Definition sub_af (t : types) (a b : kind) : M (R unit) := fun c =>
    let '(r, s') := is_subtype cf (c_chk c) (c_types c) a t b in AOk (r, with_chk c s').
  Definition chk_invert : M unit := fun c => AOk (tt, with_chk c (set_ks (c_chk c) (invert (ks (c_chk c))))).
  Definition chk_revert : M unit := fun c =>
    match revert (c_chk c) with Ok s => AOk (tt, with_chk c s) | _ => APanic end.

  (** [self.interfaces.get(name).or_else(|| self.find_semver_compatible_interface(name))] *)
  Definition lookup_iface (name : str) : M (option id) := fun c =>
    AOk (match assoc name (c_ifaces c) with
         | Some e => Some e
         | None => match find_compat name (ord (c_ifaces c)) with Some (_, e) => Some e | None => None end
         end, c).
  Definition iface_set (name : str) (i : id) : M unit := fun c => AOk (tt, with_ifaces c (ins name i (c_ifaces c))).
  Definition iface_new (name : str) (i : id) : M unit := fun c =>
    if has_key name (c_ifaces c) then APanic else AOk (tt, with_ifaces c (ins name i (c_ifaces c))).

  (** [remap_module_type]: module types contain no identifiers. *)
  Definition remap_module_type (t : types) (m : id) : M id :=
    r <-- remapped_get (TModule m) ;;;
    match r with
    | Some (TModule y) => ret y
    | Some _ => panic
    | None =>
      x <-- idxM (get_mod t m) ;;;
      y <-- add_mod x ;;;
      remapped_new (TModule m) (TModule y) ;;;
      ret y
    end.

End Prims.

(** ** The mutually recursive part: remap_* and merge_interface (+ its used types) *)
Fixpoint remap_item_kind (ord : list (str * id) -> list (str * id)) (cf : nat) (fuel : nat) (t : types) (k : kind) {struct fuel} : M kind :=
  match fuel with
  | O => oof
  | S f =>
    match k with
    | KType x => y <-- remap_type ord cf f t x ;;; ret (KType y)
    | KFunc i => y <-- remap_func_type ord cf f t i ;;; ret (KFunc y)
    | KInstance i => y <-- remap_interface ord cf f t i ;;; ret (KInstance y)
    | KComponent w => y <-- remap_world ord cf f t w ;;; ret (KComponent y)
    | KModule m => y <-- remap_module_type t m ;;; ret (KModule y)
    | KValue v => y <-- remap_value_type ord cf f t v ;;; ret (KValue y)
    end
  end

with remap_type (ord : list (str * id) -> list (str * id)) (cf : nat) (fuel : nat) (t : types) (x : ty) {struct fuel} : M ty :=
  match fuel with
  | O => oof
  | S f =>
    match x with
    | TResource r => y <-- remap_resource ord cf f t r ;;; ret (TResource y)
    | TFunc i => y <-- remap_func_type ord cf f t i ;;; ret (TFunc y)
    | TValue v => y <-- remap_value_type ord cf f t v ;;; ret (TValue y)
    | TInterface i => y <-- remap_interface ord cf f t i ;;; ret (TInterface y)
    | TWorld w => y <-- remap_world ord cf f t w ;;; ret (TWorld y)
    | TModule m => y <-- remap_module_type t m ;;; ret (TModule y)
    end
  end

with remap_resource (ord : list (str * id) -> list (str * id)) (cf : nat) (fuel : nat) (t : types) (r : id) {struct fuel} : M id :=
  match fuel with
  | O => oof
  | S f =>
    hit <-- remapped_get (TResource r) ;;;
    match hit with
    | Some (TResource y) => ret y
    | Some _ => panic                                             (* "expected a resource" *)
    | None =>
      x <-- idxM (get_res t r) ;;;
      al <-- optM (fun a : option id * id =>
                     let '(owner, source) := a in
                     o' <-- optM (remap_interface ord cf f t) owner ;;;
                     (* If there is an owning interface, ensure it is imported *)
                     match o' with
                     | Some ow =>
                       i <-- agg_if ow ;;;
                       name <-- idxM (i_id i) ;;;                (* .expect("interface has no id") *)
                       c <-- get ;;;
                       if has_key name (c_imports c) then ret tt
                       else fun c => AOk (tt, with_imports c (ins name (KInstance ow) (c_imports c)))
                     | None => ret tt
                     end ;;;
                     s' <-- remap_resource ord cf f t source ;;;
                     ret (o', s')) (res_alias x) ;;;
      y <-- add_res (mkres (res_name x) al) ;;;
      remapped_new (TResource r) (TResource y) ;;;
      ret y
    end
  end

with remap_func_type (ord : list (str * id) -> list (str * id)) (cf : nat) (fuel : nat) (t : types) (i : id) {struct fuel} : M id :=
  match fuel with
  | O => oof
  | S f =>
    hit <-- remapped_get (TFunc i) ;;;
    match hit with
    | Some (TFunc y) => ret y
    | Some _ => panic
    | None =>
      x <-- idxM (get_func t i) ;;;
      ps <-- mapM (fun nv : str * valtype => v' <-- remap_value_type ord cf f t (snd nv) ;;; ret (fst nv, v')) (f_params x) ;;;
      r <-- optM (remap_value_type ord cf f t) (f_result x) ;;;
      y <-- add_func (mkfunc ps r (f_async x)) ;;;
      remapped_new (TFunc i) (TFunc y) ;;;
      ret y
    end
  end

with remap_value_type (ord : list (str * id) -> list (str * id)) (cf : nat) (fuel : nat) (t : types) (v : valtype) {struct fuel} : M valtype :=
  match fuel with
  | O => oof
  | S f =>
    match v with
    | VPrim p => ret (VPrim p)
    | VBorrow r => y <-- remap_resource ord cf f t r ;;; ret (VBorrow y)
    | VOwn r => y <-- remap_resource ord cf f t r ;;; ret (VOwn y)
    | VDefined d => y <-- remap_defined_type ord cf f t d ;;; ret (VDefined y)
    end
  end

with remap_defined_type (ord : list (str * id) -> list (str * id)) (cf : nat) (fuel : nat) (t : types) (d : id) {struct fuel} : M id :=
  match fuel with
  | O => oof
  | S f =>
    hit <-- remapped_get (TValue (VDefined d)) ;;;
    match hit with
    | Some (TValue (VDefined y)) => ret y
    | Some _ => panic                                             (* "expected a defined type got .." *)
    | None =>
      x <-- idxM (get_def t d) ;;;
      let V := remap_value_type ord cf f t in
      x' <-- match x with
             | DTuple l => l' <-- mapM V l ;;; ret (DTuple l')
             | DList v => v' <-- V v ;;; ret (DList v')
             | DFsl v n => v' <-- V v ;;; ret (DFsl v' n)
             | DOption v => v' <-- V v ;;; ret (DOption v')
             | DResult o e => o' <-- optM V o ;;; e' <-- optM V e ;;; ret (DResult o' e')
             | DVariant cs => cs' <-- mapM (fun nv : str * option valtype =>
                                              v' <-- optM V (snd nv) ;;; ret (fst nv, v')) cs ;;; ret (DVariant cs')
             | DRecord fs => fs' <-- mapM (fun nv : str * valtype => v' <-- V (snd nv) ;;; ret (fst nv, v')) fs ;;;
                             ret (DRecord fs')
             | DFlags l => ret (DFlags l)
             | DEnum l => ret (DEnum l)
             | DAlias v => v' <-- V v ;;; ret (DAlias v')
             | DStream o => o' <-- optM V o ;;; ret (DStream o')
             | DFuture o => o' <-- optM V o ;;; ret (DFuture o')
             end ;;;
      y <-- add_def x' ;;;
      remapped_new (TValue (VDefined d)) (TValue (VDefined y)) ;;;
      ret y
    end
  end

with remap_interface (ord : list (str * id) -> list (str * id)) (cf : nat) (fuel : nat) (t : types) (i : id) {struct fuel} : M id :=
  match fuel with
  | O => oof
  | S f =>
    x <-- idxM (get_if t i) ;;;
    (* If we've seen this interface before, perform a merge *)
    hit <-- match i_id x with
            | Some name => e <-- lookup_iface ord name ;;; ret (match e with Some e => Some (name, e) | None => None end)
            | None => ret None
            end ;;;
    match hit with
    | Some (name, existing) =>
      merge_interface ord cf f existing t i ;;;       (* context "failed to merge interface": transparent *)
      iface_set name existing ;;;
      ret existing
    | None =>
      (* An interface without an identifier is a requirement of the one place that mentions it: every mention gets
         its own copy, it is neither looked up in nor recorded in [remapped] (repair of the shared nested copy). *)
      r <-- match i_id x with
            | Some _ => remapped_get (TInterface i)
            | None => ret None
            end ;;;
      match r with
      | Some (TInterface y) => ret y
      | Some _ => panic
      | None =>
        us <-- mapM (fun nu : str * used =>
                       ui <-- idxM (get_if t (fst (snd nu))) ;;;
                       match i_id ui with
                       | None => fail AEUsedNoIdRemap
                       | Some _ => y <-- remap_interface ord cf f t (fst (snd nu)) ;;; ret (fst nu, (y, snd (snd nu)))
                       end) (i_uses x) ;;;
        es <-- mapM (fun nk : str * kind => k' <-- remap_item_kind ord cf f t (snd nk) ;;; ret (fst nk, k')) (i_exports x) ;;;
        y <-- add_if (mkif (i_id x) us es) ;;;
        match i_id x with
        | Some name => remapped_new (TInterface i) (TInterface y) ;;;   (* assert!(prev.is_none()) *)
                       iface_new name y                          (* assert!(prev.is_none()) *)
        | None => ret tt
        end ;;;
        ret y
      end
    end
  end

with remap_world (ord : list (str * id) -> list (str * id)) (cf : nat) (fuel : nat) (t : types) (w : id) {struct fuel} : M id :=
  match fuel with
  | O => oof
  | S f =>
    r <-- remapped_get (TWorld w) ;;;
    match r with
    | Some (TWorld y) => ret y
    | Some _ => panic
    | None =>
      x <-- idxM (get_world t w) ;;;
      us <-- mapM (fun nu : str * used =>
                     ui <-- idxM (get_if t (fst (snd nu))) ;;;
                     match i_id ui with
                     | None => fail AEUsedNoIdRemap
                     | Some _ => y <-- remap_interface ord cf f t (fst (snd nu)) ;;; ret (fst nu, (y, snd (snd nu)))
                     end) (w_uses x) ;;;
      im <-- mapM (fun nk : str * kind => k' <-- remap_item_kind ord cf f t (snd nk) ;;; ret (fst nk, k')) (w_imports x) ;;;
      ex <-- mapM (fun nk : str * kind => k' <-- remap_item_kind ord cf f t (snd nk) ;;; ret (fst nk, k')) (w_exports x) ;;;
      y <-- add_world (mkworld (w_id x) us im ex) ;;;
      remapped_new (TWorld w) (TWorld y) ;;;
      ret y
    end
  end

with merge_interface (ord : list (str * id) -> list (str * id)) (cf : nat) (fuel : nat) (existing : id) (t : types) (i : id) {struct fuel} : M unit :=
  match fuel with
  | O => oof
  | S f =>
    (* Merge the used types of the two interfaces *)
    merge_interface_used_types ord cf f existing t i ;;;
    (* Merge the interface's exports *)
    src <-- idxM (get_if t i) ;;;
    forM (fun nk : str * kind =>
            let '(name, sk) := nk in
            ex <-- agg_if existing ;;;
            let do_remap : M unit :=
                k' <-- remap_item_kind ord cf f t sk ;;; upd_if existing (if_set_export name k') in
            match assoc name (i_exports ex) with
            | Some tk =>
              match nested_pair tk sk existing with
              | Some (target_id, source_id) =>
                (* Instance exports are requirements themselves: merge them (repository commit 0bf540d);
                   the context "mismatched type for export" is transparent for the error class *)
                merge_interface ord cf f target_id t source_id ;;;
                remapped_set (ty_of sk) (ty_of tk)                       (* ... continue *)
              | None =>
                r1 <-- sub_fa cf t sk tk ;;;
                if is_ok r1 then
                  (* a defined type can only be replaced by another defined type (commit 874f221) *)
                  if replaceable (ty_of sk) (ty_of tk) then remapped_set (ty_of sk) (ty_of tk) else ret tt
                else r2 <-- sub_af cf t tk sk ;;; must AEMismatchExport r2 ;;; do_remap
              end
            | None => do_remap
            end) (i_exports src)
  end

with merge_interface_used_types (ord : list (str * id) -> list (str * id)) (cf : nat) (fuel : nat) (existing : id) (t : types) (i : id) {struct fuel} : M unit :=
  match fuel with
  | O => oof
  | S f =>
    src <-- idxM (get_if t i) ;;;
    forM (fun nu : str * used =>
            let '(name, (ui, un)) := nu in
            uif <-- idxM (get_if t ui) ;;;
            used_interface <-- match i_id uif with Some x => ret x | None => fail AEUsedNoId end ;;;
            ex <-- agg_if existing ;;;
            match assoc name (i_uses ex) with
            | Some (ei, en) =>
              eif <-- agg_if ei ;;;
              existing_interface <-- match i_id eif with Some x => ret x | None => fail AEUsedNoId end ;;;
              if negb (compat existing_interface used_interface) then fail AEUsedIface
              else if negb (opt_str_eqb en un) then fail AEUsedName else ret tt
            | None => ret tt
            end ;;;
            remapped <-- remap_interface ord cf f t ui ;;;
            ex' <-- agg_if existing ;;;
            match assoc name (i_uses ex') with
            | Some (ei, _) => if id_eqb ei remapped then ret tt else panic    (* "expected a merge to have occurred" *)
            | None => upd_if existing (if_set_use name (remapped, un))
            end) (i_uses src)
  end.

Section Agg.
  Variable ord : list (str * id) -> list (str * id).
  Variable cf : nat.

  (** ** Non-recursive merges (called from [aggregate] only) *)
  Definition merge_world_used_types (fuel : nat) (existing : id) (t : types) (w : id) : M unit :=
    src <-- idxM (get_world t w) ;;;
    forM (fun nu : str * used =>
            let '(name, (ui, un)) := nu in
            uif <-- idxM (get_if t ui) ;;;
            used_interface <-- match i_id uif with Some x => ret x | None => fail AEUsedNoId end ;;;
            ex <-- agg_world existing ;;;
            match assoc name (w_uses ex) with
            | Some (ei, en) =>
              eif <-- agg_if ei ;;;
              existing_interface <-- match i_id eif with Some x => ret x | None => fail AEUsedNoId end ;;;
              if negb (compat existing_interface used_interface) then fail AEUsedIface
              else if negb (opt_str_eqb en un) then fail AEUsedName else ret tt
            | None => ret tt
            end ;;;
            remapped <-- remap_interface ord cf fuel t ui ;;;
            ex' <-- agg_world existing ;;;
            match assoc name (w_uses ex') with
            | Some (ei, _) => if id_eqb ei remapped then ret tt else panic
            | None => upd_world existing (w_set_use name (remapped, un))
            end) (w_uses src).

  Definition merge_world (fuel : nat) (existing : id) (t : types) (w : id) : M unit :=
    merge_world_used_types fuel existing t w ;;;
    src <-- idxM (get_world t w) ;;;
    chk_invert ;;;
    forM (fun nk : str * kind =>
            let '(name, sk) := nk in
            ex <-- agg_world existing ;;;
            let do_remap : M unit :=
                k' <-- remap_item_kind ord cf fuel t sk ;;; upd_world existing (w_set_import name k') in
            match assoc name (w_imports ex) with
            | Some tk =>
              r1 <-- sub_af cf t tk sk ;;;
              if is_ok r1 then ret tt
              else r2 <-- sub_fa cf t sk tk ;;; must AEMismatchImport r2 ;;; do_remap
            | None => do_remap
            end) (w_imports src) ;;;
    chk_revert ;;;
    forM (fun nk : str * kind =>
            let '(name, sk) := nk in
            ex <-- agg_world existing ;;;
            let do_remap : M unit :=
                k' <-- remap_item_kind ord cf fuel t sk ;;; upd_world existing (w_set_export name k') in
            match assoc name (w_exports ex) with
            | Some tk =>
              r1 <-- sub_fa cf t sk tk ;;;
              if is_ok r1 then ret tt
              else r2 <-- sub_af cf t tk sk ;;; must AEMismatchExport r2 ;;; do_remap
            | None => do_remap
            end) (w_exports src).

  Definition merge_func_type (existing : id) (t : types) (i : id) : M unit :=
    r1 <-- sub_fa cf t (KFunc i) (KFunc existing) ;;; must AESubtype r1 ;;;
    r2 <-- sub_af cf t (KFunc existing) (KFunc i) ;;; must AESubtype r2.
  Definition merge_resource (existing : id) (t : types) (i : id) : M unit :=
    r1 <-- sub_fa cf t (KType (TResource i)) (KType (TResource existing)) ;;; must AESubtype r1 ;;;
    r2 <-- sub_af cf t (KType (TResource existing)) (KType (TResource i)) ;;; must AESubtype r2.
  Definition merge_value_type (existing : valtype) (t : types) (v : valtype) : M unit :=
    r1 <-- sub_fa cf t (KValue v) (KValue existing) ;;; must AESubtype r1 ;;;
    r2 <-- sub_af cf t (KValue existing) (KValue v) ;;; must AESubtype r2.

  (** [checker.core_extern] is a [&self] method: it reads the current variance only. *)
  Definition cur_variance : M variance := fun c => AOk (vkind (ks (c_chk c)), c).
  Definition merge_module_type (existing : id) (t : types) (m : id) : M unit :=
    src <-- idxM (get_mod t m) ;;;
    chk_invert ;;;
    forM (fun ne : (str * str) * coreextern =>
            let '(name, se) := ne in
            ex <-- agg_mod existing ;;;
            k <-- cur_variance ;;;
            match assoc2 name (m_imports ex) with
            | Some te =>
              if is_ok (core_extern k te se) then ret tt
              else must AEMismatchModImport (core_extern k se te) ;;; upd_mod existing (m_set_import name se)
            | None => upd_mod existing (m_set_import name se)
            end) (m_imports src) ;;;
    chk_revert ;;;
    forM (fun ne : str * coreextern =>
            let '(name, se) := ne in
            ex <-- agg_mod existing ;;;
            k <-- cur_variance ;;;
            match assoc name (m_exports ex) with
            | Some te =>
              if is_ok (core_extern k se te) then ret tt
              else must AEMismatchModExport (core_extern k te se) ;;; upd_mod existing (m_set_export name se)
            | None => upd_mod existing (m_set_export name se)
            end) (m_exports src).

  Definition cannot_merge {A X} (d : nat -> types -> X -> R desc) (existing : X) (t : types) (x : X) : M A :=
    c <-- get ;;;
    liftR (d cf (c_types c) existing) ;;; liftR (d cf t x) ;;; fail AECannotMerge.

  Definition merge_type (fuel : nat) (existing : ty) (t : types) (x : ty) : M unit :=
    match existing, x with
    | TResource e, TResource i => merge_resource e t i
    | TFunc e, TFunc i => merge_func_type e t i
    | TValue e, TValue v => merge_value_type e t v
    | TInterface e, TInterface i => merge_interface ord cf fuel e t i
    | TWorld e, TWorld w => merge_world fuel e t w
    | TModule e, TModule m => merge_module_type e t m
    | _, _ => cannot_merge desc_ty existing t x
    end.

  Definition merge_item_kind (fuel : nat) (existing : kind) (t : types) (k : kind) : M unit :=
    match existing, k with
    | KInstance e, KInstance i => merge_interface ord cf fuel e t i
    | KComponent e, KComponent w => merge_world fuel e t w
    | KFunc e, KFunc i => merge_func_type e t i
    | KModule e, KModule m => merge_module_type e t m
    | KType e, KType x => merge_type fuel e t x
    | KValue e, KValue v => merge_value_type e t v
    | _, _ => cannot_merge desc_kind existing t k
    end.

  (** * The aggregator proper *)
  Record agg := mkagg {
    a_types : types;
    a_imports : list (str * kind);
    a_remapped : list (ty * ty);
    a_ifaces : list (str * id);
    a_redirects : list (str * str) }.

  Definition agg0 (tag : N) : agg := mkagg (mktypes tag [] [] [] [] [] []) [] [] [] [].
  Definition core_of (a : agg) (s : st) : core := mkcore (a_types a) (a_imports a) (a_remapped a) (a_ifaces a) s.
  Definition agg_of (c : core) (imports : list (str * kind)) (redirects : list (str * str)) : agg :=
    mkagg (c_types c) imports (c_remapped c) (c_ifaces c) redirects.

  (** [imports()] and [canonical_import_name] *)
  Definition imports (a : agg) : list (str * kind) := a_imports a.
  Definition canonical (a : agg) (name : str) : str :=
    match assoc name (a_redirects a) with Some c => c | None => name end.

  Definition version_gtb (a b : version) : bool := match cmp_version a b with Gt => true | _ => false end.

  (** The name bookkeeping after a successful merge into a semver-compatible import. *)
  Definition rename (imports : list (str * kind)) (redirects : list (str * str)) (name existing_name : str)
    : option (list (str * kind) * list (str * str)) :=
    match alt_key name, alt_key existing_name with
    | Some (_, nv), Some (_, ev) =>
      if version_gtb nv ev then
        (* New version is higher: remove old entry, insert new name; retarget and add redirects *)
        match assoc existing_name imports with
        | Some merged_kind =>
          Some (ins name merged_kind (rem existing_name imports),
                ins existing_name name
                    (map (fun r : str * str => if str_eqb (snd r) existing_name then (fst r, name) else r) redirects))
        | None => None
        end
      else Some (imports, ins name existing_name redirects)
    | _, _ => None                                                    (* .unwrap() *)
    end.

  Definition aggregate (fuel : nat) (a : agg) (s : st) (name : str) (t : types) (k : kind) : AR (agg * st) :=
    match assoc name (a_imports a) with
    | Some existing =>
      match merge_item_kind fuel existing t k (core_of a s) with
      | AOk (_, c) => AOk (agg_of c (c_imports c) (a_redirects a), c_chk c)
      | AErr e => AErr e | APanic => APanic | AOof => AOof
      end
    | None =>
      match find_compat name (a_imports a) with
      | Some (existing_name, existing_kind) =>
        match merge_item_kind fuel existing_kind t k (core_of a s) with
        | AOk (_, c) =>
          match rename (c_imports c) (a_redirects a) name existing_name with
          | Some (im, rd) => AOk (agg_of c im rd, c_chk c)
          | None => APanic
          end
        | AErr e => AErr e | APanic => APanic | AOof => AOof
        end
      | None =>
        match remap_item_kind ord cf fuel t k (core_of a s) with
        | AOk (k', c) =>
          if has_key name (c_imports c) then APanic                   (* assert!(prev.is_none()) *)
          else AOk (agg_of c (ins name k' (c_imports c)) (a_redirects a), c_chk c)
        | AErr e => AErr e | APanic => APanic | AOof => AOof
        end
      end
    end.

  (** A sequence of aggregations with one shared checker; stops at the first failure and reports its position. *)
  Fixpoint aggregate_all (fuel : nat) (a : agg) (s : st) (l : list (str * (types * kind))) (pos : nat)
    : (agg * st) + (nat * AR unit) :=
    match l with
    | [] => inl (a, s)
    | (name, (t, k)) :: r =>
      match aggregate fuel a s name t k with
      | AOk (a', s') => aggregate_all fuel a' s' r (S pos)
      | AErr e => inr (pos, AErr e)
      | APanic => inr (pos, APanic)
      | AOof => inr (pos, AOof)
      end
    end.
End Agg.
