(** C16 (reproducibility).  Two things live here.

    1. [modelled]: the HAND-MAINTAINED list of every order-observing use of a hash-ordered container in the
       Rust sources, each with its classification.  The generated list [HashSites.found_sites] must be included
       in it ([sites_all_modelled] in the proofs): a new hash-ordered iteration anywhere breaks that obligation.

    2. The models behind the classifications.  A hash-ordered container is an association list whose ITERATION
       takes an arbitrary list [l] with [Permutation l (elements m)] -- supplied by an order oracle -- while the
       stored representation stays canonical, so that two executions can be compared with [=]:
         (a) [unregister_with]   : [unregister_package]'s two [retain]s over the HashMaps [defined], [imports];
         (b) [define_type_with]  : [define_type]'s scan of [defined] (fixed code: collected, sorted by node);
         (c) [populate_node_indexes] : [encode_imports]' loop over the [explicit_imports] HashMap (small loop model;
                                   the same loop inside the structural encoder model, with oracles for every hash
                                   container the encoder consults, is in [model/EncodeOrder.v]:
                                   [encode_order_oracle_indep], [history_then_encode_oracle_indep]);
         (d) [run_with]          : whole graph-API histories with an oracle for every such iteration;
         (e) [redirect_visit]    : [TypeAggregator::aggregate]'s [name_redirects.values_mut()] update;
         (f) [find_track], [remap] : [find_semver_compatible_interface]'s scan of [interfaces] and the part of
                                   [remap_interface] that fills that map;
         (g) [missing_reported]  : [world_include]'s [replacements.values().next()];
         (h) [plug_sequence]     : `wac plug`'s loop over [plugs_by_name] (handled under C19). *)
From Coq Require Import List Arith Bool NArith String Permutation.
From WacV Require Import Graph HashSiteTypes.
Import ListNotations.

(** * 1. classification of the sites *)

Inductive reason :=
  | RetainPurePredicate  (* [retain] whose predicate reads only state that the [retain] itself does not modify:
                            the resulting set does not depend on the visiting order *)
  | ResultSortedUniqueKey (* collected into a vector which is then sorted by a key that is unique *)
  | InsertDistinctKeys   (* the loop body only inserts into another map, under pairwise distinct keys *)
  | PointwiseUpdate      (* [values_mut]: every value is replaced by a function of itself alone *)
  | DebugNotRendered     (* [derive(Debug)]: the derived rendering of this type never reaches printed text,
                            diagnostics or encoded bytes (only [log::debug!]); CompositionGraph itself has a
                            hand-written Debug over petgraph's index-ordered Dot with [Config::NodeNoLabel] *)
  | ReducedByMin         (* the visited entries are filtered/mapped and reduced with [Iterator::min]: the minimum of a
                            multiset does not depend on the order in which its elements are met ([min_order_indep]) *)
  | NotAHashContainer.   (* for [RAmbiguous] sites: the receiver is not a hash container after all *)

Inductive model_fn :=
  | MUnregisterRetain | MDefineTypeScan | MEncodeExplicitImports | MRedirectUpdate
  | MFindInterface | MWorldIncludeMissing | MPlugGroups | MConflictFirstNode.

Inductive class :=
  | OrderIrrelevant (r : reason) (m : option model_fn)
  (** the observable result depends on the iteration order; [m] is the model function that takes the order as an
      explicit argument, [finding] the identifier of the reported finding *)
  | OrderRelevant (m : model_fn) (finding : string).

Open Scope string_scope.

Definition modelled : list (site * class) := [
  (mk_site "crates/wac-graph/src/encoding.rs" "<type State>"
    "State.implicit_args" "derive(Debug)" RHash
    "#[derive(Debug)] on State; hand-written impls for it: "
    "0b65f6d255edbbf7",
   OrderIrrelevant DebugNotRendered None);
  (mk_site "crates/wac-graph/src/encoding.rs" "<type State>"
    "State.node_indexes" "derive(Debug)" RHash
    "#[derive(Debug)] on State; hand-written impls for it: "
    "0b65f6d255edbbf7",
   OrderIrrelevant DebugNotRendered None);
  (mk_site "crates/wac-graph/src/encoding.rs" "<type State>"
    "State.packages" "derive(Debug)" RHash
    "#[derive(Debug)] on State; hand-written impls for it: "
    "0b65f6d255edbbf7",
   OrderIrrelevant DebugNotRendered None);
  (mk_site "crates/wac-graph/src/graph.rs" "<type NodeKind>"
    "Instantiation.0" "derive(Debug)" RHash
    "#[derive(Debug)] on NodeKind; hand-written impls for it: "
    "756b47b8957f6417",
   OrderIrrelevant DebugNotRendered None);
  (* define_type, fixed code (561c8ba): collected, sorted by node index, then scanned *)
  (mk_site "crates/wac-graph/src/graph.rs" "CompositionGraph::define_type"
    "self.defined" "iter" RHash
    "let mut others:Vec<_>=self.defined.iter().collect(); ;; then: others.sort_by_key(|(_,other)|**other); ;; for (other_ty,other) in others{other_ty.visit_defined_types(&self.types,& mut |_,id|{ let dep_t"
    "d21c1052b2f4d906",
   OrderIrrelevant ResultSortedUniqueKey (Some MDefineTypeScan));
  (mk_site "crates/wac-graph/src/graph.rs" "CompositionGraph::unregister_package"
    "self.defined" "retain" RHash
    "self.defined.retain(|_,n|self.graph[*n].package!=Some(package));"
    "c044ac336b4290d0",
   OrderIrrelevant RetainPurePredicate (Some MUnregisterRetain));
  (mk_site "crates/wac-graph/src/graph.rs" "CompositionGraph::unregister_package"
    "self.imports" "retain" RHash
    "self.imports.retain(|_,n|self.graph[*n].package!=Some(package));"
    "a5a6f26d85cfd9ad",
   OrderIrrelevant RetainPurePredicate (Some MUnregisterRetain));
  (* fix 591363d: the `first` node of an ImportTypeMergeConflict is the MINIMUM node index among the implicit and
     explicit imports on the same semver track *)
  (mk_site "crates/wac-graph/src/graph.rs" "CompositionGraphEncoder::resolve_imports"
    "explicit_imports" "iter" RHash
    "let first=instantiations.iter().filter(|(other,_)|wac_types::are_semver_compatible(other,name)).map(|(_,index)|*index).chain(explicit_imports.iter().filter(|(other,_)|{wac_types::are_semver_compatible"
    "db06168524e48147",
   OrderIrrelevant ReducedByMin (Some MConflictFirstNode));
  (mk_site "crates/wac-graph/src/graph.rs" "CompositionGraphEncoder::resolve_imports"
    "instantiations" "iter" RHash
    "let first=instantiations.iter().filter(|(other,_)|wac_types::are_semver_compatible(other,name)).map(|(_,index)|*index).chain(explicit_imports.iter().filter(|(other,_)|{wac_types::are_semver_compatible"
    "db06168524e48147",
   OrderIrrelevant ReducedByMin (Some MConflictFirstNode));
  (mk_site "crates/wac-graph/src/graph.rs" "CompositionGraphEncoder::encode_imports"
    "explicit_imports" "for" RHash
    "for (name,node_index) in explicit_imports{ let canonical=aggregator.canonical_import_name(name); let (_,encoded_index)=encoded[canonical];state.node_indexes.insert(node_index,encoded_index);}"
    "94cc08f0d11f4609",
   OrderIrrelevant InsertDistinctKeys (Some MEncodeExplicitImports));
  (* the diagnostic names whichever unused `with` name the map yields first *)
  (mk_site "crates/wac-parser/src/resolution.rs" "AstResolver::world_include"
    "replacements" "values+next" RHash
    "if let Some(missing)=replacements.values().next()"
    "daa5ecbb89c350ff",
   OrderRelevant MWorldIncludeMissing "C16/world-include-missing-name-hash-order");
  (mk_site "crates/wac-types/src/aggregator.rs" "<type TypeAggregator>"
    "TypeAggregator.interfaces" "derive(Debug)" RHash
    "#[derive(Debug)] on TypeAggregator; hand-written impls for it: "
    "7366d04b98143801",
   OrderIrrelevant DebugNotRendered None);
  (mk_site "crates/wac-types/src/aggregator.rs" "<type TypeAggregator>"
    "TypeAggregator.name_redirects" "derive(Debug)" RHash
    "#[derive(Debug)] on TypeAggregator; hand-written impls for it: "
    "7366d04b98143801",
   OrderIrrelevant DebugNotRendered None);
  (mk_site "crates/wac-types/src/aggregator.rs" "<type TypeAggregator>"
    "TypeAggregator.remapped" "derive(Debug)" RHash
    "#[derive(Debug)] on TypeAggregator; hand-written impls for it: "
    "7366d04b98143801",
   OrderIrrelevant DebugNotRendered None);
  (mk_site "crates/wac-types/src/aggregator.rs" "TypeAggregator::aggregate"
    "self.name_redirects" "values_mut" RHash
    "for redirect in self.name_redirects.values_mut(){ if *redirect==existing_name{*redirect=name.to_string();}}"
    "96b44c5d17ff4bad",
   OrderIrrelevant PointwiseUpdate (Some MRedirectUpdate));
  (* first match wins; two different interface ids can sit on one semver track (see [remap]) *)
  (mk_site "crates/wac-types/src/aggregator.rs" "TypeAggregator::find_semver_compatible_interface"
    "self.interfaces" "for" RHash
    "for (existing_name,id) in &self.interfaces{ if let Some((existing_alt,_))=alternate_lookup_key(existing_name){ if existing_alt==alt_key{ return Some(*id);}}}"
    "0746e4cae3609645",
   OrderRelevant MFindInterface "C16/aggregator-interface-track-hash-order");
  (* `wac plug`: plugs are processed group by group in HashMap order; handled under C19 (CliTable.plug_grouping) *)
  (mk_site "src/commands/plug.rs" "PlugCommand::exec"
    "plugs_by_name" "for" RHash
    "for (name,plug_refs) in plugs_by_name{ for (i,plug_ref) in plug_refs.iter().enumerate(){ let ( mut name,path)= match plug_ref{#[cfg(feature=""registry"")]PackageRef::RegistryPackage((name,version))=>{ i"
    "569ddece48428e34",
   OrderRelevant MPlugGroups "C19/plug-grouping-hash-order")
].

Close Scope string_scope.

Definition modelled_sites : list site := map fst modelled.

(** the files of the front end (lexer, AST, parser, printer): no hash-ordered container at all is expected there *)
Definition is_frontend_file (f : string) : bool :=
  String.eqb f "crates/wac-parser/src/lexer.rs" || String.eqb f "crates/wac-parser/src/ast.rs"
  || prefixb "crates/wac-parser/src/ast/" f.

Definition frontend_files : list string :=
  ["crates/wac-parser/src/lexer.rs"; "crates/wac-parser/src/ast.rs"; "crates/wac-parser/src/ast/printer.rs";
   "crates/wac-parser/src/ast/expr.rs"; "crates/wac-parser/src/ast/type.rs"; "crates/wac-parser/src/ast/import.rs";
   "crates/wac-parser/src/ast/export.rs"; "crates/wac-parser/src/ast/let.rs"]%string.

Definition string_mem (x : string) (l : list string) : bool := existsb (String.eqb x) l.

(** * 2. order oracles *)

(** One oracle per hash-ordered container of [CompositionGraph]; the first argument is the position of the
    operation in the history, so that two iterations over the same contents may still see different orders
    (every HashMap instance has its own seed). *)
Record oracle := {
  o_defined : nat -> list (nat * nat) -> list (nat * nat);
  o_imports : nat -> list (name * nat) -> list (name * nat) }.

Definition valid_oracle (o : oracle) : Prop :=
  (forall k l, Permutation (o_defined o k l) l) /\ (forall k l, Permutation (o_imports o k l) l).

Definition id_oracle : oracle := {| o_defined := fun _ l => l; o_imports := fun _ l => l |}.
Definition rev_oracle : oracle := {| o_defined := fun _ l => rev l; o_imports := fun _ l => rev l |}.

(** * (a) [HashMap::retain] *)

(** entries kept when the map is visited in the order [visit] (the predicate is pure) *)
Definition retain_visit {A} (keep : A -> bool) (visit : list A) : list A := filter keep visit.

(** back to the canonical representation [m] of the map: the entries of [m] that were kept *)
Definition canon {A} (eqb : A -> A -> bool) (m kept : list A) : list A := filter (fun x => existsb (eqb x) kept) m.

Definition nn_eqb (a b : nat * nat) : bool := (fst a =? fst b) && (snd a =? snd b).
Definition np_eqb (a b : name * nat) : bool := N.eqb (fst a) (fst b) && (snd a =? snd b).

Definition unregister_with (o : oracle) (k : nat) (s : gstate) (id : pkgid) : gstate * outcome :=
  match nth_error (pkgs s) (fst id) with
  | None => (s, OPanic PInvalidPackageId)
  | Some sl =>
      if negb (ps_gen sl =? snd id) then (s, OPanic PInvalidPackageId) else
      if negb (forallb (fun p => live s (snd p)) (exports s) && forallb (fun p => live s (snd p)) (defined s)
               && forallb (fun p => live s (snd p)) (imports s)) then (s, OPanic PDeadNodeInMap) else
      let keep := fun n => negb (node_pkg_is s id n) in
      let s1 := with_maps s
                  (canon np_eqb (imports s) (retain_visit (fun p => keep (snd p)) (o_imports o k (imports s))))
                  (filter (fun p => keep (snd p)) (exports s))          (* IndexMap: its own, fixed order *)
                  (canon nn_eqb (defined s) (retain_visit (fun p => keep (snd p)) (o_defined o k (defined s)))) in
      let cross := flat_map (fun e => match ek e with
                                      | EArg i => if node_pkg_is s id (esrc e) && negb (node_pkg_is s id (etgt e))
                                                  then [(etgt e, i)] else []
                                      | _ => [] end) (edges s) in
      match remove_satisfied_all s1 cross with
      | inr p => (s, OPanic p)
      | inl s2 =>
          let victims := nodes_where s2 (fun nd => pkg_eqb (npkg nd) (Some id)) in
          let s3 := fold_left drop_node victims s2 in
          match ps_pkg sl with
          | None => (s, OPanic PInvalidPackageId)
          | Some _ =>
              (with_pkgs s3 (set_nth (pkgs s3) (fst id) {| ps_pkg := None; ps_gen := S (ps_gen sl) |}) (fst id :: free_pkgs s3), OUnit)
          end
      end
  end.

(** * (b) [define_type] with the iteration order of [defined] as an argument *)

Definition sort_by_node (d : list (nat * nat)) : list (nat * nat) := fold_right insert_sorted_by_node [] d.

(** [d]: the order in which [self.defined.iter()] yields the entries *)
Definition define_type_with (u : universe) (s : gstate) (d : list (nat * nat)) (nm : name) (t : nat) : gstate * outcome :=
  match nth_error (u_tys u) t with
  | None => (s, OPanic PBadUniverse)
  | Some td =>
      if existsb (fun p => fst p =? t) (defined s) then (s, OErr TypeAlreadyDefined) else
      if td_res td then (s, OErr CannotDefineResource) else
      if existsb (fun p => N.eqb (fst p) nm) (exports s) then (s, OErr ExportConflict) else
      if negb (u_import_name_ok u nm) then (s, OErr InvalidExternName) else
      let nd := {| nk := NDef; npkg := None; nitem := td_kind td; nname := None; nexport := Some nm |} in
      let '(s1, idx) := add_node s nd in
      let s2 := fold_left (fun s d =>
                  if d =? t then s else
                  match alist_get Nat.eqb (defined s) d with
                  | Some dn => if has_dep_edge s dn idx then s else add_edge s {| esrc := dn; etgt := idx; ek := EDep |}
                  | None => s
                  end) (td_deps td) s1 in
      let others := sort_by_node d in
      let s3 := fold_left (fun s o =>
                  match nth_error (u_tys u) (fst o) with
                  | None => s
                  | Some od =>
                      fold_left (fun s d =>
                        if (d =? t) && negb (has_dep_edge s idx (snd o))
                        then add_edge s {| esrc := idx; etgt := snd o; ek := EDep |} else s) (td_deps od) s
                  end) others s2 in
      (with_maps s3 (imports s3) (exports s3 ++ [(nm, idx)]) ((t, idx) :: defined s3), ONode idx)
  end.

(** the code BEFORE 561c8ba: the scan follows the iteration order itself (kept to state what the fix removed) *)
Definition define_type_unsorted (u : universe) (s : gstate) (d : list (nat * nat)) (nm : name) (t : nat) : gstate * outcome :=
  match nth_error (u_tys u) t with
  | None => (s, OPanic PBadUniverse)
  | Some td =>
      if existsb (fun p => fst p =? t) (defined s) then (s, OErr TypeAlreadyDefined) else
      if td_res td then (s, OErr CannotDefineResource) else
      if existsb (fun p => N.eqb (fst p) nm) (exports s) then (s, OErr ExportConflict) else
      if negb (u_import_name_ok u nm) then (s, OErr InvalidExternName) else
      let nd := {| nk := NDef; npkg := None; nitem := td_kind td; nname := None; nexport := Some nm |} in
      let '(s1, idx) := add_node s nd in
      let s2 := fold_left (fun s d =>
                  if d =? t then s else
                  match alist_get Nat.eqb (defined s) d with
                  | Some dn => if has_dep_edge s dn idx then s else add_edge s {| esrc := dn; etgt := idx; ek := EDep |}
                  | None => s
                  end) (td_deps td) s1 in
      let s3 := fold_left (fun s o =>
                  match nth_error (u_tys u) (fst o) with
                  | None => s
                  | Some od =>
                      fold_left (fun s d =>
                        if (d =? t) && negb (has_dep_edge s idx (snd o))
                        then add_edge s {| esrc := idx; etgt := snd o; ek := EDep |} else s) (td_deps od) s
                  end) d s2 in
      (with_maps s3 (imports s3) (exports s3 ++ [(nm, idx)]) ((t, idx) :: defined s3), ONode idx)
  end.

(** * (d) histories under an oracle *)

Definition step_with (o : oracle) (k : nat) (u : universe) (s : gstate) (op : op) : gstate * outcome :=
  match op with
  | Unregister id => unregister_with o k s id
  | DefineType n t => define_type_with u s (o_defined o k (defined s)) n t
  | _ => step u s op
  end.

Fixpoint run_from (o : oracle) (u : universe) (k : nat) (s : gstate) (ops : list op) : gstate * list outcome :=
  match ops with
  | [] => (s, [])
  | op :: r => let '(s', out) := step_with o k u s op in
               let '(s'', outs) := run_from o u (S k) s' r in (s'', out :: outs)
  end.

(** final state (all of it, including adjacency order and the free lists) and every return value *)
Definition run_with (o : oracle) (u : universe) (ops : list op) : gstate * list outcome := run_from o u 0 empty_graph ops.

Fixpoint run_plain (u : universe) (s : gstate) (ops : list op) : gstate * list outcome :=
  match ops with
  | [] => (s, [])
  | op :: r => let '(s', out) := step u s op in let '(s'', outs) := run_plain u s' r in (s'', out :: outs)
  end.

(** the same histories on the code before 561c8ba *)
Definition step_unsorted (o : oracle) (k : nat) (u : universe) (s : gstate) (op : op) : gstate * outcome :=
  match op with
  | DefineType n t => define_type_unsorted u s (o_defined o k (defined s)) n t
  | _ => step_with o k u s op
  end.
Fixpoint run_unsorted_from (o : oracle) (u : universe) (k : nat) (s : gstate) (ops : list op) : gstate :=
  match ops with
  | [] => s
  | op :: r => run_unsorted_from o u (S k) (fst (step_unsorted o k u s op)) r
  end.

(** * (c') [resolve_imports] (fix 591363d): the `first` node of a merge conflict *)

(** [visit1], [visit2]: the entries of [instantiations] / [explicit_imports] in iteration order as (name, node);
    [compat]: semver compatibility with the conflicting name; [dflt]: the conflicting node itself. *)
Definition conflict_first (compat : name -> bool) (visit1 visit2 : list (name * nat)) (dflt : nat) : nat :=
  match map snd (filter (fun p => compat (fst p)) (visit1 ++ visit2)) with
  | [] => dflt
  | x :: r => fold_left Nat.min r x
  end.

(** * (c) [encode_imports]: the loop over the [explicit_imports] HashMap *)

(** [encoded]: import name -> encoded index ([None]: the Rust index expression panics); [canonical]: the
    aggregator's name redirection; [visit]: (import name, node) in iteration order; [ni]: [state.node_indexes]
    as an association list in which the FIRST entry for a key is the current one (insert = cons). *)
Fixpoint populate_node_indexes (encoded : name -> option N) (canonical : name -> name)
         (visit : list (name * nat)) (ni : list (nat * N)) : option (list (nat * N)) :=
  match visit with
  | [] => Some ni
  | (nm, node) :: r =>
      match encoded (canonical nm) with
      | None => None
      | Some idx => populate_node_indexes encoded canonical r ((node, idx) :: ni)
      end
  end.

Definition ni_lookup (ni : option (list (nat * N))) (node : nat) : option (option N) :=
  match ni with None => None | Some l => Some (alist_get Nat.eqb l node) end.

(** * (e) [name_redirects.values_mut()] *)

Definition redirect_visit (old new : name) (visit : list (name * name)) : list (name * name) :=
  map (fun p => (fst p, if N.eqb (snd p) old then new else snd p)) visit.

(** * (f) [find_semver_compatible_interface] and the filling of [interfaces] *)

(** [track]: [alternate_lookup_key] (name -> semver track, if any); first matching entry in iteration order *)
Fixpoint find_track (track : name -> option N) (key : N) (visit : list (name * nat)) : option nat :=
  match visit with
  | [] => None
  | (nm, id) :: r => match track nm with
                     | Some k => if N.eqb k key then Some id else find_track track key r
                     | None => find_track track key r
                     end
  end.

Definition track_consistent (track : name -> option N) (l : list (name * nat)) : Prop :=
  forall n1 i1 n2 i2 k, In (n1, i1) l -> In (n2, i2) l -> track n1 = Some k -> track n2 = Some k -> i1 = i2.

(** source interfaces: optional name, used interfaces (indexes into the source arena) *)
Record iface := { if_name : option name; if_uses : list nat }.
Record agg := { a_interfaces : list (name * nat); a_remapped : list (nat * nat); a_next : nat }.
Definition empty_agg : agg := {| a_interfaces := []; a_remapped := []; a_next := 0 |}.

(** the part of [TypeAggregator::remap_interface] / [merge_interface_used_types] that touches [interfaces]:
    look the name up, else scan for the track (in oracle order), merge into what was found (remapping the used
    interfaces), else remap the used interfaces first and only then allocate and register a new interface. *)
Fixpoint remap (fuel : nat) (src : list iface) (track : name -> option N) (ord : list (name * nat) -> list (name * nat))
         (a : agg) (id : nat) : agg * option nat :=
  match fuel with
  | O => (a, None)
  | S f =>
      match nth_error src id with
      | None => (a, None)
      | Some i =>
          let uses_all := fix go (a : agg) (l : list nat) : agg :=
                            match l with [] => a | x :: r => go (fst (remap f src track ord a x)) r end in
          let existing :=
              match if_name i with
              | Some nm => match alist_get N.eqb (a_interfaces a) nm with
                           | Some e => Some e
                           | None => match track nm with
                                     | Some k => find_track track k (ord (a_interfaces a))
                                     | None => None
                                     end
                           end
              | None => None
              end in
          match existing, if_name i with
          | Some e, Some nm =>
              let a1 := uses_all a (if_uses i) in
              ({| a_interfaces := (nm, e) :: a_interfaces a1; a_remapped := a_remapped a1; a_next := a_next a1 |}, Some e)
          | _, _ =>
              match alist_get Nat.eqb (a_remapped a) id with
              | Some e => (a, Some e)
              | None =>
                  let a1 := uses_all a (if_uses i) in
                  let e := a_next a1 in
                  ({| a_interfaces := match if_name i with Some nm => (nm, e) :: a_interfaces a1 | None => a_interfaces a1 end;
                      a_remapped := (id, e) :: a_remapped a1; a_next := S e |}, Some e)
              end
          end
      end
  end.

(** * (g) [world_include]: the name in the `missing` diagnostic *)

(** [visit]: the unused replacement names in the map's iteration order *)
Definition missing_reported (visit : list name) : option name := hd_error visit.
(** repaired code: the first `with` item, in source order, that is still unused *)
Definition missing_reported_fixed (with_items remaining : list name) : option name :=
  find (fun n => existsb (N.eqb n) remaining) with_items.

(** * (h) `wac plug`: groups are visited in map order, members in insertion order *)
Definition plug_sequence (groups : list (name * list nat)) : list nat := flat_map snd groups.
