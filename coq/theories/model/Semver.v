(** Model of [semver 1.0.22]: [Version::from_str] (parse.rs) and the derived [Ord] (impls.rs).
    Control flow follows the Rust source; [u64] overflow is explicit. *)
From WacV Require Import Str Ord.

Record version := { major : N; minor : N; patch : N; pre : str; build : str }.

Definition u64_max : N := 18446744073709551615.
Definition c_dot : N := 46.   Definition c_dash : N := 45.   Definition c_plus : N := 43.
Definition c_zero : N := 48.  Definition c_at : N := 64.

(** parse.rs [numeric_identifier]: [started] is [len > 0]. *)
Fixpoint num_loop (value : N) (started : bool) (s : str) : option (N * str) :=
  match s with
  | c :: r =>
      if is_digit c then
        if (value =? 0) && started then None                       (* LeadingZero *)
        else let v := value * 10 + (c - 48) in
             if v <=? u64_max then num_loop v true r else None      (* Overflow *)
      else if started then Some (value, s) else None                (* UnexpectedChar *)
  | [] => if started then Some (value, []) else None                (* UnexpectedEnd *)
  end.
Definition numeric_identifier (s : str) : option (N * str) := num_loop 0 false s.

Definition dot (s : str) : option str :=
  match s with c :: r => if c =? c_dot then Some r else None | [] => None end.

Definition is_ident_nondigit (c : N) : bool := is_alpha c || (c =? c_dash).

(** parse.rs [identifier]: [acc] = input[..accumulated_len], [seg] = current segment. *)
Fixpoint ident_loop (is_pre : bool) (acc seg : str) (nondigit : bool) (s : str) : option (str * str) :=
  let boundary (b : option N) (rest_after_dot : str) (k : str -> option (str * str)) :=
    match seg with
    | [] => if (match acc with [] => true | _ => false end)
               && negb (match b with Some c => c =? c_dot | None => false end)
            then Some ([], s) else None                              (* EmptySegment *)
    | c0 :: seg' =>
        if is_pre && (match seg' with [] => false | _ => true end) && negb nondigit && (c0 =? c_zero)
        then None                                                    (* LeadingZero *)
        else match b with
             | Some c => if c =? c_dot then k (acc ++ seg ++ [c_dot]) else Some (acc ++ seg, s)
             | None => Some (acc ++ seg, s)
             end
    end in
  match s with
  | c :: r =>
      if is_ident_nondigit c then ident_loop is_pre acc (seg ++ [c]) true r
      else if is_digit c then ident_loop is_pre acc (seg ++ [c]) nondigit r
      else boundary (Some c) r (fun acc' => ident_loop is_pre acc' [] false r)
  | [] => boundary None [] (fun _ => None)
  end.
Definition identifier (is_pre : bool) (s : str) : option (str * str) := ident_loop is_pre [] [] false s.

Definition strip_prefix (c : N) (s : str) : option str :=
  match s with x :: r => if x =? c then Some r else None | [] => None end.

Definition is_nil {A} (l : list A) : bool := match l with [] => true | _ => false end.

(** parse.rs [impl FromStr for Version]. *)
Definition parse_version (text : str) : option version :=
  if is_nil text then None else
  match numeric_identifier text with None => None | Some (maj, text) =>
  match dot text with None => None | Some text =>
  match numeric_identifier text with None => None | Some (mi, text) =>
  match dot text with None => None | Some text =>
  match numeric_identifier text with None => None | Some (pa, text) =>
  if is_nil text then Some {| major := maj; minor := mi; patch := pa; pre := []; build := [] |} else
  match (match strip_prefix c_dash text with
         | Some text => match identifier true text with
                        | None => None
                        | Some (p, text) => if is_nil p then None else Some (p, text)
                        end
         | None => Some ([], text)
         end) with None => None | Some (p, text) =>
  match (match strip_prefix c_plus text with
         | Some text => match identifier false text with
                        | None => None
                        | Some (b, text) => if is_nil b then None else Some (b, text)
                        end
         | None => Some ([], text)
         end) with None => None | Some (b, text) =>
  if is_nil text then Some {| major := maj; minor := mi; patch := pa; pre := p; build := b |}
  else None
  end end end end end end end.

(** impls.rs: per-segment comparisons. *)
Definition all_digits (s : str) : bool := forallb is_digit s.

Definition pre_seg_cmp (l r : str) : comparison :=
  match all_digits l, all_digits r with
  | true, true => then_with (len_cmp l r) (str_cmp l r)
  | true, false => Lt
  | false, true => Gt
  | false, false => str_cmp l r
  end.

Definition build_seg_cmp (l r : str) : comparison :=
  match all_digits l, all_digits r with
  | true, true =>
      let lv := trim_start_matches c_zero l in
      let rv := trim_start_matches c_zero r in
      then_with (len_cmp lv rv) (then_with (str_cmp lv rv) (len_cmp l r))
  | true, false => Lt
  | false, true => Gt
  | false, false => str_cmp l r
  end.

(** The Rust loops return early on [(true,false)]/[(false,true)] — the same as a lexicographic
    comparison whose element comparison yields Lt/Gt there; a missing rhs segment is Greater. *)
Definition cmp_pre (a b : str) : comparison :=
  match is_nil a, is_nil b with
  | true, true => Eq
  | true, false => Gt
  | false, true => Lt
  | false, false => lex_cmp pre_seg_cmp (split_on c_dot a) (split_on c_dot b)
  end.

Definition cmp_build (a b : str) : comparison :=
  lex_cmp build_seg_cmp (split_on c_dot a) (split_on c_dot b).

(** [#[derive(Ord)]] on [Version]: field order. *)
Definition cmp_version (a b : version) : comparison :=
  then_with (N.compare (major a) (major b))
  (then_with (N.compare (minor a) (minor b))
  (then_with (N.compare (patch a) (patch b))
  (then_with (cmp_pre (pre a) (pre b))
             (cmp_build (build a) (build b))))).

Definition version_ltb (a b : version) : bool :=
  match cmp_version a b with Lt => true | _ => false end.
