(** Model of the recursive-descent parser of [crates/wac-parser/src/ast.rs] and
    [ast/{type,expr,import,export,let}.rs]: every [Parse]/[Peek] impl, [parse_token], [parse_optional],
    [parse_delimited], [Lookahead] (attempt lists and the selection of [Expected]/[ExpectedEither]/
    [ExpectedMultiple]), the [peek2] uses, [EmptyType], [InvalidVersion], the end-of-input span rule.

    The parser works on the output of [Lexer.lex] (tokens up to and including the first lexer error).
    It is parameterised by a record of deviation flags: under [impl_flags] it follows the Rust code
    branch for branch; under [doc_flags] it recognises the grammar of LANGUAGE.md as written. The only
    recursive productions are value types and expressions; both are defined as a non-recursive step
    functional applied to a fuelled fixpoint. *)
From WacV Require Import Str Token Lexer Semver Ast.

(* ------------------------------------------------------------------ deviation flags *)

Record deviations : Set := {
  arrow_empty_results : bool;      (* `func() ->` with nothing after the arrow *)
  result_underscore_forms : bool;  (* `result<_>`, `result<_, _>`, `result<T, _>` *)
  uppercase_words : bool;          (* identifier words in upper case (lexical) *)
  dangling_dash : bool;            (* `foo-` is one identifier token (logos artefact, lexical) *)
  keyword_colon : bool;            (* `record:` is an identifier then a colon (logos artefact, lexical) *)
  pkg_separator_zone : bool;       (* `a:b:` / `a:b-`: not modelled (logos artefact, lexical) *)
  empty_new_args : bool;           (* `new a:b {}` *)
  fill_alone : bool;               (* `new a:b { ... }` *)
  fill_anywhere : bool;            (* `...` as first / non-last argument, or followed by a comma *)
  empty_use_items : bool;          (* `use x.{}` *)
  empty_include_with : bool;       (* `include w with {}` *)
  named_results : bool;            (* `-> (a: u8)`      (documented, not implemented) *)
  borrow_any_type : bool           (* `borrow<list<u8>>` (documented, not implemented) *)
}.

Definition impl_flags : deviations := {|
  arrow_empty_results := true; result_underscore_forms := true; uppercase_words := true;
  dangling_dash := true; keyword_colon := true; pkg_separator_zone := true;
  empty_new_args := true; fill_alone := true; fill_anywhere := true; empty_use_items := true;
  empty_include_with := true; named_results := false; borrow_any_type := false |}.

Definition doc_flags : deviations := {|
  arrow_empty_results := false; result_underscore_forms := false; uppercase_words := false;
  dangling_dash := false; keyword_colon := false; pkg_separator_zone := false;
  empty_new_args := false; fill_alone := false; fill_anywhere := false; empty_use_items := false;
  empty_include_with := false; named_results := true; borrow_any_type := true |}.

(* ------------------------------------------------------------------ results, errors, environment *)

Inductive perror : Set :=
| PE_Lexer (e : lexerr) (sp : span)
| PE_Expected (attempts : list token) (found : option token) (sp : span)
      (* one attempt: Expected; two: ExpectedEither; more: ExpectedMultiple *)
| PE_EmptyType (which : N) (sp : span)       (* 0 variant, 1 record, 2 flags, 3 enum *)
| PE_InvalidVersion (text : str) (sp : span)
| PE_DocRestriction (which : N).             (* only without the corresponding deviation flag *)

Inductive pres (A : Type) : Type :=
| POk (a : A) (rest : list lexitem)
| PErr (e : perror)
| PPanic (site : N)
| PUnmodelled                 (* the parser reached an [LUnmodelled] lexer item *)
| PFuel.
Arguments POk {A}. Arguments PErr {A}. Arguments PPanic {A}. Arguments PUnmodelled {A}. Arguments PFuel {A}.

Definition parser (A : Type) : Type := list lexitem -> pres A.

(** [eof_tok]: span reported by [parse_token] at end of input; [eof_la]: span a [Lookahead] created at
    end of input carries ([Lexer::span] = span of the last consumed token, moved when it touches the
    end of the source). *)
Record ctx : Set := { eof_tok : span; eof_la : span }.
Record env : Set := { dv : deviations; cx : ctx; fuel : nat }.

Definition bind {A B} (m : pres A) (k : A -> list lexitem -> pres B) : pres B :=
  match m with
  | POk a r => k a r | PErr e => PErr e | PPanic n => PPanic n | PUnmodelled => PUnmodelled | PFuel => PFuel
  end.
Notation "m >>= k" := (bind m k) (at level 50, left associativity).

Fixpoint last_tok (items : list lexitem) (acc : option rtoken) : option rtoken :=
  match items with
  | [] => acc
  | LTok t :: r => last_tok r (Some t)
  | _ :: r => last_tok r acc
  end.

(** The character of [s] holding byte [n], where [s] is the rest of the source starting at byte [o]: offset
    and UTF-8 length of that character; when [n] lies at or beyond the end, the empty span at the end.
    (Rust: walk [start] down to a character boundary, then [source[start..].chars().next()].) *)
Fixpoint char_holding (o : N) (s : str) (n : N) : span :=
  match s with
  | [] => {| off := o; slen := 0 |}
  | c :: r => if n <? o + utf8_len c then {| off := o; slen := utf8_len c |}
              else char_holding (o + utf8_len c) r n
  end.

(** [Lexer::span]: a span ending at the end of the source is replaced by the whole character that holds
    the byte before the span's start ([start.saturating_sub(1)]); on an empty source by the empty span. *)
Definition lexer_span (src : str) (start stop : N) : span :=
  if stop =? byte_len src then char_holding 0 src (start - 1) else {| off := start; slen := stop - start |}.

Definition mk_ctx (src : str) (items : list lexitem) : ctx :=
  {| eof_tok := lexer_span src (byte_len src) (byte_len src);
     eof_la := match last_tok items None with
               | Some t => lexer_span src (off (tsp t)) (span_end (tsp t))
               | None => lexer_span src 0 0
               end |}.

(* ------------------------------------------------------------------ primitives *)

Definition peek_kind (ts : list lexitem) : option token :=
  match ts with LTok t :: _ => Some (tk t) | _ => None end.

Definition peek2_kind (ts : list lexitem) : option token :=
  match ts with _ :: r => peek_kind r | [] => None end.

Fixpoint mem_tok (k : token) (l : list token) : bool :=
  match l with [] => false | x :: r => token_eqb x k || mem_tok k r end.

(** What the parser reports when it needs a token and the head of the stream is not one. *)
Definition stuck {A} (ts : list lexitem) (at_eof : perror) : pres A :=
  match ts with
  | LErr e sp :: _ => PErr (PE_Lexer e sp)
  | LUnmodelled _ :: _ => PUnmodelled
  | LPanic :: _ => PPanic 0
  | LFuel :: _ => PFuel
  | _ => PErr at_eof
  end.

(** [parse_token], returning the whole token. *)
Definition next_tok (e : env) (expected : token) : parser rtoken := fun ts =>
  match ts with
  | LTok t :: r =>
      if token_eqb (tk t) expected then POk t r
      else PErr (PE_Expected [expected] (Some (tk t)) (tsp t))
  | _ => stuck ts (PE_Expected [expected] None (eof_tok (cx e)))
  end.

Definition parse_token (e : env) (expected : token) : parser span := fun ts =>
  next_tok e expected ts >>= fun t r => POk (tsp t) r.

(** [lexer.next().unwrap()] after a successful peek. *)
Definition any_tok : parser rtoken := fun ts =>
  match ts with LTok t :: r => POk t r | _ => PPanic 1 end.

(** [Lookahead::error] with the given attempts. *)
Definition la_fail {A} (e : env) (attempts : list token) : parser A := fun ts =>
  match ts with
  | LTok t :: _ => PErr (PE_Expected attempts (Some (tk t)) (tsp t))
  | _ => stuck ts (PE_Expected attempts None (eof_la (cx e)))
  end.

Definition parse_optional {A} (expected : token) (cb : parser A) : parser (option A) := fun ts =>
  match ts with
  | LTok t :: r =>
      if token_eqb (tk t) expected then cb r >>= fun a r' => POk (Some a) r' else POk None ts
  | [] => POk None ts
  | _ => stuck ts (PE_DocRestriction 0)
  end.

(** Alternatives selected by the next token: [(peek set, parser)] in lookahead order. *)
Fixpoint alt_find {A} (k : token) (bs : list (list token * parser A)) : option (parser A) :=
  match bs with
  | [] => None
  | (first, p) :: r => if mem_tok k first then Some p else alt_find k r
  end.

Definition alt_attempts {A} (bs : list (list token * parser A)) : list token :=
  concat (map fst bs).

Definition alt {A} (e : env) (bs : list (list token * parser A)) : parser A := fun ts =>
  match peek_kind ts with
  | Some k => match alt_find k bs with
              | Some p => p ts
              | None => la_fail e (alt_attempts bs) ts
              end
  | None => la_fail e (alt_attempts bs) ts
  end.

(** [parse_delimited] (the loop is cut by [fuel e], which exceeds the number of tokens). Also reports whether the list ended with a separator (needed only by the
    documented-grammar restrictions on [...]). [first] = the attempts of [T::peek]. *)
Fixpoint delim_loop {A} (n : nat) (e : env) (until : token) (commas : bool) (first : list token)
    (p : parser A) (ts : list lexitem) : pres (list A * bool) :=
  match n with
  | O => PFuel
  | S n' =>
      match peek_kind ts with
      | Some k =>
          if token_eqb k until then POk ([], false) ts
          else if mem_tok k first then
            p ts >>= fun a r =>
            match peek_kind r with
            | Some k2 =>
                if token_eqb k2 until then POk ([a], false) r
                else if commas then
                  parse_token e TComma r >>= fun _ r1 =>
                  delim_loop n' e until commas first p r1 >>= fun '(items, tr) r2 =>
                  POk (a :: items, match items with [] => true | _ => tr end) r2
                else
                  delim_loop n' e until commas first p r >>= fun '(items, tr) r2 =>
                  POk (a :: items, tr) r2
            | None => la_fail e (until :: first) r
            end
          else la_fail e (until :: first) ts
      | None => la_fail e (until :: first) ts
      end
  end.

Definition delimited {A} (e : env) (until : token) (commas : bool) (first : list token)
    (p : parser A) : parser (list A * bool) := fun ts =>
  delim_loop (fuel e) e until commas first p ts.

Definition delimited_items {A} (e : env) (until : token) (commas : bool) (first : list token)
    (p : parser A) : parser (list A) := fun ts =>
  delimited e until commas first p ts >>= fun '(items, _) r => POk items r.

Definition docs_of (ts : list lexitem) : list doc :=
  match ts with LTok t :: _ => tdocs t | _ => [] end.

(* ------------------------------------------------------------------ leaves *)

Definition mk_ident (t : rtoken) : ident :=
  {| id_string := match ttext t with c :: r => if c =? c_percent then r else ttext t | [] => [] end;
     id_span := tsp t |}.

Definition parse_ident (e : env) : parser ident := fun ts =>
  next_tok e TIdent ts >>= fun t r => POk (mk_ident t) r.

(** [strip_prefix('"').unwrap().strip_suffix('"').unwrap()] *)
Definition unquote (s : str) : option str :=
  match s with
  | c :: r => if c =? c_quote
              then match rev r with
                   | c' :: r' => if c' =? c_quote then Some (rev r') else None
                   | [] => None
                   end
              else None
  | [] => None
  end.

Definition strlit_of (t : rtoken) : option strlit :=
  match unquote (ttext t) with
  | Some v => Some {| s_value := v; s_span := tsp t |}
  | None => None
  end.

Definition parse_string (e : env) : parser strlit := fun ts =>
  next_tok e TString ts >>= fun t r =>
  match strlit_of t with
  | Some s => POk s r
  | None => PPanic 3
  end.

(** The [@version] tail of a package token: text after the first [@], parsed by [semver].
    [inl]: the version (if any); [inr]: the [InvalidVersion] error. *)
Definition version_of (t : rtoken) (s : str) : option version + perror :=
  match find_char c_atsign s with
  | None => inl None
  | Some at_ =>
      let v := skipn (S at_) s in
      match parse_version v with
      | Some ver => inl (Some ver)
      | None =>
          let start := off (tsp t) + N.of_nat at_ + 1 in
          inr (PE_InvalidVersion v {| off := start; slen := span_end (tsp t) - start |})
      end
  end.

Inductive leaf_res (A : Type) : Type := LeafOk (a : A) | LeafErr (e : perror) | LeafPanic (site : N).
Arguments LeafOk {A}. Arguments LeafErr {A}. Arguments LeafPanic {A}.

(** The body of [PackageName::parse] after the token has been taken. *)
Definition package_name_of (t : rtoken) : leaf_res package_name :=
  let s := ttext t in
  let name := match find_char c_atsign s with Some at_ => firstn at_ s | None => s end in
  match version_of t s with
  | inl ver => LeafOk {| pn_string := s; pn_name := name; pn_version := ver; pn_span := tsp t |}
  | inr e => LeafErr e
  end.

(** The body of [PackagePath::parse] after the token has been taken. *)
Definition package_path_of (t : rtoken) : leaf_res package_path :=
  let s := ttext t in
  match find_char c_slash s with
  | None => LeafPanic 4
  | Some slash =>
      let name := firstn slash s in
      let stop := match find_char c_atsign s with Some at_ => at_ | None => length s end in
      let segments := firstn (stop - S slash) (skipn (S slash) s) in
      match version_of t s with
      | inl ver => LeafOk {| pp_span := tsp t; pp_string := s; pp_name := name; pp_segments := segments;
                             pp_version := ver |}
      | inr e => LeafErr e
      end
  end.

Definition of_leaf {A} (l : leaf_res A) (r : list lexitem) : pres A :=
  match l with LeafOk a => POk a r | LeafErr e => PErr e | LeafPanic n => PPanic n end.

Definition parse_package_name (e : env) : parser package_name := fun ts =>
  next_tok e TPackageName ts >>= fun t r => of_leaf (package_name_of t) r.

Definition parse_package_path (e : env) : parser package_path := fun ts =>
  next_tok e TPackagePath ts >>= fun t r => of_leaf (package_path_of t) r.

Definition parse_extern_name (e : env) : parser extern_name :=
  alt e [ ([TIdent], fun ts => parse_ident e ts >>= fun i r => POk (ENIdent i) r);
          ([TString], fun ts => parse_string e ts >>= fun s r => POk (ENString s) r) ].

(* ------------------------------------------------------------------ value types *)

Definition prim_of_token (k : token) : option prim :=
  match k with
  | TU8Keyword => Some PU8 | TS8Keyword => Some PS8 | TU16Keyword => Some PU16
  | TS16Keyword => Some PS16 | TU32Keyword => Some PU32 | TS32Keyword => Some PS32
  | TU64Keyword => Some PU64 | TS64Keyword => Some PS64 | TF32Keyword => Some PF32
  | TF64Keyword => Some PF64 | TCharKeyword => Some PChar | TBoolKeyword => Some PBool
  | TStringKeyword => Some PString
  | _ => None
  end.

(** The attempts of [Type::peek], in order. *)
Definition type_first : list token :=
  [TU8Keyword; TS8Keyword; TU16Keyword; TS16Keyword; TU32Keyword; TS32Keyword; TU64Keyword;
   TS64Keyword; TF32Keyword; TF64Keyword; TCharKeyword; TBoolKeyword; TStringKeyword;
   TTupleKeyword; TListKeyword; TOptionKeyword; TResultKeyword; TBorrowKeyword; TIdent].

Definition peek_in (first : list token) (ts : list lexitem) : bool :=
  match peek_kind ts with Some k => mem_tok k first | None => false end.

(** `_` or a type, inside [result<...>]. *)
Definition result_arg (self : parser ty) (e : env) : parser (option ty) := fun ts =>
  match peek_kind ts with
  | Some k =>
      if token_eqb k TUnderscore then any_tok ts >>= fun _ r => POk None r
      else if mem_tok k type_first then self ts >>= fun t r => POk (Some t) r
      else la_fail e (TUnderscore :: type_first) ts
  | None => la_fail e (TUnderscore :: type_first) ts
  end.

(** LANGUAGE.md: [result], [result<T>], [result<_, T>], [result<T, T>]. *)
Definition result_shape_ok (d : deviations) (ok : option ty) (err : option (option ty)) : bool :=
  result_underscore_forms d ||
  match ok, err with
  | Some _, None => true
  | Some _, Some (Some _) => true
  | None, Some (Some _) => true
  | _, _ => false
  end.

Definition angle1 (self : parser ty) (e : env) (mk : ty -> span -> ty) (t : rtoken) : parser ty :=
  fun r =>
  parse_token e TOpenAngle r >>= fun _ r1 =>
  self r1 >>= fun inner r2 =>
  parse_token e TCloseAngle r2 >>= fun close r3 =>
  POk (mk inner (span_join (tsp t) close)) r3.

Definition type_step (self : parser ty) (e : env) : parser ty := fun ts =>
  match ts with
  | LTok t :: r =>
      match prim_of_token (tk t) with
      | Some p => POk (TyPrim p (tsp t)) r
      | None =>
          match tk t with
          | TTupleKeyword =>
              parse_token e TOpenAngle r >>= fun _ r1 =>
              if peek_in type_first r1 then
                delimited_items e TCloseAngle true type_first self r1 >>= fun tys r2 =>
                match tys with
                | [] => PPanic 2
                | _ :: _ =>
                    parse_token e TCloseAngle r2 >>= fun close r3 =>
                    POk (TyTuple tys (span_join (tsp t) close)) r3
                end
              else la_fail e type_first r1
          | TListKeyword => angle1 self e TyList t r
          | TOptionKeyword => angle1 self e TyOption t r
          | TResultKeyword =>
              parse_optional TOpenAngle (fun r1 =>
                result_arg self e r1 >>= fun ok r2 =>
                parse_optional TComma (result_arg self e) r2 >>= fun err r3 =>
                if result_shape_ok (dv e) ok err then
                  parse_token e TCloseAngle r3 >>= fun close r4 =>
                  POk (ok, match err with Some x => x | None => None end,
                       span_join (tsp t) close) r4
                else PErr (PE_DocRestriction 1)) r >>= fun res r5 =>
              match res with
              | Some (ok, err, sp) => POk (TyResult ok err sp) r5
              | None => POk (TyResult None None (tsp t)) r5
              end
          | TBorrowKeyword =>
              parse_token e TOpenAngle r >>= fun _ r1 =>
              (if borrow_any_type (dv e)
               then self r1 >>= fun inner r2 =>
                    parse_token e TCloseAngle r2 >>= fun close r3 =>
                    POk (match inner with
                         | TyIdent i => TyBorrow i (span_join (tsp t) close)
                         | _ => TyBorrowTy inner (span_join (tsp t) close)
                         end) r3
               else parse_ident e r1 >>= fun i r2 =>
                    parse_token e TCloseAngle r2 >>= fun close r3 =>
                    POk (TyBorrow i (span_join (tsp t) close)) r3)
          | TIdent => POk (TyIdent (mk_ident t)) r
          | _ => la_fail e type_first ts
          end
      end
  | _ => la_fail e type_first ts
  end.

Fixpoint parse_type_f (f : nat) (e : env) : parser ty :=
  match f with
  | O => fun _ => PFuel
  | S f' => type_step (parse_type_f f' e) e
  end.

Definition parse_type (e : env) : parser ty := parse_type_f (fuel e) e.

Definition parse_named_type (e : env) : parser named_type := fun ts =>
  parse_ident e ts >>= fun i r =>
  parse_token e TColon r >>= fun _ r1 =>
  parse_type e r1 >>= fun t r2 =>
  POk {| nt_id := i; nt_ty := t |} r2.

Definition parse_params (e : env) (until : token) : parser (list named_type) :=
  delimited_items e until true [TIdent] (parse_named_type e).

(** [ResultList::parse] (after the arrow). *)
Definition parse_result_list (e : env) : parser result_list := fun ts =>
  if peek_in type_first ts then parse_type e ts >>= fun t r => POk (RLScalar t) r
  else if named_results (dv e) && peek_in [TOpenParen] ts then
    any_tok ts >>= fun _ r =>
    parse_params e TCloseParen r >>= fun ps r1 =>
    match ps with
    | [] => PErr (PE_DocRestriction 2)
    | _ :: _ => parse_token e TCloseParen r1 >>= fun _ r2 => POk (RLNamed ps) r2
    end
  else if arrow_empty_results (dv e) then POk RLEmpty ts
  else PErr (PE_DocRestriction 3).

Definition parse_func_type (e : env) : parser func_type := fun ts =>
  parse_token e TFuncKeyword ts >>= fun _ r =>
  parse_token e TOpenParen r >>= fun _ r1 =>
  parse_params e TCloseParen r1 >>= fun ps r2 =>
  parse_token e TCloseParen r2 >>= fun _ r3 =>
  parse_optional TArrow (parse_result_list e) r3 >>= fun res r4 =>
  POk {| ft_params := ps; ft_results := match res with Some x => x | None => RLEmpty end |} r4.

(* ------------------------------------------------------------------ type declarations *)

Definition parse_variant_case (e : env) : parser variant_case := fun ts =>
  let docs := docs_of ts in
  parse_ident e ts >>= fun i r =>
  parse_optional TOpenParen (fun r1 =>
    parse_type e r1 >>= fun t r2 =>
    parse_token e TCloseParen r2 >>= fun _ r3 => POk t r3) r >>= fun t r4 =>
  POk {| vc_docs := docs; vc_id := i; vc_ty := t |} r4.

Definition parse_field (e : env) : parser field := fun ts =>
  let docs := docs_of ts in
  parse_named_type e ts >>= fun nt r =>
  POk {| fd_docs := docs; fd_id := nt_id nt; fd_ty := nt_ty nt |} r.

Definition parse_flag (e : env) : parser flag := fun ts =>
  let docs := docs_of ts in
  parse_ident e ts >>= fun i r => POk {| fl_docs := docs; fl_id := i |} r.

Definition parse_enum_case (e : env) : parser enum_case := fun ts =>
  let docs := docs_of ts in
  parse_ident e ts >>= fun i r => POk {| ec_docs := docs; ec_id := i |} r.

(** The common shape of variant/record/flags/enum: keyword, id, non-empty braced list. *)
Definition braced_nonempty {A} (e : env) (kw : token) (which : N) (item : parser A)
    (mk : list doc -> ident -> list A -> item_type_decl) : parser item_type_decl := fun ts =>
  let docs := docs_of ts in
  parse_token e kw ts >>= fun _ r =>
  parse_ident e r >>= fun i r1 =>
  parse_token e TOpenBrace r1 >>= fun _ r2 =>
  delimited_items e TCloseBrace true [TIdent] item r2 >>= fun items r3 =>
  parse_token e TCloseBrace r3 >>= fun close r4 =>
  match items with
  | [] => PErr (PE_EmptyType which close)
  | _ :: _ => POk (mk docs i items) r4
  end.

Definition parse_variant_decl (e : env) := braced_nonempty e TVariantKeyword 0 (parse_variant_case e) DVariant.
Definition parse_record_decl (e : env) := braced_nonempty e TRecordKeyword 1 (parse_field e) DRecord.
Definition parse_flags_decl (e : env) := braced_nonempty e TFlagsKeyword 2 (parse_flag e) DFlags.
Definition parse_enum_decl (e : env) := braced_nonempty e TEnumKeyword 3 (parse_enum_case e) DEnum.

Definition parse_type_alias (e : env) : parser item_type_decl := fun ts =>
  let docs := docs_of ts in
  parse_token e TTypeKeyword ts >>= fun _ r =>
  parse_ident e r >>= fun i r1 =>
  parse_token e TEquals r1 >>= fun _ r2 =>
  alt e [ ([TFuncKeyword], fun ts => parse_func_type e ts >>= fun f r => POk (TAFunc f) r);
          (type_first, fun ts => parse_type e ts >>= fun t r => POk (TAType t) r) ] r2 >>= fun k r3 =>
  parse_token e TSemicolon r3 >>= fun _ r4 =>
  POk (DAlias docs i k) r4.

Definition parse_constructor (e : env) : parser resource_method := fun ts =>
  let docs := docs_of ts in
  parse_token e TConstructorKeyword ts >>= fun sp r =>
  parse_token e TOpenParen r >>= fun _ r1 =>
  parse_params e TCloseParen r1 >>= fun ps r2 =>
  parse_token e TCloseParen r2 >>= fun _ r3 =>
  parse_token e TSemicolon r3 >>= fun _ r4 =>
  POk (RMConstructor docs sp ps) r4.

Definition parse_method (e : env) : parser resource_method := fun ts =>
  let docs := docs_of ts in
  parse_ident e ts >>= fun i r =>
  parse_token e TColon r >>= fun _ r1 =>
  let is_static := peek_in [TStaticKeyword] r1 in
  (if is_static then any_tok r1 >>= fun _ r2 => POk tt r2 else POk tt r1) >>= fun _ r2 =>
  parse_func_type e r2 >>= fun f r3 =>
  parse_token e TSemicolon r3 >>= fun _ r4 =>
  POk (RMMethod docs i is_static f) r4.

Definition parse_resource_method (e : env) : parser resource_method :=
  alt e [ ([TConstructorKeyword], parse_constructor e); ([TIdent], parse_method e) ].

Definition parse_resource_decl (e : env) : parser item_type_decl := fun ts =>
  let docs := docs_of ts in
  parse_token e TResourceKeyword ts >>= fun _ r =>
  parse_ident e r >>= fun i r1 =>
  alt e [ ([TSemicolon], fun ts => any_tok ts >>= fun _ r => POk [] r);
          ([TOpenBrace], fun ts =>
             parse_token e TOpenBrace ts >>= fun _ r =>
             delimited_items e TCloseBrace false [TConstructorKeyword; TIdent]
               (parse_resource_method e) r >>= fun ms r1 =>
             parse_token e TCloseBrace r1 >>= fun _ r2 => POk ms r2) ] r1 >>= fun ms r2 =>
  POk (DResource docs i ms) r2.

(** The attempts of [TypeDecl::peek] and of [ItemTypeDecl::peek]. *)
Definition type_decl_first : list token :=
  [TVariantKeyword; TRecordKeyword; TFlagsKeyword; TEnumKeyword; TTypeKeyword].
Definition item_type_decl_first : list token := TResourceKeyword :: type_decl_first.

Definition type_decl_branches (e : env) : list (list token * parser item_type_decl) :=
  [ ([TVariantKeyword], parse_variant_decl e); ([TRecordKeyword], parse_record_decl e);
    ([TFlagsKeyword], parse_flags_decl e); ([TEnumKeyword], parse_enum_decl e);
    ([TTypeKeyword], parse_type_alias e) ].

Definition parse_type_decl (e : env) : parser item_type_decl := alt e (type_decl_branches e).
Definition parse_item_type_decl (e : env) : parser item_type_decl :=
  alt e (([TResourceKeyword], parse_resource_decl e) :: type_decl_branches e).

(* ------------------------------------------------------------------ interfaces and worlds *)

Definition parse_use_path (e : env) : parser use_path :=
  alt e [ ([TPackagePath], fun ts => parse_package_path e ts >>= fun p r => POk (UPPackage p) r);
          ([TIdent], fun ts => parse_ident e ts >>= fun i r => POk (UPIdent i) r) ].

Definition parse_use_item (e : env) : parser use_item := fun ts =>
  parse_ident e ts >>= fun i r =>
  parse_optional TAsKeyword (parse_ident e) r >>= fun a r1 =>
  POk {| ui_id := i; ui_as := a |} r1.

Definition parse_use (e : env) : parser use_decl := fun ts =>
  let docs := docs_of ts in
  parse_token e TUseKeyword ts >>= fun _ r =>
  parse_use_path e r >>= fun p r1 =>
  parse_token e TDot r1 >>= fun _ r2 =>
  parse_token e TOpenBrace r2 >>= fun _ r3 =>
  delimited_items e TCloseBrace true [TIdent] (parse_use_item e) r3 >>= fun items r4 =>
  match items with
  | [] => if empty_use_items (dv e) then POk tt r4 else PErr (PE_DocRestriction 4)
  | _ :: _ => POk tt r4
  end >>= fun _ r4 =>
  parse_token e TCloseBrace r4 >>= fun _ r5 =>
  parse_token e TSemicolon r5 >>= fun _ r6 =>
  POk {| u_docs := docs; u_path := p; u_items := items |} r6.

Definition parse_func_type_ref (e : env) : parser func_type_ref :=
  alt e [ ([TFuncKeyword], fun ts => parse_func_type e ts >>= fun f r => POk (FRFunc f) r);
          ([TIdent], fun ts => parse_ident e ts >>= fun i r => POk (FRIdent i) r) ].

Definition parse_interface_export (e : env) : parser interface_item := fun ts =>
  let docs := docs_of ts in
  parse_ident e ts >>= fun i r =>
  parse_token e TColon r >>= fun _ r1 =>
  parse_func_type_ref e r1 >>= fun t r2 =>
  parse_token e TSemicolon r2 >>= fun _ r3 =>
  POk (IIExport docs i t) r3.

Definition interface_item_first : list token := TUseKeyword :: TIdent :: item_type_decl_first.

Definition parse_interface_item (e : env) : parser interface_item :=
  alt e [ ([TUseKeyword], fun ts => parse_use e ts >>= fun u r => POk (IIUse u) r);
          ([TIdent], parse_interface_export e);
          (item_type_decl_first, fun ts => parse_item_type_decl e ts >>= fun d r => POk (IIType d) r) ].

(** [{ interface-item* }] *)
Definition parse_interface_body (e : env) : parser (list interface_item) := fun ts =>
  parse_token e TOpenBrace ts >>= fun _ r =>
  delimited_items e TCloseBrace false interface_item_first (parse_interface_item e) r >>= fun items r1 =>
  parse_token e TCloseBrace r1 >>= fun _ r2 => POk items r2.

Definition parse_inline_interface (e : env) : parser (list interface_item) := fun ts =>
  parse_token e TInterfaceKeyword ts >>= fun _ r => parse_interface_body e r.

Definition parse_interface_decl (e : env) : parser type_statement := fun ts =>
  let docs := docs_of ts in
  parse_token e TInterfaceKeyword ts >>= fun _ r =>
  parse_ident e r >>= fun i r1 =>
  parse_interface_body e r1 >>= fun items r2 =>
  POk (TSInterface docs i items) r2.

Definition parse_extern_type (e : env) : parser extern_type :=
  alt e [ ([TIdent], fun ts => parse_ident e ts >>= fun i r => POk (ETIdent i) r);
          ([TFuncKeyword], fun ts => parse_func_type e ts >>= fun f r => POk (ETFunc f) r);
          ([TInterfaceKeyword], fun ts => parse_inline_interface e ts >>= fun b r => POk (ETInterface b) r) ].

Definition is_colon (k : option token) : bool :=
  match k with Some k => token_eqb k TColon | None => false end.

Definition parse_world_item_path (e : env) : parser world_item_path :=
  alt e [ ([TPackagePath], fun ts => parse_package_path e ts >>= fun p r => POk (WPPackage p) r);
          ([TIdent], fun ts =>
             if is_colon (peek2_kind ts) then
               parse_ident e ts >>= fun i r =>
               parse_token e TColon r >>= fun _ r1 =>
               parse_extern_type e r1 >>= fun t r2 => POk (WPNamed i t) r2
             else parse_ident e ts >>= fun i r => POk (WPIdent i) r) ].

Definition parse_world_port (e : env) (kw : token)
    (mk : list doc -> world_item_path -> world_item) : parser world_item := fun ts =>
  let docs := docs_of ts in
  parse_token e kw ts >>= fun _ r =>
  parse_world_item_path e r >>= fun p r1 =>
  parse_token e TSemicolon r1 >>= fun _ r2 =>
  POk (mk docs p) r2.

Definition parse_world_ref (e : env) : parser world_ref :=
  alt e [ ([TPackagePath], fun ts => parse_package_path e ts >>= fun p r => POk (WRPackage p) r);
          ([TIdent], fun ts => parse_ident e ts >>= fun i r => POk (WRIdent i) r) ].

Definition parse_include_item (e : env) : parser include_item := fun ts =>
  parse_ident e ts >>= fun a r =>
  parse_token e TAsKeyword r >>= fun _ r1 =>
  parse_ident e r1 >>= fun b r2 =>
  POk {| ii_from := a; ii_to := b |} r2.

Definition parse_world_include (e : env) : parser world_item := fun ts =>
  let docs := docs_of ts in
  parse_token e TIncludeKeyword ts >>= fun _ r =>
  parse_world_ref e r >>= fun w r1 =>
  parse_optional TWithKeyword (fun r2 =>
    parse_token e TOpenBrace r2 >>= fun _ r3 =>
    delimited_items e TCloseBrace true [TIdent] (parse_include_item e) r3 >>= fun items r4 =>
    match items with
    | [] => if empty_include_with (dv e) then POk tt r4 else PErr (PE_DocRestriction 5)
    | _ :: _ => POk tt r4
    end >>= fun _ r4 =>
    parse_token e TCloseBrace r4 >>= fun _ r5 => POk items r5) r1 >>= fun w_ r6 =>
  parse_token e TSemicolon r6 >>= fun _ r7 =>
  POk (WIInclude docs w (match w_ with Some x => x | None => [] end)) r7.

Definition world_item_first : list token :=
  TUseKeyword :: TImportKeyword :: TExportKeyword :: TIncludeKeyword :: item_type_decl_first.

Definition parse_world_item (e : env) : parser world_item :=
  alt e [ ([TUseKeyword], fun ts => parse_use e ts >>= fun u r => POk (WIUse u) r);
          ([TImportKeyword], parse_world_port e TImportKeyword WIImport);
          ([TExportKeyword], parse_world_port e TExportKeyword WIExport);
          ([TIncludeKeyword], parse_world_include e);
          (item_type_decl_first, fun ts => parse_item_type_decl e ts >>= fun d r => POk (WIType d) r) ].

Definition parse_world_decl (e : env) : parser type_statement := fun ts =>
  let docs := docs_of ts in
  parse_token e TWorldKeyword ts >>= fun _ r =>
  parse_ident e r >>= fun i r1 =>
  parse_token e TOpenBrace r1 >>= fun _ r2 =>
  delimited_items e TCloseBrace false world_item_first (parse_world_item e) r2 >>= fun items r3 =>
  parse_token e TCloseBrace r3 >>= fun _ r4 =>
  POk (TSWorld docs i items) r4.

Definition type_statement_first : list token := TInterfaceKeyword :: TWorldKeyword :: type_decl_first.

Definition parse_type_statement (e : env) : parser type_statement :=
  alt e [ ([TInterfaceKeyword], parse_interface_decl e);
          ([TWorldKeyword], parse_world_decl e);
          (type_decl_first, fun ts => parse_type_decl e ts >>= fun d r => POk (TSType d) r) ].

(* ------------------------------------------------------------------ expressions *)

Definition parse_arg_name (e : env) : parser arg_name :=
  alt e [ ([TIdent], fun ts => parse_ident e ts >>= fun i r => POk (ANIdent i) r);
          ([TString], fun ts => parse_string e ts >>= fun s r => POk (ANString s) r) ].

Definition inst_arg_first : list token := [TEllipsis; TIdent; TString].

Definition parse_inst_arg (self : parser expr) (e : env) : parser inst_arg := fun ts =>
  match peek_kind ts with
  | Some k =>
      if token_eqb k TEllipsis then
        any_tok ts >>= fun t r =>
        if peek_in [TComma; TCloseBrace] r then POk (AFill (tsp t)) r
        else parse_ident e r >>= fun i r1 => POk (ASpread i) r1
      else if mem_tok k [TIdent; TString] then
        if is_colon (peek2_kind ts) then
          parse_arg_name e ts >>= fun n r =>
          parse_token e TColon r >>= fun _ r1 =>
          self r1 >>= fun x r2 => POk (ANamed n x) r2
        else parse_ident e ts >>= fun i r => POk (AInferred i) r
      else la_fail e inst_arg_first ts
  | None => la_fail e inst_arg_first ts
  end.

Definition is_fill (a : inst_arg) : bool := match a with AFill _ => true | _ => false end.

(** LANGUAGE.md: [instantiation-args ::= arg (',' arg)* (',' '...'?)?] -- non-empty, [...] only as
    the last element after at least one argument, and nothing after it. *)
Definition args_ok (d : deviations) (args : list inst_arg) (trailing : bool) : bool :=
  match args with
  | [] => empty_new_args d
  | [AFill _] => if trailing then fill_anywhere d else fill_alone d
  | _ :: _ =>
      fill_anywhere d ||
      (negb (existsb is_fill (removelast args)) &&
       (negb (is_fill (last args (AInferred {| id_string := []; id_span := {| off := 0; slen := 0 |} |})))
        || negb trailing))
  end.

Fixpoint postfix_loop (n : nat) (e : env) (ts : list lexitem) : pres (list postfix_expr) :=
  match n with
  | O => PFuel
  | S n' =>
      match peek_kind ts with
      | Some k =>
          if token_eqb k TDot then
            parse_token e TDot ts >>= fun start r =>
            parse_ident e r >>= fun i r1 =>
            postfix_loop n' e r1 >>= fun rest r2 =>
            POk (PAccess (span_join start (id_span i)) i :: rest) r2
          else if token_eqb k TOpenBracket then
            parse_token e TOpenBracket ts >>= fun opening r =>
            parse_string e r >>= fun s r1 =>
            parse_token e TCloseBracket r1 >>= fun closing r2 =>
            postfix_loop n' e r2 >>= fun rest r3 =>
            POk (PNamedAccess (span_join opening closing) s :: rest) r3
          else POk [] ts
      | None => POk [] ts
      end
  end.

Definition mk_expr (p : primary_expr) (post : list postfix_expr) : expr :=
  let start := primary_span p in
  Expr (match post with
        | [] => start
        | _ :: _ => span_join start (postfix_span (last post (PAccess start {| id_string := []; id_span := start |})))
        end) p post.

Definition primary_step (self : parser expr) (e : env) : parser primary_expr :=
  alt e [ ([TNewKeyword], fun ts =>
             parse_token e TNewKeyword ts >>= fun start r =>
             parse_package_name e r >>= fun pkg r1 =>
             parse_token e TOpenBrace r1 >>= fun _ r2 =>
             delimited e TCloseBrace true inst_arg_first (parse_inst_arg self e) r2 >>= fun '(args, tr) r3 =>
             if args_ok (dv e) args tr then
               parse_token e TCloseBrace r3 >>= fun close r4 =>
               POk (PNew (span_join start close) pkg args) r4
             else PErr (PE_DocRestriction 6));
          ([TOpenParen], fun ts =>
             parse_token e TOpenParen ts >>= fun start r =>
             self r >>= fun inner r1 =>
             parse_token e TCloseParen r1 >>= fun close r2 =>
             POk (PNested (span_join start close) inner) r2);
          ([TIdent], fun ts => parse_ident e ts >>= fun i r => POk (PIdent i) r) ].

Definition expr_step (self : parser expr) (e : env) : parser expr := fun ts =>
  primary_step self e ts >>= fun p r =>
  postfix_loop (fuel e) e r >>= fun post r1 =>
  POk (mk_expr p post) r1.

Fixpoint parse_expr_f (f : nat) (e : env) : parser expr :=
  match f with
  | O => fun _ => PFuel
  | S f' => expr_step (parse_expr_f f' e) e
  end.

Definition parse_expr (e : env) : parser expr := parse_expr_f (fuel e) e.

(* ------------------------------------------------------------------ statements, document *)

Definition parse_import_type (e : env) : parser import_type :=
  alt e [ ([TFuncKeyword], fun ts => parse_func_type e ts >>= fun f r => POk (ITFunc f) r);
          ([TInterfaceKeyword], fun ts => parse_inline_interface e ts >>= fun b r => POk (ITInterface b) r);
          ([TPackagePath], fun ts => parse_package_path e ts >>= fun p r => POk (ITPackage p) r);
          ([TIdent], fun ts => parse_ident e ts >>= fun i r => POk (ITIdent i) r) ].

Definition parse_import_statement (e : env) : parser statement := fun ts =>
  let docs := docs_of ts in
  parse_token e TImportKeyword ts >>= fun _ r =>
  parse_ident e r >>= fun i r1 =>
  parse_optional TAsKeyword (parse_extern_name e) r1 >>= fun name r2 =>
  parse_token e TColon r2 >>= fun _ r3 =>
  parse_import_type e r3 >>= fun t r4 =>
  parse_token e TSemicolon r4 >>= fun _ r5 =>
  POk (SImport docs i name t) r5.

Definition parse_let_statement (e : env) : parser statement := fun ts =>
  let docs := docs_of ts in
  parse_token e TLetKeyword ts >>= fun _ r =>
  parse_ident e r >>= fun i r1 =>
  parse_token e TEquals r1 >>= fun _ r2 =>
  parse_expr e r2 >>= fun x r3 =>
  parse_token e TSemicolon r3 >>= fun _ r4 =>
  POk (SLet docs i x) r4.

Definition parse_export_options (e : env) : parser export_options := fun ts =>
  if peek_in [TEllipsis] ts then parse_token e TEllipsis ts >>= fun sp r => POk (EOSpread sp) r
  else if peek_in [TAsKeyword] ts then
    parse_token e TAsKeyword ts >>= fun _ r =>
    parse_extern_name e r >>= fun n r1 => POk (EORename n) r1
  else POk EONone ts.

Definition parse_export_statement (e : env) : parser statement := fun ts =>
  let docs := docs_of ts in
  parse_token e TExportKeyword ts >>= fun _ r =>
  parse_expr e r >>= fun x r1 =>
  parse_export_options e r1 >>= fun o r2 =>
  parse_token e TSemicolon r2 >>= fun _ r3 =>
  POk (SExport docs x o) r3.

Definition parse_statement (e : env) : parser statement :=
  alt e [ ([TImportKeyword], parse_import_statement e);
          ([TLetKeyword], parse_let_statement e);
          ([TExportKeyword], parse_export_statement e);
          (type_statement_first, fun ts => parse_type_statement e ts >>= fun t r => POk (SType t) r) ].

Definition parse_directive (e : env) : parser package_directive := fun ts =>
  parse_token e TPackageKeyword ts >>= fun _ r =>
  parse_package_name e r >>= fun p r1 =>
  parse_optional TTargetsKeyword (parse_package_path e) r1 >>= fun t r2 =>
  parse_token e TSemicolon r2 >>= fun _ r3 =>
  POk {| pd_package := p; pd_targets := t |} r3.

(** [while lexer.peek().is_some() { statements.push(parse) }] *)
Fixpoint statements_loop (n : nat) (e : env) (ts : list lexitem) : pres (list statement) :=
  match n with
  | O => PFuel
  | S n' =>
      match ts with
      | [] => POk [] []
      | _ :: _ =>
          parse_statement e ts >>= fun s r =>
          statements_loop n' e r >>= fun rest r1 => POk (s :: rest) r1
      end
  end.

Definition parse_document_items (e : env) : parser document := fun ts =>
  let docs := docs_of ts in
  parse_directive e ts >>= fun d r =>
  statements_loop (fuel e) e r >>= fun ss r1 =>
  match r1 with
  | [] => POk {| doc_docs := docs; doc_directive := d; doc_statements := ss |} []
  | _ :: _ => PPanic 9        (* assert!(lexer.next().is_none()) *)
  end.

(** Lexer configuration realised by a set of flags over given tables. *)
Definition cfg_with (d : deviations) (base : lexcfg) : lexcfg :=
  {| keywords := keywords base; symbols := symbols base; allow_upper := uppercase_words d;
     arms := arms base; q_dash := dangling_dash d; q_kwcolon := keyword_colon d;
     q_pkgzone := pkg_separator_zone d |}.

(** [Document::parse]. *)
Definition parse_document (d : deviations) (base : lexcfg) (src : str) : pres document :=
  let items := lex (cfg_with d base) src in
  let e := {| dv := d; cx := mk_ctx src items; fuel := S (length items) |} in
  parse_document_items e items.
