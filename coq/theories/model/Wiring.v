(** Item log of the OUTERMOST component of an encoded composition and its interpretation into
    provenance terms ("wiring"). The log is what an independent section-level reader extracts from
    the real bytes (harness/src/bin/c02.rs) and what the model encoder (EncodeModel.v) emits.
    Nothing here depends on the composition graph. *)
From Coq Require Import List Arith Bool NArith.
From WacV Require Import Str.
Import ListNotations.
Local Open Scope nat_scope.

(** index spaces of a component *)
Inductive sort := SType | SFunc | SInstance | SComponent | SModule | SValue | SCoreType | SCore (k : N).

Definition sort_eqb (a b : sort) : bool :=
  match a, b with
  | SType, SType | SFunc, SFunc | SInstance, SInstance | SComponent, SComponent
  | SModule, SModule | SValue, SValue | SCoreType, SCoreType => true
  | SCore x, SCore y => N.eqb x y
  | _, _ => false
  end.

Definition arg := (str * sort * nat)%type.

Inductive item :=
  | IImport (nm : str) (s : sort)                   (* +1 in sort s *)
  | IDepImport (nm : str)                           (* instance import made by the type encoder for a `use`d interface: +1 instance *)
  | ITypeDef                                        (* +1 type; content opaque at this layer *)
  | ICoreTypeDef                                    (* +1 core type *)
  | IComponent (digest : N)                         (* nested component section, +1 component; digest identifies the bytes *)
  | IInstantiate (comp : nat) (args : list arg)     (* +1 instance *)
  | IInstanceFromExports (ex : list arg)            (* +1 instance *)
  | IAliasExport (inst : nat) (s : sort) (nm : str) (* +1 in sort s *)
  | IOpaque (s : sort)                              (* any other allocation in sort s (outer alias, core items, canon) *)
  | IExport (nm : str) (s : sort) (idx : nat).      (* component-level export: also +1 in sort s *)

Definition log := list item.

(** the sort an item allocates in *)
Definition alloc (it : item) : sort :=
  match it with
  | IImport _ s => s
  | IDepImport _ => SInstance
  | ITypeDef => SType
  | ICoreTypeDef => SCoreType
  | IComponent _ => SComponent
  | IInstantiate _ _ | IInstanceFromExports _ => SInstance
  | IAliasExport _ s _ => s
  | IOpaque s => s
  | IExport _ s _ => s
  end.

Definition cnt (s : sort) (l : log) : nat := length (filter (fun it => sort_eqb (alloc it) s) l).

(** where the item behind an index came from *)
Inductive prov :=
  | PImp (nm : str)            (* the import of that name *)
  | PInst (k : nat)            (* the k-th instance-creating item of the log *)
  | PAli (p : prov) (nm : str) (* export [nm] of the instance [p] *)
  | PExp (nm : str)            (* the index created by the component-level export [nm] *)
  | PComp (digest : N)         (* an embedded component *)
  | POpaque                    (* a type-level or otherwise uninterpreted allocation *)
  | PDef.                      (* marker: body of a type definition (see [erase_defs]) *)

Definition parg := (str * sort * prov)%type.
Inductive winst := WInst (comp : prov) (args : list parg) | WBag (ex : list parg).

Record wiring := {
  w_insts : list winst;                 (* instance-creating items in log order; [PInst k] refers to the k-th *)
  w_exports : list parg;                (* component-level exports in log order *)
  w_comps : list N;                     (* embedded components in log order *)
  w_names : list (sort * str * prov) }. (* name-section entries, resolved *)

Record dstate := {
  d_sp : sort -> list prov;
  d_insts : list winst;
  d_exports : list parg;
  d_comps : list N;
  d_imports : list (str * sort * bool) }.   (* name, sort, made-by-type-encoder *)

Definition d_init : dstate :=
  {| d_sp := fun _ => []; d_insts := []; d_exports := []; d_comps := []; d_imports := [] |}.

Definition push (sp : sort -> list prov) (s : sort) (p : prov) : sort -> list prov :=
  fun s' => if sort_eqb s s' then sp s' ++ [p] else sp s'.

Definition look (sp : sort -> list prov) (s : sort) (i : nat) : option prov := nth_error (sp s) i.

Fixpoint look_args (sp : sort -> list prov) (args : list arg) : option (list parg) :=
  match args with
  | [] => Some []
  | (nm, s, i) :: r =>
      match look sp s i, look_args sp r with
      | Some p, Some r' => Some ((nm, s, p) :: r')
      | _, _ => None
      end
  end.

Definition with_sp (d : dstate) (sp : sort -> list prov) : dstate :=
  {| d_sp := sp; d_insts := d_insts d; d_exports := d_exports d; d_comps := d_comps d; d_imports := d_imports d |}.

(** one item; [None] = an index that is dangling or in the wrong index space *)
Definition dstep (d : dstate) (it : item) : option dstate :=
  match it with
  | IImport nm s =>
      Some {| d_sp := push (d_sp d) s (PImp nm); d_insts := d_insts d; d_exports := d_exports d; d_comps := d_comps d;
              d_imports := d_imports d ++ [(nm, s, false)] |}
  | IDepImport nm =>
      Some {| d_sp := push (d_sp d) SInstance (PImp nm); d_insts := d_insts d; d_exports := d_exports d; d_comps := d_comps d;
              d_imports := d_imports d ++ [(nm, SInstance, true)] |}
  | ITypeDef => Some (with_sp d (push (d_sp d) SType POpaque))
  | ICoreTypeDef => Some (with_sp d (push (d_sp d) SCoreType POpaque))
  | IComponent dg =>
      Some {| d_sp := push (d_sp d) SComponent (PComp dg); d_insts := d_insts d; d_exports := d_exports d;
              d_comps := d_comps d ++ [dg]; d_imports := d_imports d |}
  | IInstantiate c args =>
      match look (d_sp d) SComponent c, look_args (d_sp d) args with
      | Some pc, Some pa =>
          Some {| d_sp := push (d_sp d) SInstance (PInst (length (d_insts d))); d_insts := d_insts d ++ [WInst pc pa];
                  d_exports := d_exports d; d_comps := d_comps d; d_imports := d_imports d |}
      | _, _ => None
      end
  | IInstanceFromExports ex =>
      match look_args (d_sp d) ex with
      | Some pa =>
          Some {| d_sp := push (d_sp d) SInstance (PInst (length (d_insts d))); d_insts := d_insts d ++ [WBag pa];
                  d_exports := d_exports d; d_comps := d_comps d; d_imports := d_imports d |}
      | None => None
      end
  | IAliasExport i s nm =>
      match look (d_sp d) SInstance i with
      | Some p => Some (with_sp d (push (d_sp d) s (PAli p nm)))
      | None => None
      end
  | IOpaque s => Some (with_sp d (push (d_sp d) s POpaque))
  | IExport nm s i =>
      match look (d_sp d) s i with
      | Some p =>
          Some {| d_sp := push (d_sp d) s (PExp nm); d_insts := d_insts d; d_exports := d_exports d ++ [(nm, s, p)];
                  d_comps := d_comps d; d_imports := d_imports d |}
      | None => None
      end
  end.

Fixpoint decode_from (d : dstate) (l : log) : option dstate :=
  match l with
  | [] => Some d
  | it :: r => match dstep d it with Some d' => decode_from d' r | None => None end
  end.

(** name-section entries [(sort, index, name)] resolved against the final index spaces *)
Fixpoint look_names (sp : sort -> list prov) (ns : list (sort * nat * str)) : option (list (sort * str * prov)) :=
  match ns with
  | [] => Some []
  | (s, i, nm) :: r =>
      match look sp s i, look_names sp r with
      | Some p, Some r' => Some ((s, nm, p) :: r')
      | _, _ => None
      end
  end.

Definition decode_wiring (names : list (sort * nat * str)) (l : log) : option wiring :=
  match decode_from d_init l with
  | None => None
  | Some d =>
      match look_names (d_sp d) names with
      | None => None
      | Some ns => Some {| w_insts := d_insts d; w_exports := d_exports d; w_comps := d_comps d; w_names := ns |}
      end
  end.

Definition decode_imports (l : log) : option (list (str * sort * bool)) :=
  match decode_from d_init l with Some d => Some (d_imports d) | None => None end.

(** The body of a type definition is produced by the type encoder and is not interpreted at this
    layer: the export entries of definitions are compared by name and sort only. *)
Definition str_mem (x : str) (l : list str) : bool := existsb (str_eqb x) l.

Definition erase_defs (defnames : list str) (w : wiring) : wiring :=
  {| w_insts := w_insts w;
     w_exports := map (fun e : parg => let '(nm, s, p) := e in
                         if sort_eqb s SType && str_mem nm defnames then (nm, s, PDef) else e) (w_exports w);
     w_comps := w_comps w; w_names := w_names w |}.

(** The section reader cannot tell which instance imports were made by the type encoder for
    [use]d interfaces. They are classified here: an instance import whose name is not among the
    import names the composition itself calls for. *)
Definition mark_deps (structural : list str) (l : log) : log :=
  map (fun it => match it with
                 | IImport nm SInstance => if str_mem nm structural then it else IDepImport nm
                 | _ => it
                 end) l.

(** every index used by an instantiate / alias / export item refers to an earlier allocation of
    the right sort (executable form; [decode_scoped] in proofs/WiringDecode.v) *)
Fixpoint args_in_scope (l : log) (args : list arg) : bool :=
  match args with
  | [] => true
  | (_, s, i) :: r => (i <? cnt s l) && args_in_scope l r
  end.

Definition item_in_scope (before : log) (it : item) : bool :=
  match it with
  | IInstantiate c args => (c <? cnt SComponent before) && args_in_scope before args
  | IInstanceFromExports ex => args_in_scope before ex
  | IAliasExport i _ _ => i <? cnt SInstance before
  | IExport _ s i => i <? cnt s before
  | _ => true
  end.

Fixpoint log_in_scope (before l : log) : bool :=
  match l with
  | [] => true
  | it :: r => item_in_scope before it && log_in_scope (before ++ [it]) r
  end.
