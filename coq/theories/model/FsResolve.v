(** Model of [crates/wac-resolver/src/fs.rs]: [FileSystemPackageResolver::resolve] for one key,
    with the [wit] feature on and the [wat] feature as a flag.  Control flow follows the Rust source
    statement by statement; the file system, WAT assembly and WIT encoding are parameters.

    What is abstracted:
    - a path is its list of components below some origin ([PathBuf::push] of a plain, non-empty,
      relative component appends one component);
    - a file-system state maps a path to [Absent | File c | Dir c] where [c] names the content
      ([Path::is_file], [is_dir], [exists], [fs::read] look at nothing else; symlinks, permissions and
      races are outside the model);
    - [wat::parse_bytes], [Resolve::push_dir]+[wit_component::encode] and [Resolve::push_file]+[encode]
      are oracles from content to [option] content ([None] = the library returned an error). *)
From WacV Require Import Str.

Definition ch_dot : N := 46.
Definition ch_colon : N := 58.
Definition s_wasm : str := [119; 97; 115; 109].
Definition s_wat : str := [119; 97; 116].
Definition s_wit : str := [119; 105; 116].

Definition content := N.
Inductive node := Absent | File (c : content) | Dir (c : content).
Definition path := list str.
Definition filesystem := path -> node.

Definition is_file (fs : filesystem) (p : path) : bool := match fs p with File _ => true | _ => false end.
Definition is_dir (fs : filesystem) (p : path) : bool := match fs p with Dir _ => true | _ => false end.
Definition exists_ (fs : filesystem) (p : path) : bool := match fs p with Absent => false | _ => true end.

(** * [std::path] pieces used by the resolver *)

(** [PathBuf::push] of a plain component. *)
Definition push (p : path) (seg : str) : path := p ++ [seg].

(** Apply [f] to the final component (the only part [append_extension]/[set_extension] touch). *)
Fixpoint map_last (f : str -> str) (p : path) : path :=
  match p with
  | [] => [f []]
  | [c] => [f c]
  | c :: r => c :: map_last f r
  end.

Fixpoint last_comp (p : path) : str :=
  match p with
  | [] => []
  | [c] => c
  | _ :: r => last_comp r
  end.

(** fs.rs [append_extension]: pushes "." and the extension onto the OS string, i.e. onto the final
    component; nothing is removed. *)
Definition append_extension (p : path) (ext : str) : path :=
  map_last (fun c => c ++ [ch_dot] ++ ext) p.

(** std [rsplit_file_at_dot]: split a file name at its LAST dot. *)
Fixpoint split_last (c : N) (s : str) : option (str * str) :=
  match s with
  | [] => None
  | x :: r =>
      match split_last c r with
      | Some (b, a) => Some (x :: b, a)
      | None => if x =? c then Some ([], r) else None
      end
  end.

(** std [Path::file_stem]: the part before the last dot; the whole name when there is no dot or
    the only dot is the leading one. *)
Definition file_stem (name : str) : str :=
  match split_last ch_dot name with
  | Some ([], _) => name
  | Some (b, _) => b
  | None => name
  end.

(** std [Path::extension]. *)
Definition extension_of (name : str) : option str :=
  match split_last ch_dot name with
  | Some ([], _) => None
  | Some (_, a) => Some a
  | None => None
  end.

(** std [PathBuf::set_extension] with a non-empty extension: truncate after the stem, then push
    "." and the extension.  It REPLACES an existing extension. *)
Definition set_extension (p : path) (ext : str) : path :=
  map_last (fun c => file_stem c ++ [ch_dot] ++ ext) p.

Definition has_ext (p : path) (ext : str) : bool :=
  match extension_of (last_comp p) with
  | Some e => str_eqb e ext
  | None => false
  end.

(** * Resolver state and keys *)

(** [BorrowedPackageKey]: the name as written ("ns:pkg"), the version as printed by
    [Version::to_string]. *)
Record key := { k_name : str; k_version : option str }.

Record config := {
  root : path;
  overrides : list (str * path);      (* HashMap<String, PathBuf>: unique keys *)
  error_on_unknown : bool }.

Fixpoint lookup (m : list (str * path)) (name : str) : option path :=
  match m with
  | [] => None
  | (n, p) :: r => if str_eqb n name then Some p else lookup r name
  end.

Inductive source := SrcRaw | SrcWat | SrcWitDir | SrcWitFile.

Inductive failure :=
  | OverrideMissing        (* "local path ... does not exist" *)
  | WitDirFailed           (* push_dir / encode returned an error *)
  | WitFileFailed          (* push_file / encode returned an error *)
  | WatFailed.             (* wat::parse_bytes returned an error *)

Inductive outcome :=
  | Loaded (src : source) (p : path) (bytes : content)   (* packages.insert(key, bytes) *)
  | Skipped                                              (* continue without inserting *)
  | ErrUnknown                                           (* Error::UnknownPackage *)
  | ErrResolution (why : failure).                       (* Error::PackageResolutionFailure *)

Section Resolve.
  (** [wat::parse_bytes]: [Some c] for binary input (Cow::Borrowed), [Some c'] for assembled text. *)
  Variable wat_parse : content -> option content.
  (** [Resolve::push_dir] followed by [wit_component::encode]. *)
  Variable wit_dir_encode : content -> option content.
  (** [Resolve::push_file] followed by [wit_component::encode]. *)
  Variable wit_file_encode : content -> option content.
  (** cfg(feature = "wat") *)
  Variable wat : bool.

  (** The [let path = match self.overrides.get(key.name) { ... }] block; [None] = early return with
      the "does not exist" error. *)
  Definition select_path (fs : filesystem) (cfg : config) (k : key) : option path :=
    match lookup (overrides cfg) (k_name k), k_version k with
    | Some p, None =>
        if negb (is_file fs p) then None else Some p
    | _, _ =>
        let pb := fold_left push (split_on ch_colon (k_name k)) (root cfg) in
        let pb := match k_version k with Some v => push pb v | None => pb end in
        Some (if negb (is_dir fs pb) then
                let pb := append_extension pb s_wasm in
                if wat then
                  let pb := set_extension pb s_wat in
                  if negb (exists_ fs pb) then set_extension pb s_wasm else pb
                else pb
              else pb)
    end.

  (** Everything after the path has been chosen. *)
  Definition load (fs : filesystem) (cfg : config) (path : path) : outcome :=
    match fs path with
    | Dir c =>                                   (* if path.is_dir() { push_dir; encode } *)
        match wit_dir_encode c with
        | Some b => Loaded SrcWitDir path b
        | None => ErrResolution WitDirFailed
        end
    | n =>
        if has_ext path s_wit then               (* else if extension == "wit" { push_file; encode } *)
          match n with
          | File c => match wit_file_encode c with
                      | Some b => Loaded SrcWitFile path b
                      | None => ErrResolution WitFileFailed
                      end
          | _ => ErrResolution WitFileFailed     (* push_file cannot read it *)
          end
        else
          match n with
          | File c =>                            (* fs::read *)
              if wat && has_ext path s_wat then
                match wat_parse c with
                | Some b => Loaded SrcWat path b
                | None => ErrResolution WatFailed
                end
              else Loaded SrcRaw path c
          | _ =>                                 (* if !path.is_file() *)
              if error_on_unknown cfg then ErrUnknown else Skipped
          end
    end.

  Definition resolve_one (fs : filesystem) (cfg : config) (k : key) : outcome :=
    match select_path fs cfg k with
    | None => ErrResolution OverrideMissing
    | Some path => load fs cfg path
    end.
End Resolve.

(** * The repaired resolver (commit d297b59 "only the package location itself may be a WIT package directory")

    The code as found is [resolve_one] above.  The repaired code computes, together with the path, whether the path
    is the package's OWN location ([in_place]: an explicit override, or B itself when B is a directory); the suffixed
    candidate "B.wat" is probed with [is_file] instead of [exists], and a directory is read as a WIT package only when
    [in_place].  [resolve_one_fixed] is what /repo's fs.rs does now; the correspondence runs against it. *)
Section ResolveFixed.
  Variable wat_parse : content -> option content.
  Variable wit_dir_encode : content -> option content.
  Variable wit_file_encode : content -> option content.
  Variable wat : bool.

  Definition select_path_fixed (fs : filesystem) (cfg : config) (k : key) : option (path * bool) :=
    match lookup (overrides cfg) (k_name k), k_version k with
    | Some p, None =>
        if negb (is_file fs p) then None else Some (p, true)
    | _, _ =>
        let pb := fold_left push (split_on ch_colon (k_name k)) (root cfg) in
        let pb := match k_version k with Some v => push pb v | None => pb end in
        let in_place := is_dir fs pb in
        Some (if negb in_place then
                let pb := append_extension pb s_wasm in
                if wat then
                  let pb := set_extension pb s_wat in
                  if negb (is_file fs pb) then set_extension pb s_wasm else pb
                else pb
              else pb, in_place)
    end.

  (** Everything after the WIT-directory test. *)
  Definition load_rest (cfg : config) (path : path) (n : node) : outcome :=
    if has_ext path s_wit then               (* else if extension == "wit" { push_file; encode } *)
      match n with
      | File c => match wit_file_encode c with
                  | Some b => Loaded SrcWitFile path b
                  | None => ErrResolution WitFileFailed
                  end
      | _ => ErrResolution WitFileFailed     (* push_file cannot read it *)
      end
    else
      match n with
      | File c =>                            (* fs::read *)
          if wat && has_ext path s_wat then
            match wat_parse c with
            | Some b => Loaded SrcWat path b
            | None => ErrResolution WatFailed
            end
          else Loaded SrcRaw path c
      | _ =>                                 (* if !path.is_file() *)
          if error_on_unknown cfg then ErrUnknown else Skipped
      end.

  Definition load_fixed (fs : filesystem) (cfg : config) (path : path) (in_place : bool) : outcome :=
    match fs path with
    | Dir c =>
        if in_place then                     (* if in_place && path.is_dir() { push_dir; encode } *)
          match wit_dir_encode c with
          | Some b => Loaded SrcWitDir path b
          | None => ErrResolution WitDirFailed
          end
        else load_rest cfg path (Dir c)
    | n => load_rest cfg path n
    end.

  Definition resolve_one_fixed (fs : filesystem) (cfg : config) (k : key) : outcome :=
    match select_path_fixed fs cfg k with
    | None => ErrResolution OverrideMissing
    | Some (path, in_place) => load_fixed fs cfg path in_place
    end.
End ResolveFixed.

(** * The whole [resolve] call: the loop over the requested keys.
    Keys are handled one after the other, each exactly as [resolve_one_fixed] says; a skipped key is left out of the
    answer; the first failing key ends the call with its error.  Nothing is carried from one key to the next. *)
Section ResolveAll.
  Variable wat_parse : content -> option content.
  Variable wit_dir_encode : content -> option content.
  Variable wit_file_encode : content -> option content.
  Variable wat : bool.

  Definition is_failure (o : outcome) : bool :=
    match o with ErrUnknown | ErrResolution _ => true | _ => false end.

  (** the outcomes of the keys that were looked at, in request order; the last one is the error when the call fails *)
  Fixpoint resolve_all (fs : filesystem) (cfg : config) (ks : list key) : list outcome :=
    match ks with
    | [] => []
    | k :: r =>
        let o := resolve_one_fixed wat_parse wit_dir_encode wit_file_encode wat fs cfg k in
        if is_failure o then [o] else o :: resolve_all fs cfg r
    end.
End ResolveAll.

(** A finite file system given as an association list (used by the correspondence driver and by
    examples); anything not listed is absent. *)
Fixpoint path_eqb (a b : path) : bool :=
  match a, b with
  | [], [] => true
  | x :: a', y :: b' => str_eqb x y && path_eqb a' b'
  | _, _ => false
  end.

Fixpoint fs_of_list (l : list (path * node)) (p : path) : node :=
  match l with
  | [] => Absent
  | (q, n) :: r => if path_eqb q p then n else fs_of_list r p
  end.
