(** Model of [crates/wac-graph/src/graph.rs]: the bookkeeping of [CompositionGraph]'s public API.
    Node identifiers are petgraph [StableGraph] slot numbers (LIFO free list, observable through
    [NodeId]); edges are kept newest first, which is the iteration order of petgraph's head-inserted
    adjacency lists. Names and item kinds are indexes into a per-case universe. Every
    [panic!/unwrap/expect/assert!] of the Rust code is an explicit [OPanic] outcome. *)
From Coq Require Import List Arith Bool NArith.
Import ListNotations.

Definition name := N.      (* index into the case's name pool *)
Definition kid := N.       (* canonical item-kind id *)
Definition pkgid := (nat * nat)%type.   (* slot index, generation *)

Record pkgdesc := { pd_inst : kid; pd_imports : list (name * kid) }.
Record tydesc := { td_res : bool; td_kind : kid; td_deps : list nat }.

Record universe := {
  u_inst_exports : kid -> option (list (name * kid));   (* [Some] exactly for instance kinds *)
  u_pkgs : list pkgdesc;
  u_tys : list tydesc;
  u_lkinds : list kid;
  u_sub : kid -> kid -> bool;                            (* subtype oracle (C07 is about it) *)
  u_import_name_ok : name -> bool;                       (* [ComponentName::new] accepts *)
  u_export_name_ok : name -> bool }.                     (* ... and not hash/url/dependency *)

Inductive nkind := NDef | NImport (n : name) | NInst (sat : list nat) | NAlias.
Record node := { nk : nkind; npkg : option pkgid; nitem : kid; nname : option name; nexport : option name }.
Inductive ekind := EAlias (i : nat) | EArg (i : nat) | EDep.
Record edge := { esrc : nat; etgt : nat; ek : ekind }.

Record pslot := { ps_pkg : option nat (* universe package index *); ps_gen : nat }.

Record gstate := {
  nodes : list (option node);
  free_nodes : list nat;            (* head = next slot to reuse *)
  edges : list edge;                (* newest first *)
  imports : list (name * nat);
  exports : list (name * nat);      (* IndexMap order *)
  defined : list (nat * nat);       (* type index -> node *)
  pkgs : list pslot;
  free_pkgs : list nat }.           (* head = last pushed = next popped *)

Definition empty_graph : gstate :=
  {| nodes := []; free_nodes := []; edges := []; imports := []; exports := []; defined := [];
     pkgs := []; free_pkgs := [] |}.

Inductive gerr :=
  | PackageAlreadyRegistered | TypeAlreadyDefined | CannotDefineResource | ExportConflict | InvalidExternName
  | ImportAlreadyExists (n : nat) | InvalidImportName
  | NodeIsNotAnInstance | InstanceMissingExport
  | ExportAlreadyExists (n : nat) | InvalidExportName | MustExportDefinition
  | NodeIsNotAnInstantiation | InvalidArgumentName | ArgumentTypeMismatch | ArgumentAlreadyPassed.

Inductive psite :=
  | PInvalidNodeId | PInvalidPackageId | PSatInsert | PSatRemove | PNotInstantiation | PUnexpectedEdge
  | PExportMissing | PImportMissing | PDefinedMissing | PDeadNodeInMap | PBadUniverse | POutOfFuel.

Inductive outcome := OUnit | ONode (n : nat) | OPkg (p : pkgid) | OErr (e : gerr) | OPanic (s : psite).

Inductive op :=
  | Register (p : nat) | Unregister (id : pkgid) | DefineType (n : name) (t : nat) | Import (n : name) (k : nat)
  | Instantiate (id : pkgid) | Alias (n : nat) (e : name)
  | SetArg (i : nat) (a : name) (n : nat) | UnsetArg (i : nat) (a : name) (n : nat)
  | Export (n : nat) (e : name) | Unexport (n : nat) | SetName (n : nat) (s : name) | RemoveNode (n : nat).

(** * basic accessors *)
Definition get_node (s : gstate) (n : nat) : option node :=
  match nth_error (nodes s) n with Some (Some nd) => Some nd | _ => None end.
Definition live (s : gstate) (n : nat) : bool := match get_node s n with Some _ => true | None => false end.

Fixpoint set_nth {A} (l : list A) (n : nat) (x : A) : list A :=
  match l, n with
  | [], _ => []
  | _ :: r, O => x :: r
  | y :: r, S n' => y :: set_nth r n' x
  end.

Definition set_node (s : gstate) (n : nat) (nd : option node) : gstate :=
  {| nodes := set_nth (nodes s) n nd; free_nodes := free_nodes s; edges := edges s; imports := imports s;
     exports := exports s; defined := defined s; pkgs := pkgs s; free_pkgs := free_pkgs s |}.

(** [StableGraph::add_node]: reuse the head of the free list, else push. *)
Definition add_node (s : gstate) (nd : node) : gstate * nat :=
  match free_nodes s with
  | i :: fr =>
      ({| nodes := set_nth (nodes s) i (Some nd); free_nodes := fr; edges := edges s; imports := imports s;
          exports := exports s; defined := defined s; pkgs := pkgs s; free_pkgs := free_pkgs s |}, i)
  | [] =>
      ({| nodes := nodes s ++ [Some nd]; free_nodes := []; edges := edges s; imports := imports s;
          exports := exports s; defined := defined s; pkgs := pkgs s; free_pkgs := free_pkgs s |},
       length (nodes s))
  end.

Definition add_edge (s : gstate) (e : edge) : gstate :=
  {| nodes := nodes s; free_nodes := free_nodes s; edges := e :: edges s; imports := imports s;
     exports := exports s; defined := defined s; pkgs := pkgs s; free_pkgs := free_pkgs s |}.

Definition with_maps (s : gstate) (im ex : list (name * nat)) (df : list (nat * nat)) : gstate :=
  {| nodes := nodes s; free_nodes := free_nodes s; edges := edges s; imports := im;
     exports := ex; defined := df; pkgs := pkgs s; free_pkgs := free_pkgs s |}.

Definition outgoing (s : gstate) (n : nat) : list edge := filter (fun e => esrc e =? n) (edges s).
Definition incoming (s : gstate) (n : nat) : list edge := filter (fun e => etgt e =? n) (edges s).

Fixpoint alist_get {A} (eqb : A -> A -> bool) {B} (l : list (A * B)) (k : A) : option B :=
  match l with
  | [] => None
  | (k', v) :: r => if eqb k' k then Some v else alist_get eqb r k
  end.

Definition get_pkg (s : gstate) (id : pkgid) : option nat :=
  match nth_error (pkgs s) (fst id) with
  | Some sl => if ps_gen sl =? snd id then ps_pkg sl else None
  | None => None
  end.

Definition pkg_eqb (a b : option pkgid) : bool :=
  match a, b with
  | Some (i, g), Some (j, h) => (i =? j) && (g =? h)
  | None, None => true
  | _, _ => false
  end.

(** [IndexMap::swap_remove] by key *)
Fixpoint remove_at {A} (l : list A) (i : nat) : list A :=
  match l, i with
  | [], _ => []
  | _ :: r, O => r
  | x :: r, S i' => x :: remove_at r i'
  end.
Fixpoint find_index {B} (l : list (name * B)) (k : name) (i : nat) : option nat :=
  match l with
  | [] => None
  | (k', _) :: r => if N.eqb k' k then Some i else find_index r k (S i)
  end.
Definition swap_remove {B} (l : list (name * B)) (k : name) : option (list (name * B)) :=
  match find_index l k 0 with
  | None => None
  | Some i =>
      match rev l with
      | [] => None
      | lastx :: _ =>
          if i =? pred (length l) then Some (removelast l)
          else Some (removelast (set_nth l i lastx))
      end
  end.

(** * satisfied-argument bookkeeping ([Node::add_satisfied_arg] etc.) *)
Definition add_satisfied (s : gstate) (n i : nat) : option gstate + psite :=
  match get_node s n with
  | None => inr PInvalidNodeId
  | Some nd =>
      match nk nd with
      | NInst sat =>
          if existsb (Nat.eqb i) sat then inr PSatInsert
          else inl (Some (set_node s n (Some {| nk := NInst (i :: sat); npkg := npkg nd; nitem := nitem nd;
                                                nname := nname nd; nexport := nexport nd |})))
      | _ => inr PNotInstantiation
      end
  end.

Definition remove_satisfied (s : gstate) (n i : nat) : gstate + psite :=
  match get_node s n with
  | None => inr PInvalidNodeId
  | Some nd =>
      match nk nd with
      | NInst sat =>
          if existsb (Nat.eqb i) sat
          then inl (set_node s n (Some {| nk := NInst (filter (fun j => negb (j =? i)) sat); npkg := npkg nd;
                                          nitem := nitem nd; nname := nname nd; nexport := nexport nd |}))
          else inr PSatRemove
      | _ => inr PNotInstantiation
      end
  end.

Fixpoint remove_satisfied_all (s : gstate) (l : list (nat * nat)) : gstate + psite :=
  match l with
  | [] => inl s
  | (t, i) :: r => match remove_satisfied s t i with inl s' => remove_satisfied_all s' r | inr p => inr p end
  end.

(** * removing nodes *)
(** the slot-level part of [StableGraph::remove_node]: free the slot, drop incident edges *)
Definition drop_node (s : gstate) (n : nat) : gstate :=
  {| nodes := set_nth (nodes s) n None; free_nodes := n :: free_nodes s;
     edges := filter (fun e => negb (esrc e =? n) && negb (etgt e =? n)) (edges s);
     imports := imports s; exports := exports s; defined := defined s; pkgs := pkgs s; free_pkgs := free_pkgs s |}.

Definition arg_targets (es : list edge) : list (nat * nat) :=
  flat_map (fun e => match ek e with EArg i => [(etgt e, i)] | _ => [] end) es.

(** the body of [remove_node] after the recursive calls *)
Definition remove_one (s : gstate) (n : nat) : gstate + psite :=
  match remove_satisfied_all s (arg_targets (outgoing s n)) with
  | inr p => inr p
  | inl s1 =>
      match get_node s1 n with
      | None => inr PInvalidNodeId
      | Some nd =>
          let s2 := drop_node s1 n in
          match (match nk nd with
                 | NImport nm => match alist_get N.eqb (imports s2) nm with
                                 | Some _ => inl (filter (fun p => negb (N.eqb (fst p) nm)) (imports s2))
                                 | None => inr PImportMissing
                                 end
                 | _ => inl (imports s2)
                 end) with
          | inr p => inr p
          | inl im =>
              match (match nexport nd with
                     | Some nm => match swap_remove (exports s2) nm with Some ex => inl ex | None => inr PExportMissing end
                     | None => inl (exports s2)
                     end) with
              | inr p => inr p
              | inl ex =>
                  let ex := filter (fun p => negb (snd p =? n)) ex in
                  match nk nd with
                  | NDef =>
                      (* [defined.remove(&node.item_kind.ty())]: the entry of this node *)
                      if existsb (fun p => snd p =? n) (defined s2)
                      then inl (with_maps s2 im ex (filter (fun p => negb (snd p =? n)) (defined s2)))
                      else inr PDefinedMissing
                  | _ => inl (with_maps s2 im ex (defined s2))
                  end
              end
          end
      end
  end.

Definition dependants (s : gstate) (n : nat) : list nat :=
  flat_map (fun e => match ek e with EAlias _ | EDep => [etgt e] | EArg _ => [] end) (outgoing s n).

Fixpoint remove_node_rec (fuel : nat) (s : gstate) (n : nat) : gstate + psite :=
  match fuel with
  | O => inr POutOfFuel
  | S f =>
      let fix go (s : gstate) (l : list nat) : gstate + psite :=
        match l with
        | [] => inl s
        | m :: r =>
            if live s m then match remove_node_rec f s m with inl s' => go s' r | inr p => inr p end
            else go s r
        end in
      match go s (dependants s n) with
      | inr p => inr p
      | inl s' => remove_one s' n
      end
  end.

(** * the operations *)
Definition find_pkg_slot (s : gstate) (p : nat) : option nat :=
  (fix go (l : list pslot) (i : nat) :=
     match l with
     | [] => None
     | sl :: r => match ps_pkg sl with
                  | Some q => if q =? p then Some i else go r (S i)
                  | None => go r (S i)
                  end
     end) (pkgs s) 0.

Definition with_pkgs (s : gstate) (pk : list pslot) (fp : list nat) : gstate :=
  {| nodes := nodes s; free_nodes := free_nodes s; edges := edges s; imports := imports s;
     exports := exports s; defined := defined s; pkgs := pk; free_pkgs := fp |}.

Definition register (u : universe) (s : gstate) (p : nat) : gstate * outcome :=
  match find_pkg_slot s p with
  | Some _ => (s, OErr PackageAlreadyRegistered)
  | None =>
      match free_pkgs s with
      | i :: fp =>
          match nth_error (pkgs s) i with
          | Some sl => (with_pkgs s (set_nth (pkgs s) i {| ps_pkg := Some p; ps_gen := ps_gen sl |}) fp, OPkg (i, ps_gen sl))
          | None => (s, OPanic PInvalidPackageId)
          end
      | [] => (with_pkgs s (pkgs s ++ [{| ps_pkg := Some p; ps_gen := 0 |}]) [], OPkg (length (pkgs s), 0))
      end
  end.

Definition node_pkg_is (s : gstate) (id : pkgid) (n : nat) : bool :=
  match get_node s n with Some nd => pkg_eqb (npkg nd) (Some id) | None => false end.

(** all occupied slots whose node satisfies [f], ascending *)
Definition nodes_where (s : gstate) (f : node -> bool) : list nat :=
  flat_map (fun p => match snd p with Some nd => if f nd then [fst p] else [] | None => [] end)
           (combine (seq 0 (length (nodes s))) (nodes s)).

Definition unregister (s : gstate) (id : pkgid) : gstate * outcome :=
  match nth_error (pkgs s) (fst id) with
  | None => (s, OPanic PInvalidPackageId)
  | Some sl =>
      if negb (ps_gen sl =? snd id) then (s, OPanic PInvalidPackageId) else
      (* the three [retain]s index the graph with every entry: a dead node in a map panics *)
      if negb (forallb (fun p => live s (snd p)) (exports s) && forallb (fun p => live s (snd p)) (defined s)
               && forallb (fun p => live s (snd p)) (imports s)) then (s, OPanic PDeadNodeInMap) else
      let keep := fun n => negb (node_pkg_is s id n) in
      let s1 := with_maps s (filter (fun p => keep (snd p)) (imports s)) (filter (fun p => keep (snd p)) (exports s))
                          (filter (fun p => keep (snd p)) (defined s)) in
      (* arguments satisfied by nodes of the package become unsatisfied again (edge-index order is not observable:
         distinct (target, index) pairs commute) *)
      let cross := flat_map (fun e => match ek e with
                                      | EArg i => if node_pkg_is s id (esrc e) && negb (node_pkg_is s id (etgt e))
                                                  then [(etgt e, i)] else []
                                      | _ => [] end) (edges s) in
      match remove_satisfied_all s1 cross with
      | inr p => (s, OPanic p)
      | inl s2 =>
          let victims := nodes_where s2 (fun nd => pkg_eqb (npkg nd) (Some id)) in
          let s3 := fold_left drop_node victims s2 in
          match ps_pkg sl with
          | None => (s, OPanic PInvalidPackageId)
          | Some _ =>
              (with_pkgs s3 (set_nth (pkgs s3) (fst id) {| ps_pkg := None; ps_gen := S (ps_gen sl) |}) (fst id :: free_pkgs s3), OUnit)
          end
      end
  end.

Definition has_dep_edge (s : gstate) (a b : nat) : bool :=
  existsb (fun e => (esrc e =? a) && (etgt e =? b) && match ek e with EDep => true | _ => false end) (edges s).

Definition mk_node (k : nkind) (item : kid) (p : option pkgid) : node :=
  {| nk := k; npkg := p; nitem := item; nname := None; nexport := None |}.

Definition insert_sorted_by_node (p : nat * nat) (l : list (nat * nat)) : list (nat * nat) :=
  (fix go (l : list (nat * nat)) :=
     match l with
     | [] => [p]
     | q :: r => if snd p <=? snd q then p :: q :: r else q :: go r
     end) l.

Definition define_type (u : universe) (s : gstate) (nm : name) (t : nat) : gstate * outcome :=
  match nth_error (u_tys u) t with
  | None => (s, OPanic PBadUniverse)
  | Some td =>
      if existsb (fun p => fst p =? t) (defined s) then (s, OErr TypeAlreadyDefined) else
      if td_res td then (s, OErr CannotDefineResource) else
      if existsb (fun p => N.eqb (fst p) nm) (exports s) then (s, OErr ExportConflict) else
      if negb (u_import_name_ok u nm) then (s, OErr InvalidExternName) else
      let nd := {| nk := NDef; npkg := None; nitem := td_kind td; nname := None; nexport := Some nm |} in
      let '(s1, idx) := add_node s nd in
      (* edges from the types this one refers to *)
      let s2 := fold_left (fun s d =>
                  if d =? t then s else
                  match alist_get Nat.eqb (defined s) d with
                  | Some dn => if has_dep_edge s dn idx then s else add_edge s {| esrc := dn; etgt := idx; ek := EDep |}
                  | None => s
                  end) (td_deps td) s1 in
      (* edges to the already defined types that refer to this one, in node order *)
      let others := fold_right insert_sorted_by_node [] (defined s2) in
      let s3 := fold_left (fun s o =>
                  match nth_error (u_tys u) (fst o) with
                  | None => s
                  | Some od =>
                      fold_left (fun s d =>
                        if (d =? t) && negb (has_dep_edge s idx (snd o))
                        then add_edge s {| esrc := idx; etgt := snd o; ek := EDep |} else s) (td_deps od) s
                  end) others s2 in
      (with_maps s3 (imports s3) (exports s3 ++ [(nm, idx)]) ((t, idx) :: defined s3), ONode idx)
  end.

Definition import_ (u : universe) (s : gstate) (nm : name) (k : nat) : gstate * outcome :=
  match nth_error (u_lkinds u) k with
  | None => (s, OPanic PBadUniverse)
  | Some kd =>
      match alist_get N.eqb (imports s) nm with
      | Some n => (s, OErr (ImportAlreadyExists n))
      | None =>
          if negb (u_import_name_ok u nm) then (s, OErr InvalidImportName) else
          let '(s1, idx) := add_node s (mk_node (NImport nm) kd None) in
          (with_maps s1 ((nm, idx) :: imports s1) (exports s1) (defined s1), ONode idx)
      end
  end.

Definition pkg_desc (u : universe) (s : gstate) (id : pkgid) : option pkgdesc :=
  match get_pkg s id with Some p => nth_error (u_pkgs u) p | None => None end.

Definition instantiate (u : universe) (s : gstate) (id : pkgid) : gstate * outcome :=
  match pkg_desc u s id with
  | None => (s, OPanic PInvalidPackageId)
  | Some pd => let '(s1, idx) := add_node s (mk_node (NInst []) (pd_inst pd) (Some id)) in (s1, ONode idx)
  end.

Fixpoint get_full {B} (l : list (name * B)) (k : name) (i : nat) : option (nat * B) :=
  match l with
  | [] => None
  | (k', v) :: r => if N.eqb k' k then Some (i, v) else get_full r k (S i)
  end.

Definition alias (u : universe) (s : gstate) (n : nat) (e : name) : gstate * outcome :=
  match get_node s n with
  | None => (s, OPanic PInvalidNodeId)
  | Some nd =>
      match u_inst_exports u (nitem nd) with
      | None => (s, OErr NodeIsNotAnInstance)
      | Some ex =>
          match get_full ex e 0 with
          | None => (s, OErr InstanceMissingExport)
          | Some (index, kind) =>
              match find (fun ed => match ek ed with EAlias i => i =? index | _ => false end) (outgoing s n) with
              | Some ed => (s, ONode (etgt ed))
              | None =>
                  let '(s1, idx) := add_node s (mk_node NAlias kind (npkg nd)) in
                  (add_edge s1 {| esrc := n; etgt := idx; ek := EAlias index |}, ONode idx)
              end
          end
      end
  end.

Definition inst_imports (u : universe) (s : gstate) (nd : node) : option (list (name * kid)) :=
  match npkg nd with
  | Some id => match pkg_desc u s id with Some pd => Some (pd_imports pd) | None => None end
  | None => None
  end.

(** the scan over the incoming edges in [set_instantiation_argument] *)
Inductive scan := ScanNone | ScanSame | ScanOther | ScanPanic.
Fixpoint scan_incoming (es : list edge) (index arg : nat) : scan :=
  match es with
  | [] => ScanNone
  | e :: r =>
      match ek e with
      | EArg i => if i =? index then (if esrc e =? arg then ScanSame else ScanOther) else scan_incoming r index arg
      | _ => ScanPanic
      end
  end.

Definition set_arg (u : universe) (s : gstate) (inst : nat) (a : name) (arg : nat) : gstate * outcome :=
  match get_node s inst with
  | None => (s, OPanic PInvalidNodeId)
  | Some nd =>
      match nk nd with
      | NInst _ =>
          match inst_imports u s nd with
          | None => (s, OPanic PInvalidPackageId)
          | Some imps =>
              match get_full imps a 0 with
              | None => (s, OErr InvalidArgumentName)
              | Some (index, expected) =>
                  match scan_incoming (incoming s inst) index arg with
                  | ScanPanic => (s, OPanic PUnexpectedEdge)
                  | ScanSame => (s, OUnit)
                  | ScanOther => (s, OErr ArgumentAlreadyPassed)
                  | ScanNone =>
                      match get_node s arg with
                      | None => (s, OPanic PInvalidNodeId)
                      | Some an =>
                          if negb (u_sub u (nitem an) expected) then (s, OErr ArgumentTypeMismatch) else
                          let s1 := add_edge s {| esrc := arg; etgt := inst; ek := EArg index |} in
                          match add_satisfied s1 inst index with
                          | inl (Some s2) => (s2, OUnit)
                          | inl None => (s, OPanic PSatInsert)
                          | inr p => (s, OPanic p)
                          end
                      end
                  end
              end
          end
      | _ => (s, OErr NodeIsNotAnInstantiation)
      end
  end.

(** remove the first (newest) edge satisfying [f] *)
Fixpoint remove_first (f : edge -> bool) (es : list edge) : list edge :=
  match es with
  | [] => []
  | e :: r => if f e then r else e :: remove_first f r
  end.

Inductive uscan := UNone | UFound | UPanic.
Fixpoint scan_connecting (es : list edge) (index : nat) : uscan :=
  match es with
  | [] => UNone
  | e :: r => match ek e with
              | EArg i => if i =? index then UFound else scan_connecting r index
              | _ => UPanic
              end
  end.

Definition unset_arg (u : universe) (s : gstate) (inst : nat) (a : name) (arg : nat) : gstate * outcome :=
  match get_node s inst with
  | None => (s, OPanic PInvalidNodeId)
  | Some nd =>
      match nk nd with
      | NInst _ =>
          match inst_imports u s nd with
          | None => (s, OPanic PInvalidPackageId)
          | Some imps =>
              match get_full imps a 0 with
              | None => (s, OErr InvalidArgumentName)
              | Some (index, _) =>
                  let conn := filter (fun e => (esrc e =? arg) && (etgt e =? inst)) (edges s) in
                  match scan_connecting conn index with
                  | UPanic => (s, OPanic PUnexpectedEdge)
                  | UNone => (s, OUnit)
                  | UFound =>
                      match remove_satisfied s inst index with
                      | inr p => (s, OPanic p)
                      | inl s1 =>
                          let isit := fun e => (esrc e =? arg) && (etgt e =? inst)
                                               && match ek e with EArg i => i =? index | _ => false end in
                          ({| nodes := nodes s1; free_nodes := free_nodes s1; edges := remove_first isit (edges s1);
                              imports := imports s1; exports := exports s1; defined := defined s1;
                              pkgs := pkgs s1; free_pkgs := free_pkgs s1 |}, OUnit)
                      end
                  end
              end
          end
      | _ => (s, OErr NodeIsNotAnInstantiation)
      end
  end.

Definition update_node (s : gstate) (n : nat) (f : node -> node) : option gstate :=
  match get_node s n with Some nd => Some (set_node s n (Some (f nd))) | None => None end.

(** [IndexMap::shift_remove] by key: the entry of the key goes, the order of the others is kept *)
Fixpoint shift_remove {B} (l : list (name * B)) (k : name) : list (name * B) :=
  match l with
  | [] => []
  | (k', v) :: r => if N.eqb k' k then r else (k', v) :: shift_remove r k
  end.

(** the export map once [export] has replaced the node's export name: a type definition is RENAMED
    (its previous name leaves the map), any other node keeps its earlier export names *)
Definition exports_renamed (s : gstate) (n : nat) : list (name * nat) :=
  match get_node s n with
  | Some nd =>
      match nk nd, nexport nd with
      | NDef, Some previous => shift_remove (exports s) previous
      | _, _ => exports s
      end
  | None => exports s
  end.

Definition export_ (u : universe) (s : gstate) (n : nat) (e : name) : gstate * outcome :=
  match alist_get N.eqb (exports s) e with
  | Some m => (s, OErr (ExportAlreadyExists m))
  | None =>
      if negb (u_export_name_ok u e) then (s, OErr InvalidExportName) else
      match update_node s n (fun nd => {| nk := nk nd; npkg := npkg nd; nitem := nitem nd; nname := nname nd;
                                          nexport := Some e |}) with
      | None => (s, OPanic PInvalidNodeId)
      | Some s1 => (with_maps s1 (imports s1) (exports_renamed s n ++ [(e, n)]) (defined s1), OUnit)
      end
  end.

Definition unexport (s : gstate) (n : nat) : gstate * outcome :=
  match get_node s n with
  | None => (s, OPanic PInvalidNodeId)
  | Some nd =>
      match nk nd with
      | NDef => (s, OErr MustExportDefinition)
      | _ =>
          let s1 := set_node s n (Some {| nk := nk nd; npkg := npkg nd; nitem := nitem nd; nname := nname nd;
                                          nexport := None |}) in
          match (match nexport nd with
                 | Some nm => match swap_remove (exports s1) nm with Some ex => inl ex | None => inr PExportMissing end
                 | None => inl (exports s1)
                 end) with
          | inr p => (s, OPanic p)
          | inl ex => (with_maps s1 (imports s1) (filter (fun p => negb (snd p =? n)) ex) (defined s1), OUnit)
          end
      end
  end.

Definition set_name (s : gstate) (n : nat) (nm : name) : gstate * outcome :=
  match update_node s n (fun nd => {| nk := nk nd; npkg := npkg nd; nitem := nitem nd; nname := Some nm;
                                      nexport := nexport nd |}) with
  | None => (s, OPanic PInvalidNodeId)
  | Some s1 => (s1, OUnit)
  end.

Definition remove_node (s : gstate) (n : nat) : gstate * outcome :=
  match remove_node_rec (S (length (nodes s))) s n with
  | inl s' => (s', OUnit)
  | inr p => (s, OPanic p)
  end.

Definition step (u : universe) (s : gstate) (o : op) : gstate * outcome :=
  match o with
  | Register p => register u s p
  | Unregister id => unregister s id
  | DefineType n t => define_type u s n t
  | Import n k => import_ u s n k
  | Instantiate id => instantiate u s id
  | Alias n e => alias u s n e
  | SetArg i a n => set_arg u s i a n
  | UnsetArg i a n => unset_arg u s i a n
  | Export n e => export_ u s n e
  | Unexport n => unexport s n
  | SetName n nm => set_name s n nm
  | RemoveNode n => remove_node s n
  end.

(** * queries *)
Definition node_ids (s : gstate) : list nat := nodes_where s (fun _ => true).

Definition get_alias_source (u : universe) (s : gstate) (n : nat) : option (nat * name) :=
  match find (fun e => match ek e with EAlias _ => true | _ => false end) (incoming s n) with
  | Some e =>
      match ek e, get_node s (esrc e) with
      | EAlias i, Some sn =>
          match u_inst_exports u (nitem sn) with
          | Some ex => match nth_error ex i with Some (nm, _) => Some (esrc e, nm) | None => None end
          | None => None
          end
      | _, _ => None
      end
  | None => None
  end.

Definition get_args (u : universe) (s : gstate) (n : nat) : list (name * nat) :=
  match get_node s n with
  | Some nd =>
      match nk nd, inst_imports u s nd with
      | NInst _, Some imps =>
          flat_map (fun e => match ek e with
                             | EArg i => match nth_error imps i with Some (nm, _) => [(nm, esrc e)] | None => [] end
                             | _ => [] end) (incoming s n)
      | _, _ => []
      end
  | None => []
  end.

(** [CompositionGraph::imports]: unsatisfied arguments of every instantiation in node order, then explicit imports *)
Definition list_imports (u : universe) (s : gstate) : list (name * kid * option nat) :=
  flat_map (fun n =>
    match get_node s n with
    | Some nd =>
        match nk nd, inst_imports u s nd with
        | NInst sat, Some imps =>
            flat_map (fun p => if existsb (Nat.eqb (fst p)) sat then [] else [(fst (snd p), snd (snd p), None)])
                     (combine (seq 0 (length imps)) imps)
        | _, _ => []
        end
    | None => [] end) (node_ids s)
  ++
  flat_map (fun n =>
    match get_node s n with
    | Some nd => match nk nd with NImport nm => [(nm, nitem nd, Some n)] | _ => [] end
    | None => [] end) (node_ids s).

Definition run (u : universe) (ops : list op) : gstate := fold_left (fun s o => fst (step u s o)) ops empty_graph.
