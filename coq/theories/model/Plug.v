(** Model of [crates/wac-graph/src/plug.rs] over the graph operations of [Graph.v].

    [plug(graph, plugs, socket)]:
      1. instantiate the socket;
      2. for every plug in order: for every export (name, kind) of the plug's WORLD in order, find the
         socket import to feed: the import of exactly that name ([IndexMap::get]) or else the FIRST
         socket import (world import order) whose name is [are_semver_compatible] with the export
         name; keep the pair if the export's kind is a subtype of the import's kind.  The kept
         pairs are made unique per socket import (exact name preferred; repair 7db12e7).  Then, for
         the pairs in order: instantiate the plug at the first pair (lazily, once), alias the export,
         [set_instantiation_argument] on the socket.  Any error becomes [GraphError] (the underlying
         variant is kept here);
      3. [NoPlugHappened] iff the socket instantiation has no argument;
      4. alias and export every socket export under its own name.

    A package's world exports and the exports of its instance type are the same [IndexMap] (cloned in
    [Package::from_bytes]: [exports: exports.clone()] for the world, [exports] for the interface), so
    the universe's [u_inst_exports (pd_inst pd)] is the world's export list, in order.

    Names in [Graph.v] are indexes into a pool of pairwise different strings; [pu_name_text] gives the
    text so that [Names.compat] (the model of [are_semver_compatible], C15) can be evaluated.
    Every [panic!]/index of the Rust code is an explicit [PPanic]. *)
From Coq Require Import List Arith Bool NArith.
From WacV Require Import Str Names Graph.
Import ListNotations.

Record puniverse := { pu_graph :> universe; pu_name_text : name -> str }.

Inductive plug_outcome :=
  | POk
  | PNoPlugHappened
  | PGraphError (e : gerr)
  | PPanic (p : psite).

Definition item := (name * kid)%type.

(** [imports.get(name).map(..).or_else(|| imports.iter().find(|(n, _)| are_semver_compatible(name, n)))] *)
Definition find_target (text : name -> str) (imps : list item) (n : name) : option item :=
  match alist_get N.eqb imps n with
  | Some t => Some (n, t)
  | None => find (fun p => compat (text n) (text (fst p))) imps
  end.

(** the [plug_exports] vector of one plug: (plug export name, socket import name) *)
Definition plug_matches (text : name -> str) (sub : kid -> kid -> bool) (imps exps : list item)
  : list (name * name) :=
  flat_map (fun e => match find_target text imps (fst e) with
                     | Some (m, t) => if sub (snd e) t then [(fst e, m)] else []
                     | None => []
                     end) exps.

(** [unique_exports]: one pair per socket import.  The first pair for an import keeps its position; a
    later pair for the same import only replaces the export name, and only when its name is exactly
    the import's ([if plug_name == socket_name { existing.0 = plug_name }]). *)
Fixpoint replace_first (m e : name) (acc : list (name * name)) : list (name * name) :=
  match acc with
  | [] => []
  | (e0, m0) :: r => if N.eqb m0 m then (e, m0) :: r else (e0, m0) :: replace_first m e r
  end.

Definition unique_step (acc : list (name * name)) (em : name * name) : list (name * name) :=
  if existsb (fun p => N.eqb (snd p) (snd em)) acc
  then (if N.eqb (fst em) (snd em) then replace_first (snd em) (fst em) acc else acc)
  else acc ++ [em].

Definition unique_pairs (raw : list (name * name)) : list (name * name) := fold_left unique_step raw [].

(** the pairs that are wired for one plug *)
Definition plug_pairs (text : name -> str) (sub : kid -> kid -> bool) (imps exps : list item)
  : list (name * name) := unique_pairs (plug_matches text sub imps exps).

(** the second inner loop: [inst] is [plug_instantiation]; [None] in the result = loop finished *)
Fixpoint wire (u : universe) (s : gstate) (sock : nat) (pid : pkgid) (inst : option nat)
              (l : list (name * name)) : gstate * option plug_outcome :=
  match l with
  | [] => (s, None)
  | (e, m) :: r =>
      match (match inst with Some n => (s, ONode n) | None => instantiate u s pid end) with
      | (s1, ONode n) =>
          match alias u s1 n e with
          | (s2, ONode a) =>
              match set_arg u s2 sock m a with
              | (s3, OUnit) => wire u s3 sock pid (Some n) r
              | (s3, OErr er) => (s3, Some (PGraphError er))
              | (s3, OPanic p) => (s3, Some (PPanic p))
              | (s3, _) => (s3, Some (PPanic PBadUniverse))
              end
          | (s2, OErr er) => (s2, Some (PGraphError er))
          | (s2, OPanic p) => (s2, Some (PPanic p))
          | (s2, _) => (s2, Some (PPanic PBadUniverse))
          end
      | (s1, OPanic p) => (s1, Some (PPanic p))
      | (s1, _) => (s1, Some (PPanic PBadUniverse))
      end
  end.

(** the world's exports of a registered package *)
Definition world_exports (u : universe) (s : gstate) (id : pkgid) : option (list item) + psite :=
  match pkg_desc u s id with
  | None => inr PInvalidPackageId                    (* [graph[plug]] panics *)
  | Some pd => inl (u_inst_exports u (pd_inst pd))
  end.

Fixpoint plug_loop (pu : puniverse) (s : gstate) (sock : nat) (imps : list item) (plugs : list pkgid)
  : gstate * option plug_outcome :=
  match plugs with
  | [] => (s, None)
  | p :: r =>
      match world_exports pu s p with
      | inr ps => (s, Some (PPanic ps))
      | inl None => (s, Some (PPanic PBadUniverse))
      | inl (Some exps) =>
          match wire pu s sock p None (plug_pairs (pu_name_text pu) (u_sub pu) imps exps) with
          | (s1, None) => plug_loop pu s1 sock imps r
          | (s1, Some o) => (s1, Some o)
          end
      end
  end.

(** the final loop: export every socket export under its own name *)
Fixpoint reexport (u : universe) (s : gstate) (sock : nat) (names : list name) : gstate * option plug_outcome :=
  match names with
  | [] => (s, None)
  | x :: r =>
      match alias u s sock x with
      | (s1, ONode a) =>
          match export_ u s1 a x with
          | (s2, OUnit) => reexport u s2 sock r
          | (s2, OErr er) => (s2, Some (PGraphError er))
          | (s2, OPanic p) => (s2, Some (PPanic p))
          | (s2, _) => (s2, Some (PPanic PBadUniverse))
          end
      | (s1, OErr er) => (s1, Some (PGraphError er))
      | (s1, OPanic p) => (s1, Some (PPanic p))
      | (s1, _) => (s1, Some (PPanic PBadUniverse))
      end
  end.

Definition plug (pu : puniverse) (s : gstate) (plugs : list pkgid) (socket : pkgid) : gstate * plug_outcome :=
  match pkg_desc pu s socket with
  | None => (s, PPanic PInvalidPackageId)
  | Some sd =>
      match instantiate pu s socket with
      | (s0, ONode sock) =>
          match plug_loop pu s0 sock (pd_imports sd) plugs with
          | (s1, Some o) => (s1, o)
          | (s1, None) =>
              match get_args pu s1 sock with
              | [] => (s1, PNoPlugHappened)
              | _ :: _ =>
                  match u_inst_exports pu (pd_inst sd) with
                  | None => (s1, PPanic PBadUniverse)
                  | Some sx =>
                      match reexport pu s1 sock (map fst sx) with
                      | (s2, None) => (s2, POk)
                      | (s2, Some o) => (s2, o)
                      end
                  end
              end
          end
      | (s0, OPanic p) => (s0, PPanic p)
      | (s0, _) => (s0, PPanic PBadUniverse)
      end
  end.

(** the node of the socket instantiation: the slot [instantiate] takes *)
Definition sock_node (s : gstate) : nat :=
  match free_nodes s with i :: _ => i | [] => length (nodes s) end.

(** registering universe packages [ps] in order in a graph (what the CLI and the harness do first) *)
Definition register_all (u : universe) (ps : list nat) : gstate :=
  fold_left (fun s p => fst (register u s p)) ps empty_graph.
