(** Token kinds of the WAC lexer ([lexer.rs], [enum Token]). One constructor per Rust variant, named
    [T<Variant>]; the generated table [gen/LexTables.v] refers to these names, so a variant that is
    added or renamed in the Rust source makes the generated file fail to compile (a broken tie). *)
From WacV Require Import Str.

Inductive token : Set :=
| TComment | TBlockComment | TIdent | TString | TPackageName | TPackagePath
| TImportKeyword | TWithKeyword | TTypeKeyword | TTupleKeyword | TListKeyword | TOptionKeyword
| TResultKeyword | TBorrowKeyword | TResourceKeyword | TVariantKeyword | TRecordKeyword
| TFlagsKeyword | TEnumKeyword | TFuncKeyword | TStaticKeyword | TConstructorKeyword
| TU8Keyword | TS8Keyword | TU16Keyword | TS16Keyword | TU32Keyword | TS32Keyword | TU64Keyword
| TS64Keyword | TF32Keyword | TF64Keyword | TCharKeyword | TBoolKeyword | TStringKeyword
| TInterfaceKeyword | TWorldKeyword | TExportKeyword | TNewKeyword | TLetKeyword | TUseKeyword
| TIncludeKeyword | TAsKeyword | TPackageKeyword | TTargetsKeyword
| TSemicolon | TOpenBrace | TCloseBrace | TColon | TEquals | TOpenParen | TCloseParen | TArrow
| TOpenAngle | TCloseAngle | TUnderscore | TOpenBracket | TCloseBracket | TDot | TEllipsis
| TComma | TSlash | TAt.

(** Declaration order of the Rust enum (used only as an injective code). *)
Definition token_code (t : token) : N :=
  match t with
  | TComment => 0 | TBlockComment => 1 | TIdent => 2 | TString => 3 | TPackageName => 4
  | TPackagePath => 5 | TImportKeyword => 6 | TWithKeyword => 7 | TTypeKeyword => 8
  | TTupleKeyword => 9 | TListKeyword => 10 | TOptionKeyword => 11 | TResultKeyword => 12
  | TBorrowKeyword => 13 | TResourceKeyword => 14 | TVariantKeyword => 15 | TRecordKeyword => 16
  | TFlagsKeyword => 17 | TEnumKeyword => 18 | TFuncKeyword => 19 | TStaticKeyword => 20
  | TConstructorKeyword => 21 | TU8Keyword => 22 | TS8Keyword => 23 | TU16Keyword => 24
  | TS16Keyword => 25 | TU32Keyword => 26 | TS32Keyword => 27 | TU64Keyword => 28
  | TS64Keyword => 29 | TF32Keyword => 30 | TF64Keyword => 31 | TCharKeyword => 32
  | TBoolKeyword => 33 | TStringKeyword => 34 | TInterfaceKeyword => 35 | TWorldKeyword => 36
  | TExportKeyword => 37 | TNewKeyword => 38 | TLetKeyword => 39 | TUseKeyword => 40
  | TIncludeKeyword => 41 | TAsKeyword => 42 | TPackageKeyword => 43 | TTargetsKeyword => 44
  | TSemicolon => 45 | TOpenBrace => 46 | TCloseBrace => 47 | TColon => 48 | TEquals => 49
  | TOpenParen => 50 | TCloseParen => 51 | TArrow => 52 | TOpenAngle => 53 | TCloseAngle => 54
  | TUnderscore => 55 | TOpenBracket => 56 | TCloseBracket => 57 | TDot => 58 | TEllipsis => 59
  | TComma => 60 | TSlash => 61 | TAt => 62
  end.

Definition token_eqb (a b : token) : bool := token_code a =? token_code b.

Definition all_tokens : list token :=
  [TComment; TBlockComment; TIdent; TString; TPackageName; TPackagePath;
   TImportKeyword; TWithKeyword; TTypeKeyword; TTupleKeyword; TListKeyword; TOptionKeyword;
   TResultKeyword; TBorrowKeyword; TResourceKeyword; TVariantKeyword; TRecordKeyword;
   TFlagsKeyword; TEnumKeyword; TFuncKeyword; TStaticKeyword; TConstructorKeyword;
   TU8Keyword; TS8Keyword; TU16Keyword; TS16Keyword; TU32Keyword; TS32Keyword; TU64Keyword;
   TS64Keyword; TF32Keyword; TF64Keyword; TCharKeyword; TBoolKeyword; TStringKeyword;
   TInterfaceKeyword; TWorldKeyword; TExportKeyword; TNewKeyword; TLetKeyword; TUseKeyword;
   TIncludeKeyword; TAsKeyword; TPackageKeyword; TTargetsKeyword;
   TSemicolon; TOpenBrace; TCloseBrace; TColon; TEquals; TOpenParen; TCloseParen; TArrow;
   TOpenAngle; TCloseAngle; TUnderscore; TOpenBracket; TCloseBracket; TDot; TEllipsis;
   TComma; TSlash; TAt].

(** Lexer error classes ([lexer::Error]); the three code-point classes carry the character. *)
Inductive lexerr : Set :=
| UnexpectedToken | UnterminatedString | UnterminatedComment
| DisallowedBidirectionalOverride (c : N) | DiscouragedUnicodeCodepoint (c : N)
| DisallowedControlCode (c : N).

(** The three error constructors that take the offending character, as first-class data for the
    generated screening table. *)
Inductive screen_err : Set := SEBidi | SEDiscouraged | SEControl.
Definition mk_screen_err (k : screen_err) (c : N) : lexerr :=
  match k with
  | SEBidi => DisallowedBidirectionalOverride c
  | SEDiscouraged => DiscouragedUnicodeCodepoint c
  | SEControl => DisallowedControlCode c
  end.

(** One arm of the [match ch] in [detect_invalid_input], in source order. *)
Inductive screen_arm : Set :=
| ArmAllow (cs : list N)                      (* 'a' | 'b' => {} *)
| ArmReject (k : screen_err) (cs : list N)    (* 'a' | 'b' => return Err((Error::K(ch), ..)) *)
| ArmControl (k : screen_err)                 (* ch if ch.is_control() => return Err(..) *)
| ArmAsciiControl (k : screen_err)            (* ch if ch.is_ascii_control() => return Err(..) *)
| ArmWild.                                    (* _ => {} *)

Record span : Set := { off : N; slen : N }.
