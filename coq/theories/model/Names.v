(** Model of [crates/wac-types/src/names.rs]. *)
From WacV Require Import Str Ord Semver.

(** [alternate_lookup_key]: slicing positions are ASCII so char- and byte-level coincide. *)
Definition alt_key (name : str) : option (str * version) :=
  match split_first c_at name with
  | None => None
  | Some (base, vs) =>
      match parse_version vs with
      | None => None
      | Some v =>
          if negb (is_nil (pre v)) then None
          else if negb (major v =? 0) then
            match split_first c_dot vs with
            | None => None
            | Some (m, _) => Some (base ++ [c_at] ++ m, v)
            end
          else if negb (minor v =? 0) then
            match split_first c_dot vs with
            | None => None
            | Some (m, rest) =>
                match split_first c_dot rest with
                | None => None
                | Some (mi, _) => Some (base ++ [c_at] ++ m ++ [c_dot] ++ mi, v)
                end
            end
          else None
      end
  end.

Definition compat (a b : str) : bool :=
  if str_eqb a b then true
  else match alt_key a, alt_key b with
       | Some (ka, _), Some (kb, _) => str_eqb ka kb
       | _, _ => false
       end.

(** IndexMap as an insertion-ordered association list. *)
Section IM.
  Context {V : Type}.
  Fixpoint im_get (m : list (str * V)) (k : str) : option V :=
    match m with
    | [] => None
    | (k', v) :: r => if str_eqb k' k then Some v else im_get r k
    end.
  (** [IndexMap::insert]: replace in place (returning the old value) or append. *)
  Fixpoint im_insert (m : list (str * V)) (k : str) (v : V) : list (str * V) * option V :=
    match m with
    | [] => ([(k, v)], None)
    | (k', v') :: r =>
        if str_eqb k' k then ((k', v) :: r, Some v')
        else let '(r', o) := im_insert r k v in ((k', v') :: r', o)
    end.
End IM.

Record namemap (V : Type) := { defs : list (str * V); alts : list (str * (str * version)) }.
Arguments defs {V}. Arguments alts {V}.
Definition nm_empty {V} : namemap V := {| defs := []; alts := [] |}.

(** [NameMap::insert] with [NameMapNoIntern]; [None] = "defined twice" (state restored). *)
Definition nm_insert {V} (m : namemap V) (name : str) (allow_shadowing : bool) (item : V)
  : option (namemap V) :=
  let '(d, prev) := im_insert (defs m) name item in
  match (match prev with
         | Some p => if allow_shadowing then Some d else None
         | None => Some d
         end) with
  | None => None
  | Some d =>
      match alt_key name with
      | None => Some {| defs := d; alts := alts m |}
      | Some (ak, v) =>
          let '(a, prevk) := im_insert (alts m) ak (name, v) in
          match prevk with
          | Some (pk, pv) =>
              if version_ltb v pv then Some {| defs := d; alts := fst (im_insert a ak (pk, pv)) |}
              else Some {| defs := d; alts := a |}
          | None => Some {| defs := d; alts := a |}
          end
      end
  end.

Definition nm_get {V} (m : namemap V) (name : str) : option V :=
  match im_get (defs m) name with
  | Some v => Some v
  | None =>
      match alt_key name with
      | None => None
      | Some (ak, _) =>
          match im_get (alts m) ak with
          | None => None
          | Some (exact, _) => im_get (defs m) exact
          end
      end
  end.

(** A history of non-shadowing inserts; a rejected insert leaves the map unchanged. *)
Definition nm_step {V} (m : namemap V) (op : str * V) : namemap V :=
  match nm_insert m (fst op) false (snd op) with Some m' => m' | None => m end.
Definition nm_build {V} (ops : list (str * V)) : namemap V := fold_left nm_step ops nm_empty.
