(** Model of [crates/wac-parser/src/ast/printer.rs] ([DocumentPrinter]).

    Every print method of the Rust code is transcribed as the sequence of things it does, in order:
    a [write!] of fixed text ([CTok] for a keyword or punctuation, [CSp] for a blank inside the format
    string), a [write!] of [self.source(span)] ([CSrc], tagged with the token kind the grammar has at
    that place), a doc line with its indentation and line feed ([CDoc]), and the calls [self.indent()], [self.newline()], [writeln!],
    [self.inc()], [self.dec()]. The list of commands of a node does not depend on the printer's state;
    the state ([indent], [indented]) lives in the interpreter [layout], which also performs the
    [source(span)] slicing (byte offsets, panics when out of range or inside a character) and produces
    the output as a list of pieces whose concatenation is the printed text.

    [fixes] selects, for three places, between the code as it was when this model was written
    ([unrepaired]) and the repaired code of hooks/fix-c13-*.patch ([repaired]). The theorems are about
    [repaired]; the refutations about [unrepaired]. *)
From Coq Require Import String.
From WacV Require Import Str StrLit Token Lexer Semver Ast.

Record fixes : Set := {
  fx_targets_keyword : bool;   (* package directive prints the keyword `targets` *)
  fx_fill_comma : bool;        (* a fill `...` that is not the last argument is followed by a comma *)
  fx_doc_blank_line : bool     (* blank lines of a doc comment are skipped *) }.

Definition repaired : fixes :=
  {| fx_targets_keyword := true; fx_fill_comma := true; fx_doc_blank_line := true |}.
Definition unrepaired : fixes :=
  {| fx_targets_keyword := false; fx_fill_comma := false; fx_doc_blank_line := false |}.

(* ------------------------------------------------------------------ text helpers *)

(** The literal spelling the printer uses for keywords and punctuation. *)
Definition fixed_text (k : token) : str :=
  match k with
  | TImportKeyword => L"import" | TWithKeyword => L"with" | TTypeKeyword => L"type"
  | TTupleKeyword => L"tuple" | TListKeyword => L"list" | TOptionKeyword => L"option"
  | TResultKeyword => L"result" | TBorrowKeyword => L"borrow" | TResourceKeyword => L"resource"
  | TVariantKeyword => L"variant" | TRecordKeyword => L"record" | TFlagsKeyword => L"flags"
  | TEnumKeyword => L"enum" | TFuncKeyword => L"func" | TStaticKeyword => L"static"
  | TConstructorKeyword => L"constructor"
  | TU8Keyword => L"u8" | TS8Keyword => L"s8" | TU16Keyword => L"u16" | TS16Keyword => L"s16"
  | TU32Keyword => L"u32" | TS32Keyword => L"s32" | TU64Keyword => L"u64" | TS64Keyword => L"s64"
  | TF32Keyword => L"f32" | TF64Keyword => L"f64" | TCharKeyword => L"char" | TBoolKeyword => L"bool"
  | TStringKeyword => L"string" | TInterfaceKeyword => L"interface" | TWorldKeyword => L"world"
  | TExportKeyword => L"export" | TNewKeyword => L"new" | TLetKeyword => L"let" | TUseKeyword => L"use"
  | TIncludeKeyword => L"include" | TAsKeyword => L"as" | TPackageKeyword => L"package"
  | TTargetsKeyword => L"targets"
  | TSemicolon => L";" | TOpenBrace => L"{" | TCloseBrace => L"}" | TColon => L":" | TEquals => L"="
  | TOpenParen => L"(" | TCloseParen => L")" | TArrow => L"->" | TOpenAngle => L"<" | TCloseAngle => L">"
  | TUnderscore => L"_" | TOpenBracket => L"[" | TCloseBracket => L"]" | TDot => L"." | TEllipsis => L"..."
  | TComma => L"," | TSlash => L"/" | TAt => L"@"
  | TComment | TBlockComment | TIdent | TString | TPackageName | TPackagePath => []
  end.

Definition is_nil (s : str) : bool := match s with [] => true | _ => false end.

(** [strip_suffix('\r')] *)
Definition strip_cr (s : str) : str :=
  match rev s with c :: r => if c =? c_cr then rev r else s | [] => s end.

(** Rust [str::lines]: split at line feeds; a carriage return directly before a line feed is removed;
    no final empty line. (The last line, not being terminated by a line feed, keeps a final carriage
    return.) *)
Definition rust_lines (s : str) : list str :=
  let segs := split_on c_nl s in
  map strip_cr (removelast segs) ++ (if is_nil (last segs []) then [] else [last segs []]).

(** The lines the printer writes for a list of doc comments (without the [/// ] prefix). *)
Definition doc_lines_of (fx : fixes) (text : str) : list str :=
  filter (fun l => negb (fx_doc_blank_line fx && is_nil l)) (map trim (rust_lines text)).

(* ------------------------------------------------------------------ commands *)

Inductive cmd : Set :=
| CTok (k : token)               (* fixed text of a keyword or punctuation token *)
| CSrc (k : token) (sp : span)   (* [self.source(sp)]; [k]: the token kind the grammar has here *)
| CSp                            (* one blank inside a format string *)
| CDoc (line : str)              (* one round of the loop of [docs]: [indent(); write!("/// {line}"); newline()] *)
| CIndent                        (* [self.indent()] *)
| CNewline                       (* [self.newline()] *)
| CRawNl                         (* the line feed of a [writeln!] that is not followed by [newline()] bookkeeping *)
| CInc                           (* [self.inc()] *)
| CDec.                          (* [self.dec()] *)

Definition kw (k : token) : list cmd := [CTok k].
Definition src_id (i : ident) : cmd := CSrc TIdent (id_span i).
Definition src_str (s : strlit) : cmd := CSrc TString (s_span s).
Definition src_path (p : package_path) : cmd := CSrc TPackagePath (pp_span p).

(** [for (i, x) in xs.iter().enumerate() { if i > 0 { newline } ; f x ; newline }] *)
Fixpoint spaced {A} (f : A -> list cmd) (first : bool) (l : list A) : list cmd :=
  match l with
  | [] => []
  | x :: r => (if first then [] else [CNewline]) ++ f x ++ [CNewline] ++ spaced f false r
  end.

(** [for (i, x) in xs.iter().enumerate() { if i > 0 { write!(", ") } ; f x }] *)
Fixpoint comma_sep {A} (f : A -> list cmd) (first : bool) (l : list A) : list cmd :=
  match l with
  | [] => []
  | x :: r => (if first then [] else [CTok TComma; CSp]) ++ f x ++ comma_sep f false r
  end.

(** [docs]: every line of every comment, trimmed. *)
Definition p_docs (fx : fixes) (ds : list doc) : list cmd :=
  flat_map (fun d => map CDoc (doc_lines_of fx (fst d))) ds.

(* ------------------------------------------------------------------ types *)

Definition prim_token (p : prim) : token :=
  match p with
  | PU8 => TU8Keyword | PS8 => TS8Keyword | PU16 => TU16Keyword | PS16 => TS16Keyword
  | PU32 => TU32Keyword | PS32 => TS32Keyword | PU64 => TU64Keyword | PS64 => TS64Keyword
  | PF32 => TF32Keyword | PF64 => TF64Keyword | PChar => TCharKeyword | PBool => TBoolKeyword
  | PString => TStringKeyword
  end.

(** [ty]. ([TyBorrowTy] has no Rust counterpart -- see Ast.v -- and is printed the obvious way.) *)
Fixpoint p_ty (t : ty) : list cmd :=
  match t with
  | TyPrim p _ => [CTok (prim_token p)]
  | TyTuple ts _ =>
      [CTok TTupleKeyword; CTok TOpenAngle] ++
      (fix go (first : bool) (l : list ty) : list cmd :=
         match l with
         | [] => []
         | x :: r => (if first then [] else [CTok TComma; CSp]) ++ p_ty x ++ go false r
         end) true ts ++
      [CTok TCloseAngle]
  | TyList t _ => [CTok TListKeyword; CTok TOpenAngle] ++ p_ty t ++ [CTok TCloseAngle]
  | TyOption t _ => [CTok TOptionKeyword; CTok TOpenAngle] ++ p_ty t ++ [CTok TCloseAngle]
  | TyResult None None _ => [CTok TResultKeyword]
  | TyResult None (Some err) _ =>
      [CTok TResultKeyword; CTok TOpenAngle; CTok TUnderscore; CTok TComma; CSp] ++ p_ty err ++ [CTok TCloseAngle]
  | TyResult (Some ok) None _ => [CTok TResultKeyword; CTok TOpenAngle] ++ p_ty ok ++ [CTok TCloseAngle]
  | TyResult (Some ok) (Some err) _ =>
      [CTok TResultKeyword; CTok TOpenAngle] ++ p_ty ok ++ [CTok TComma; CSp] ++ p_ty err ++ [CTok TCloseAngle]
  | TyBorrow i _ => [CTok TBorrowKeyword; CTok TOpenAngle; src_id i; CTok TCloseAngle]
  | TyBorrowTy t _ => [CTok TBorrowKeyword; CTok TOpenAngle] ++ p_ty t ++ [CTok TCloseAngle]
  | TyIdent i => [src_id i]
  end.

Definition p_tys (first : bool) (l : list ty) : list cmd := comma_sep p_ty first l.

Definition p_named_type (n : named_type) : list cmd :=
  [src_id (nt_id n); CTok TColon; CSp] ++ p_ty (nt_ty n).

(** [named_types] *)
Definition p_named_types (l : list named_type) : list cmd := comma_sep p_named_type true l.

(** [func_type]. ([RLNamed] has no Rust counterpart.) *)
Definition p_func_type (f : func_type) : list cmd :=
  [CTok TFuncKeyword; CTok TOpenParen] ++ p_named_types (ft_params f) ++ [CTok TCloseParen] ++
  match ft_results f with
  | RLEmpty => []
  | RLScalar t => [CSp; CTok TArrow; CSp] ++ p_ty t
  | RLNamed rs => [CSp; CTok TArrow; CSp; CTok TOpenParen] ++ p_named_types rs ++ [CTok TCloseParen]
  end.

(* ------------------------------------------------------------------ type declarations *)

(** [variant_case] *)
Definition p_variant_case (fx : fixes) (c : variant_case) : list cmd :=
  p_docs fx (vc_docs c) ++ [CIndent; src_id (vc_id c)] ++
  match vc_ty c with
  | Some t => [CTok TOpenParen] ++ p_ty t ++ [CTok TCloseParen]
  | None => []
  end.

Definition p_resource_method (fx : fixes) (m : resource_method) : list cmd :=
  match m with
  | RMConstructor docs _ ps =>
      p_docs fx docs ++ [CIndent; CTok TConstructorKeyword; CTok TOpenParen] ++ p_named_types ps ++
      [CTok TCloseParen; CTok TSemicolon]
  | RMMethod docs i st f =>
      p_docs fx docs ++ [CIndent; src_id i; CTok TColon; CSp] ++
      (if st then [CTok TStaticKeyword; CSp] else []) ++ p_func_type f ++ [CTok TSemicolon]
  end.

(** [kw id {] newline inc ... dec indent [}] *)
Definition p_block (fx : fixes) (docs : list doc) (k : token) (i : ident) (body : list cmd) : list cmd :=
  p_docs fx docs ++ [CIndent; CTok k; CSp; src_id i; CSp; CTok TOpenBrace; CNewline; CInc] ++ body ++
  [CDec; CIndent; CTok TCloseBrace].

(** [for x in xs { f x; write!(","); newline }] *)
Definition comma_lines {A} (f : A -> list cmd) (l : list A) : list cmd :=
  flat_map (fun x => f x ++ [CTok TComma; CNewline]) l.

(** The bodies of the loops of [record_decl], [flags_decl], [enum_decl] (up to the comma). *)
Definition p_field (fx : fixes) (f : field) : list cmd :=
  p_docs fx (fd_docs f) ++ [CIndent; src_id (fd_id f); CTok TColon; CSp] ++ p_ty (fd_ty f).
Definition p_flag (fx : fixes) (f : flag) : list cmd := p_docs fx (fl_docs f) ++ [CIndent; src_id (fl_id f)].
Definition p_enum_case (fx : fixes) (c : enum_case) : list cmd := p_docs fx (ec_docs c) ++ [CIndent; src_id (ec_id c)].

(** [item_type_decl] / [type_decl] *)
Definition p_item_type_decl (fx : fixes) (d : item_type_decl) : list cmd :=
  match d with
  | DResource docs i ms =>
      p_block fx docs TResourceKeyword i (spaced (p_resource_method fx) true ms)
  | DVariant docs i cs =>
      p_block fx docs TVariantKeyword i (comma_lines (fun c => CIndent :: p_variant_case fx c) cs)
  | DRecord docs i fs => p_block fx docs TRecordKeyword i (comma_lines (p_field fx) fs)
  | DFlags docs i fs => p_block fx docs TFlagsKeyword i (comma_lines (p_flag fx) fs)
  | DEnum docs i cs => p_block fx docs TEnumKeyword i (comma_lines (p_enum_case fx) cs)
  | DAlias docs i k =>
      p_docs fx docs ++ [CIndent; CTok TTypeKeyword; CSp; src_id i; CSp; CTok TEquals; CSp] ++
      match k with TAFunc f => p_func_type f | TAType t => p_ty t end ++ [CTok TSemicolon]
  end.

(* ------------------------------------------------------------------ interfaces and worlds *)

Definition p_use_path (p : use_path) : list cmd :=
  match p with UPPackage p => [src_path p] | UPIdent i => [src_id i] end.

Definition p_use_item (u : use_item) : list cmd :=
  src_id (ui_id u) :: match ui_as u with Some a => [CSp; CTok TAsKeyword; CSp; src_id a] | None => [] end.

(** [use_type] *)
Definition p_use (fx : fixes) (u : use_decl) : list cmd :=
  p_docs fx (u_docs u) ++ [CIndent; CTok TUseKeyword; CSp] ++ p_use_path (u_path u) ++
  [CTok TDot; CTok TOpenBrace; CSp] ++ comma_sep p_use_item true (u_items u) ++
  [CSp; CTok TCloseBrace; CTok TSemicolon].

Definition p_func_type_ref (t : func_type_ref) : list cmd :=
  match t with FRFunc f => p_func_type f | FRIdent i => [src_id i] end.

Definition p_interface_item (fx : fixes) (it : interface_item) : list cmd :=
  match it with
  | IIUse u => p_use fx u
  | IIType d => p_item_type_decl fx d
  | IIExport docs i t =>
      p_docs fx docs ++ [CIndent; src_id i; CTok TColon; CSp] ++ p_func_type_ref t ++ [CTok TSemicolon]
  end.

(** The body shared by [inline_interface], [interface_decl], [world_decl], [resource_decl]:
    newline, inc, items separated by blank lines, dec, indent, [}]. *)
Definition p_items {A} (f : A -> list cmd) (items : list A) : list cmd :=
  [CNewline; CInc] ++ spaced f true items ++ [CDec; CIndent; CTok TCloseBrace].

(** [inline_interface] *)
Definition p_inline_interface (fx : fixes) (items : list interface_item) : list cmd :=
  [CTok TInterfaceKeyword; CSp; CTok TOpenBrace] ++ p_items (p_interface_item fx) items.

Definition p_extern_type (fx : fixes) (t : extern_type) : list cmd :=
  match t with
  | ETIdent i => [src_id i]
  | ETFunc f => p_func_type f
  | ETInterface items => p_inline_interface fx items
  end.

Definition p_world_item_path (fx : fixes) (p : world_item_path) : list cmd :=
  match p with
  | WPNamed i t => [src_id i; CTok TColon; CSp] ++ p_extern_type fx t
  | WPPackage p => [src_path p]
  | WPIdent i => [src_id i]
  end.

Definition p_world_ref (w : world_ref) : list cmd :=
  match w with WRIdent i => [src_id i] | WRPackage p => [src_path p] end.

Definition p_include_item (it : include_item) : list cmd :=
  [CIndent; src_id (ii_from it); CSp; CTok TAsKeyword; CSp; src_id (ii_to it)].

Definition p_world_item (fx : fixes) (w : world_item) : list cmd :=
  match w with
  | WIUse u => p_use fx u
  | WIType d => p_item_type_decl fx d
  | WIImport docs p =>
      p_docs fx docs ++ [CIndent; CTok TImportKeyword; CSp] ++ p_world_item_path fx p ++ [CTok TSemicolon]
  | WIExport docs p =>
      p_docs fx docs ++ [CIndent; CTok TExportKeyword; CSp] ++ p_world_item_path fx p ++ [CTok TSemicolon]
  | WIInclude docs w items =>
      p_docs fx docs ++ [CIndent; CTok TIncludeKeyword; CSp] ++ p_world_ref w ++
      match items with
      | [] => []
      | _ :: _ =>
          [CSp; CTok TWithKeyword; CSp; CTok TOpenBrace; CNewline; CInc] ++
          comma_lines p_include_item items ++
          [CDec; CIndent; CTok TCloseBrace]
      end ++ [CTok TSemicolon]
  end.

Definition p_type_statement (fx : fixes) (t : type_statement) : list cmd :=
  match t with
  | TSInterface docs i items =>
      p_docs fx docs ++ [CIndent; CTok TInterfaceKeyword; CSp; src_id i; CSp; CTok TOpenBrace] ++
      p_items (p_interface_item fx) items
  | TSWorld docs i items =>
      p_docs fx docs ++ [CIndent; CTok TWorldKeyword; CSp; src_id i; CSp; CTok TOpenBrace] ++
      p_items (p_world_item fx) items
  | TSType d => p_item_type_decl fx d
  end.

(* ------------------------------------------------------------------ expressions *)

Definition p_postfix (p : postfix_expr) : list cmd :=
  match p with
  | PAccess _ i => [CTok TDot; src_id i]
  | PNamedAccess _ s => [CTok TOpenBracket; src_str s; CTok TCloseBracket]
  end.

Definition p_arg_name (n : arg_name) : list cmd :=
  match n with ANIdent i => [src_id i] | ANString s => [src_str s] end.

Fixpoint p_expr (fx : fixes) (x : expr) : list cmd :=
  match x with
  | Expr _ p post => p_primary fx p ++ flat_map p_postfix post
  end
with p_primary (fx : fixes) (p : primary_expr) : list cmd :=
  match p with
  | PNew _ pkg args =>
      [CTok TNewKeyword; CSp; CSrc TPackageName (pn_span pkg); CSp; CTok TOpenBrace] ++
      match args with
      | [] => [CTok TCloseBrace]
      | [AFill _] => [CSp; CTok TEllipsis; CSp; CTok TCloseBrace]
      | _ =>
          [CNewline; CInc] ++
          (fix go (l : list inst_arg) : list cmd :=
             match l with
             | [] => []
             | a :: r =>
                 [CIndent] ++
                 match a with
                 | AFill _ => CTok TEllipsis ::
                              (if fx_fill_comma fx then match r with [] => [] | _ :: _ => [CTok TComma] end else [])
                 | _ => p_arg fx a
                 end ++ [CNewline] ++ go r
             end) args ++
          [CDec; CIndent; CTok TCloseBrace]
      end
  | PNested _ inner => [CTok TOpenParen] ++ p_expr fx inner ++ [CTok TCloseParen]
  | PIdent i => [src_id i]
  end
with p_arg (fx : fixes) (a : inst_arg) : list cmd :=
  match a with
  | AInferred i => [src_id i; CTok TComma]
  | ASpread i => [CTok TEllipsis; src_id i; CTok TComma]
  | ANamed n x => p_arg_name n ++ [CTok TColon; CSp] ++ p_expr fx x ++ [CTok TComma]
  | AFill _ => [CTok TEllipsis]
  end.

(* ------------------------------------------------------------------ statements, document *)

Definition p_extern_name (n : extern_name) : list cmd :=
  match n with ENIdent i => [src_id i] | ENString s => [src_str s] end.

Definition p_import_type (fx : fixes) (t : import_type) : list cmd :=
  match t with
  | ITPackage p => [src_path p]
  | ITFunc f => p_func_type f
  | ITInterface items => p_inline_interface fx items
  | ITIdent i => [src_id i]
  end.

Definition p_statement (fx : fixes) (s : statement) : list cmd :=
  match s with
  | SImport docs i name t =>
      p_docs fx docs ++ [CIndent; CTok TImportKeyword; CSp; src_id i] ++
      match name with Some n => [CSp; CTok TAsKeyword; CSp] ++ p_extern_name n | None => [] end ++
      [CTok TColon; CSp] ++ p_import_type fx t ++ [CTok TSemicolon]
  | SType t => p_type_statement fx t
  | SLet docs i x =>
      p_docs fx docs ++ [CIndent; CTok TLetKeyword; CSp; src_id i; CSp; CTok TEquals; CSp] ++ p_expr fx x ++
      [CTok TSemicolon]
  | SExport docs x o =>
      p_docs fx docs ++ [CIndent; CTok TExportKeyword; CSp] ++ p_expr fx x ++
      match o with
      | EONone => []
      | EOSpread _ => [CTok TEllipsis]
      | EORename n => [CSp; CTok TAsKeyword; CSp] ++ p_extern_name n
      end ++ [CTok TSemicolon]
  end.

(** [package_directive] *)
Definition p_directive (fx : fixes) (d : package_directive) : list cmd :=
  [CIndent; CTok TPackageKeyword; CSp; CSrc TPackageName (pn_span (pd_package d))] ++
  match pd_targets d with
  | Some p => (if fx_targets_keyword fx then [CSp; CTok TTargetsKeyword; CSp] else [CSp]) ++ [src_path p]
  | None => []
  end ++ [CTok TSemicolon; CRawNl; CNewline].

(** [document] *)
Definition p_document (fx : fixes) (d : document) : list cmd :=
  p_docs fx (doc_docs d) ++ p_directive fx (doc_directive d) ++ spaced (p_statement fx) true (doc_statements d).

(* ------------------------------------------------------------------ interpreter *)

(** [&self.source[off .. off + len]]: [None] stands for the panic of the slice operation (range outside
    the text, or an end inside a character). *)
Fixpoint drop_bytes (s : str) (n : N) : option str :=
  if n =? 0 then Some s
  else match s with
       | [] => None
       | c :: r => if utf8_len c <=? n then drop_bytes r (n - utf8_len c) else None
       end.

Fixpoint take_bytes (s : str) (n : N) : option str :=
  if n =? 0 then Some []
  else match s with
       | [] => None
       | c :: r => if utf8_len c <=? n
                   then match take_bytes r (n - utf8_len c) with Some t => Some (c :: t) | None => None end
                   else None
       end.

Definition slice (src : str) (sp : span) : option str :=
  match drop_bytes src (off sp) with
  | Some s => take_bytes s (slen sp)
  | None => None
  end.

Inductive piece : Set :=
| PcTok (k : token) (text : str)   (* a token of the output *)
| PcWs (s : str)                   (* blanks, line feeds *)
| PcDoc (line : str).              (* the comment [/// line] and the line feed that ends it *)

Definition doc_prefix : str := L"/// ".
Definition piece_text (p : piece) : str :=
  match p with PcTok _ t => t | PcWs s => s | PcDoc l => doc_prefix ++ l ++ [c_nl] end.
Definition text_of (ps : list piece) : str := flat_map piece_text ps.

(** [space.unwrap_or("    ")], with [space = None] as everywhere in the repository. *)
Definition indent_unit : str := L"    ".
Fixpoint indent_text (n : nat) : str := match n with O => [] | S m => indent_unit ++ indent_text m end.

(** [ind]: [self.indent] ([saturating_add] cannot saturate: the depth is bounded by the size of the
    tree; [saturating_sub] is [pred]); [indented]: [self.indented]. *)
Fixpoint layout (src : str) (ind : nat) (indented : bool) (cs : list cmd) : option (list piece) :=
  match cs with
  | [] => Some []
  | c :: r =>
      let cons := fun (p : piece) (rest : option (list piece)) =>
                    match rest with Some ps => Some (p :: ps) | None => None end in
      match c with
      | CTok k => cons (PcTok k (fixed_text k)) (layout src ind indented r)
      | CSrc k sp => match slice src sp with
                     | Some t => cons (PcTok k t) (layout src ind indented r)
                     | None => None
                     end
      | CSp => cons (PcWs [32]) (layout src ind indented r)
      | CDoc l => if indented then cons (PcDoc l) (layout src ind false r)
                  else cons (PcWs (indent_text ind)) (cons (PcDoc l) (layout src ind false r))
      | CIndent => if indented then layout src ind indented r
                   else cons (PcWs (indent_text ind)) (layout src ind true r)
      | CNewline => cons (PcWs [c_nl]) (layout src ind false r)
      | CRawNl => cons (PcWs [c_nl]) (layout src ind indented r)
      | CInc => layout src (S ind) indented r
      | CDec => layout src (pred ind) indented r
      end
  end.

(** [DocumentPrinter::new(_, src, None).document(doc)]: the pieces written, [None] for a panic. *)
Definition print_pieces (fx : fixes) (src : str) (d : document) : option (list piece) :=
  layout src 0 false (p_document fx d).

Definition print (fx : fixes) (src : str) (d : document) : option str :=
  match print_pieces fx src d with Some ps => Some (text_of ps) | None => None end.
