(** Model of [Package::from_bytes] and [TypeConverter] (crates/wac-types/src/package.rs).

    wasmparser's validator and its type information are external code.  They enter the model as DATA: an
    abstract copy of the validator's type graph ([vgraph]).  One node per distinct validator type
    identifier ([AnyTypeId]: for defined types and resources the identifier includes the alias id, so an
    exported copy of a type is another node with the same contents), the [peel_alias] link of each node,
    the underlying [ResourceId] of resource nodes, and the top-level import / export lists in section
    order.  The harness (harness/src/bin/c08) produces this graph with an independent walk over
    [wasmparser::types::Types].

    The conversion follows the Rust control flow statement by statement: the cache is consulted first
    and filled last, the arenas of [wac_types::Types] grow by appending, the interface / world under
    construction is allocated before its items are converted and is filled item by item, [use_or_own]
    runs between the conversion of an item and its insertion, the self-ownership reset follows
    [use_or_own].  Where the Rust code panics ([panic!], [assert!], [unwrap], arena indexing) the model
    returns [CPanic]; [bail!] is [CErr]; recursion is on explicit fuel. *)
From WacV Require Import Str Types.

(** * The validator's type graph *)
Definition vid := nat.                       (* position of the node in [vg_nodes] *)

Inductive vval := WPrim (p : prim) | WRef (d : vid).          (* ComponentValType *)

Inductive vdef :=                                              (* ComponentDefinedType *)
| WDPrim (p : prim)
| WDRecord (fields : list (str * vval))
| WDVariant (cases : list (str * option vval))
| WDList (v : vval)
| WDMap (k v : vval)
| WDFsl (v : vval) (n : N)
| WDTuple (l : list vval)
| WDFlags (l : list str)
| WDEnum (l : list str)
| WDOption (v : vval)
| WDResult (ok err : option vval)
| WDOwn (r : vid)
| WDBorrow (r : vid)
| WDFuture (o : option vval)
| WDStream (o : option vval).

Inductive vent :=                                              (* ComponentEntityType *)
| EModule (m : vid) | EFunc (f : vid) | EValue (v : vval) | EType (referenced created : vid)
| EInstance (i : vid) | EComponent (c : vid).

Inductive vnode :=
| NDef (d : vdef)
| NFunc (async : bool) (params : list (str * vval)) (result : option vval)
| NInst (exports : list (str * vent))
| NComp (imports exports : list (str * vent))
| NRes (r : nat)                               (* AliasableResourceId: the underlying ResourceId *)
| NMod (m : option moduletype).                (* [None]: a core type [core.rs] refuses ([bail!]) *)

Record vgraph := mkvg {
  vg_nodes : list (vnode * option vid);        (* contents, [peel_alias] *)
  vg_imports : list (str * vent);
  vg_exports : list (str * vent);
  vg_ifnames : list str }.                     (* names [ComponentName] classifies as interface names (oracle) *)

Definition node_of (g : vgraph) (v : vid) : option vnode := option_map fst (nth_error (vg_nodes g) v).
Definition peel_of (g : vgraph) (v : vid) : option vid :=
  match nth_error (vg_nodes g) v with Some (_, p) => p | None => None end.
Definition is_ifname (g : vgraph) (n : str) : bool := existsb (str_eqb n) (vg_ifnames g).

(** * Outcomes *)
Inductive cerr := EMapUnsupported | EModuleUnsupported.
Inductive cpanic := PInvalidCached | PExpectedResource | PDupItem | PDupOwner | PBadIndex.
Inductive cres (A : Type) := COk (a : A) | CErr (e : cerr) | CPanic (p : cpanic) | COutOfFuel.
Arguments COk {A} a. Arguments CErr {A} e. Arguments CPanic {A} p. Arguments COutOfFuel {A}.

Definition bind {A B} (x : cres A) (f : A -> cres B) : cres B :=
  match x with COk a => f a | CErr e => CErr e | CPanic p => CPanic p | COutOfFuel => COutOfFuel end.
Notation "x <- a ;; b" := (bind a (fun x => b)) (at level 61, a at next level, right associativity).
Notation "' p <- a ;; b" := (bind a (fun p => b)) (at level 61, p pattern, a at next level, right associativity).

(** * Converter state *)
Inductive owner := OwIface (i : id) | OwWorld (w : id).
Definition owner_eqb (a b : owner) : bool :=
  match a, b with
  | OwIface x, OwIface y | OwWorld x, OwWorld y => id_eqb x y
  | _, _ => false
  end.
Inductive entity := EnType (t : ty) | EnRes (r : id).

(** A type item of an instance type / a type import of a component type, as seen by [use_or_own]. *)
Record site := mksite { st_node : vid; st_owner : owner; st_name : str; st_rf : vid; st_cr : vid }.

Record cstate := mkcs {
  cs_types : types;
  cs_cache : list (vid * entity);              (* HashMap: newest first, first match wins *)
  cs_resmap : list (nat * id);
  cs_owners : list (vid * (owner * str));
  cs_log : list site }.                        (* GHOST: the successful [use_or_own] calls, oldest first.  Nothing reads
                                                  it; it lets theorems speak about the order of the type items. *)

Fixpoint nassoc {B} (k : nat) (l : list (nat * B)) : option B :=
  match l with
  | [] => None
  | (k', v) :: r => if Nat.eqb k k' then Some v else nassoc k r
  end.

Definition with_types (s : cstate) (t : types) : cstate := mkcs t (cs_cache s) (cs_resmap s) (cs_owners s) (cs_log s).
Definition cache_put (s : cstate) (v : vid) (e : entity) : cstate :=
  mkcs (cs_types s) ((v, e) :: cs_cache s) (cs_resmap s) (cs_owners s) (cs_log s).

(** * Arena primitives ([Types::add_*], [IndexMut]) *)
Definition add_def (t : types) (d : deftype) : id * types :=
  (mkid (t_tag t) (length (t_defined t)),
   mktypes (t_tag t) (t_defined t ++ [d]) (t_resources t) (t_funcs t) (t_interfaces t) (t_worlds t) (t_modules t)).
Definition add_res (t : types) (r : resource) : id * types :=
  (mkid (t_tag t) (length (t_resources t)),
   mktypes (t_tag t) (t_defined t) (t_resources t ++ [r]) (t_funcs t) (t_interfaces t) (t_worlds t) (t_modules t)).
Definition add_func (t : types) (f : functype) : id * types :=
  (mkid (t_tag t) (length (t_funcs t)),
   mktypes (t_tag t) (t_defined t) (t_resources t) (t_funcs t ++ [f]) (t_interfaces t) (t_worlds t) (t_modules t)).
Definition add_if (t : types) (i : interface) : id * types :=
  (mkid (t_tag t) (length (t_interfaces t)),
   mktypes (t_tag t) (t_defined t) (t_resources t) (t_funcs t) (t_interfaces t ++ [i]) (t_worlds t) (t_modules t)).
Definition add_world (t : types) (w : world) : id * types :=
  (mkid (t_tag t) (length (t_worlds t)),
   mktypes (t_tag t) (t_defined t) (t_resources t) (t_funcs t) (t_interfaces t) (t_worlds t ++ [w]) (t_modules t)).
Definition add_mod (t : types) (m : moduletype) : id * types :=
  (mkid (t_tag t) (length (t_modules t)),
   mktypes (t_tag t) (t_defined t) (t_resources t) (t_funcs t) (t_interfaces t) (t_worlds t) (t_modules t ++ [m])).

Fixpoint set_nth {A} (n : nat) (x : A) (l : list A) : list A :=
  match l, n with
  | [], _ => []
  | _ :: r, O => x :: r
  | y :: r, S n' => y :: set_nth n' x r
  end.

(** [self.types[id] = f(self.types[id])]; [None] is the arena's index panic. *)
Definition upd_if (t : types) (i : id) (f : interface -> interface) : option types :=
  match get_if t i with
  | None => None
  | Some x => Some (mktypes (t_tag t) (t_defined t) (t_resources t) (t_funcs t)
                            (set_nth (id_idx i) (f x) (t_interfaces t)) (t_worlds t) (t_modules t))
  end.
Definition upd_world (t : types) (w : id) (f : world -> world) : option types :=
  match get_world t w with
  | None => None
  | Some x => Some (mktypes (t_tag t) (t_defined t) (t_resources t) (t_funcs t) (t_interfaces t)
                            (set_nth (id_idx w) (f x) (t_worlds t)) (t_modules t))
  end.
Definition upd_res (t : types) (r : id) (f : resource -> resource) : option types :=
  match get_res t r with
  | None => None
  | Some x => Some (mktypes (t_tag t) (t_defined t) (set_nth (id_idx r) (f x) (t_resources t)) (t_funcs t)
                            (t_interfaces t) (t_worlds t) (t_modules t))
  end.

(** [IndexMap::insert]: replaces the value in place when the key exists, appends otherwise. *)
Fixpoint imap_insert {B} (k : str) (v : B) (l : list (str * B)) : list (str * B) :=
  match l with
  | [] => [(k, v)]
  | (k', v') :: r => if str_eqb k k' then (k', v) :: r else (k', v') :: imap_insert k v r
  end.

(** [n.contains(':').then(|| n.to_owned())] *)
Definition has_colon (s : str) : bool := existsb (fun c => c =? 58) s.
Definition iface_id_of (name : option str) : option str :=
  match name with Some n => if has_colon n then Some n else None | None => None end.

(** * [find_owner]: walk the alias chain until an owner is recorded.
    [None] = out of fuel (a cyclic [peel_alias] chain; impossible for validator output). *)
Fixpoint find_owner (fuel : nat) (g : vgraph) (ow : list (vid * (owner * str))) (v : vid)
  : option (option (owner * str)) :=
  match fuel with
  | O => None
  | S f =>
    match nassoc v ow with
    | Some x => Some (Some x)
    | None => match peel_of g v with
              | Some next => find_owner f g ow next
              | None => Some None
              end
    end
  end.

(** * [use_or_own] *)
(** [self.owners.entry(created).or_insert(o)] *)
Definition remember_owner (cr : vid) (o : owner * str) (s : cstate) : cstate :=
  match nassoc cr (cs_owners s) with
  | Some _ => s
  | None => mkcs (cs_types s) (cs_cache s) (cs_resmap s) ((cr, o) :: cs_owners s) (cs_log s)
  end.
Definition log_site (x : site) (s : cstate) : cstate :=
  mkcs (cs_types s) (cs_cache s) (cs_resmap s) (cs_owners s) (cs_log s ++ [x]).

Definition use_or_own (fuel : nat) (g : vgraph) (vn : vid) (ow : owner) (name : str) (referenced created : vid) (s : cstate)
  : cres cstate :=
  match find_owner fuel g (cs_owners s) referenced with
  | None => COutOfFuel
  | Some (Some (other, orig)) =>
    s1 <- match other with
          | OwIface i =>
            if owner_eqb ow other then COk s
            else
              let used : used := (i, if str_eqb name orig then None else Some orig) in
              match ow with
              | OwIface me =>
                match upd_if (cs_types s) me (fun x => mkif (i_id x) (imap_insert name used (i_uses x)) (i_exports x)) with
                | Some t => COk (with_types s t)
                | None => CPanic PBadIndex
                end
              | OwWorld me =>
                match upd_world (cs_types s) me
                        (fun x => mkworld (w_id x) (imap_insert name used (w_uses x)) (w_imports x) (w_exports x)) with
                | Some t => COk (with_types s t)
                | None => CPanic PBadIndex
                end
              end
          | OwWorld _ => COk s
          end ;;
    (* the created identifier denotes the owner's item as well *)
    COk (log_site (mksite vn ow name referenced created) (remember_owner created (other, orig) s1))
  | Some None =>
    (* take ownership; [assert!(prev.is_none())] *)
    match nassoc created (cs_owners s) with
    | Some _ => CPanic PDupOwner
    | None => COk (log_site (mksite vn ow name referenced created)
                            (mkcs (cs_types s) (cs_cache s) (cs_resmap s) ((created, (ow, name)) :: cs_owners s) (cs_log s)))
    end
  end.

(** * [resource] *)
Definition c_resource (fuel : nat) (g : vgraph) (name : str) (v : vid) (s : cstate) : cres (id * cstate) :=
  match nassoc v (cs_cache s) with
  | Some (EnRes r) => COk (r, s)
  | Some _ => CPanic PInvalidCached
  | None =>
    match node_of g v with
    | Some (NRes rid) =>
      match nassoc rid (cs_resmap s) with
      | Some src =>
        match find_owner fuel g (cs_owners s) v with
        | None => COutOfFuel
        | Some o =>
          let ownr := match o with Some (OwIface i, _) => Some i | _ => None end in
          let '(a, t) := add_res (cs_types s) (mkres name (Some (ownr, src))) in
          COk (a, cache_put (with_types s t) v (EnRes a))
        end
      | None =>
        let '(r, t) := add_res (cs_types s) (mkres name None) in
        COk (r, mkcs t ((v, EnRes r) :: cs_cache s) ((rid, r) :: cs_resmap s) (cs_owners s) (cs_log s))
      end
    | _ => CPanic PBadIndex
    end
  end.

(** * [module_type] (the core types were read by the harness; [core.rs]'s conversions are not modelled) *)
Definition c_module (g : vgraph) (v : vid) (s : cstate) : cres (id * cstate) :=
  match nassoc v (cs_cache s) with
  | Some (EnType (TModule m)) => COk (m, s)
  | Some _ => CPanic PInvalidCached
  | None =>
    match node_of g v with
    | Some (NMod (Some mt)) =>
      let '(m, t) := add_mod (cs_types s) mt in
      COk (m, cache_put (with_types s t) v (EnType (TModule m)))
    | Some (NMod None) => CErr EModuleUnsupported
    | _ => CPanic PBadIndex
    end
  end.

(** * State-threading maps *)
Fixpoint mapM {A B} (f : A -> cstate -> cres (B * cstate)) (l : list A) (s : cstate) : cres (list B * cstate) :=
  match l with
  | [] => COk ([], s)
  | x :: r => '(y, s1) <- f x s ;; '(ys, s2) <- mapM f r s1 ;; COk (y :: ys, s2)
  end.
Definition optM {A B} (f : A -> cstate -> cres (B * cstate)) (o : option A) (s : cstate) : cres (option B * cstate) :=
  match o with
  | None => COk (None, s)
  | Some x => '(y, s1) <- f x s ;; COk (Some y, s1)
  end.
Definition named {K A B} (f : A -> cstate -> cres (B * cstate)) (kv : K * A) (s : cstate) : cres ((K * B) * cstate) :=
  '(y, s1) <- f (snd kv) s ;; COk ((fst kv, y), s1).

(** * [component_defined_type] / [component_val_type] *)
Definition res_of_cache (s : cstate) (r : vid) : cres id :=
  match nassoc r (cs_cache s) with
  | Some (EnRes x) => COk x
  | _ => CPanic PExpectedResource
  end.

Section DefinedBody.
  Variable rec_def : vid -> cstate -> cres (valtype * cstate).
  Definition val_body (v : vval) (s : cstate) : cres (valtype * cstate) :=
    match v with
    | WPrim p => COk (VPrim p, s)
    | WRef d => rec_def d s
    end.
  Definition mk_def (d : deftype) (s : cstate) : cres (valtype * cstate) :=
    let '(i, t) := add_def (cs_types s) d in COk (VDefined i, with_types s t).
  Definition defined_body (g : vgraph) (d : vid) (s : cstate) : cres (valtype * cstate) :=
    match nassoc d (cs_cache s) with
    | Some (EnType (TValue v)) => COk (v, s)
    | Some _ => CPanic PInvalidCached
    | None =>
      match node_of g d with
      | Some (NDef x) =>
        '(v, s1) <-
          match x with
          | WDPrim p => mk_def (DAlias (VPrim p)) s
          | WDRecord fs => '(fs', s1) <- mapM (named val_body) fs s ;; mk_def (DRecord fs') s1
          | WDVariant cs => '(cs', s1) <- mapM (named (optM val_body)) cs s ;; mk_def (DVariant cs') s1
          | WDList v => '(v', s1) <- val_body v s ;; mk_def (DList v') s1
          | WDTuple l => '(l', s1) <- mapM val_body l s ;; mk_def (DTuple l') s1
          | WDFlags l => mk_def (DFlags l) s
          | WDEnum l => mk_def (DEnum l) s
          | WDOption v => '(v', s1) <- val_body v s ;; mk_def (DOption v') s1
          | WDResult o e => '(o', s1) <- optM val_body o s ;; '(e', s2) <- optM val_body e s1 ;;
                            mk_def (DResult o' e') s2
          | WDBorrow r => x <- res_of_cache s r ;; COk (VBorrow x, s)
          | WDOwn r => x <- res_of_cache s r ;; COk (VOwn x, s)
          | WDStream o => '(o', s1) <- optM val_body o s ;; mk_def (DStream o') s1
          | WDFuture o => '(o', s1) <- optM val_body o s ;; mk_def (DFuture o') s1
          | WDFsl v n => '(v', s1) <- val_body v s ;; mk_def (DFsl v' n) s1
          | WDMap _ _ => CErr EMapUnsupported
          end ;;
        COk (v, cache_put s1 d (EnType (TValue v)))
      | _ => CPanic PBadIndex
      end
    end.
End DefinedBody.

Fixpoint c_defined (fuel : nat) (g : vgraph) (d : vid) (s : cstate) : cres (valtype * cstate) :=
  match fuel with
  | O => COutOfFuel
  | S f => defined_body (c_defined f g) g d s
  end.
Definition c_val (fuel : nat) (g : vgraph) : vval -> cstate -> cres (valtype * cstate) := val_body (c_defined fuel g).

(** * [component_func_type] *)
Definition c_func (fuel : nat) (g : vgraph) (v : vid) (s : cstate) : cres (id * cstate) :=
  match nassoc v (cs_cache s) with
  | Some (EnType (TFunc f)) => COk (f, s)
  | Some _ => CPanic PInvalidCached
  | None =>
    match node_of g v with
    | Some (NFunc a ps r) =>
      '(ps', s1) <- mapM (named (c_val fuel g)) ps s ;;
      '(r', s2) <- optM (c_val fuel g) r s1 ;;
      let '(f, t) := add_func (cs_types s2) (mkfunc ps' r' a) in
      COk (f, cache_put (with_types s2 t) v (EnType (TFunc f)))
    | _ => CPanic PBadIndex
    end
  end.

(** * [entity], [ty], [component_instance_type], [component_type] *)

(** [self.types[id].exports.insert(name, export)] followed by [assert!(prev.is_none())] *)
Definition put_if_export (me : id) (name : str) (k : kind) (s : cstate) : cres cstate :=
  match get_if (cs_types s) me with
  | None => CPanic PBadIndex
  | Some x =>
    match assoc name (i_exports x) with
    | Some _ => CPanic PDupItem
    | None =>
      match upd_if (cs_types s) me (fun x => mkif (i_id x) (i_uses x) (i_exports x ++ [(name, k)])) with
      | Some t => COk (with_types s t)
      | None => CPanic PBadIndex
      end
    end
  end.
Definition put_world_import (me : id) (name : str) (k : kind) (s : cstate) : cres cstate :=
  match get_world (cs_types s) me with
  | None => CPanic PBadIndex
  | Some x =>
    match assoc name (w_imports x) with
    | Some _ => CPanic PDupItem
    | None =>
      match upd_world (cs_types s) me
              (fun x => mkworld (w_id x) (w_uses x) (w_imports x ++ [(name, k)]) (w_exports x)) with
      | Some t => COk (with_types s t)
      | None => CPanic PBadIndex
      end
    end
  end.
Definition put_world_export (me : id) (name : str) (k : kind) (s : cstate) : cres cstate :=
  match get_world (cs_types s) me with
  | None => CPanic PBadIndex
  | Some x =>
    match assoc name (w_exports x) with
    | Some _ => CPanic PDupItem
    | None =>
      match upd_world (cs_types s) me
              (fun x => mkworld (w_id x) (w_uses x) (w_imports x) (w_exports x ++ [(name, k)])) with
      | Some t => COk (with_types s t)
      | None => CPanic PBadIndex
      end
    end
  end.

(** "Prevent self-referential ownership of any aliased resources in this interface" *)
Definition reset_self_owner (me : id) (k : kind) (s : cstate) : cres cstate :=
  match k with
  | KType (TResource res) =>
    match get_res (cs_types s) res with
    | None => CPanic PBadIndex
    | Some r =>
      match res_alias r with
      | Some (Some o, src) =>
        if id_eqb o me then
          match upd_res (cs_types s) res (fun r => mkres (res_name r) (Some (None, src))) with
          | Some t => COk (with_types s t)
          | None => CPanic PBadIndex
          end
        else COk s
      | _ => COk s
      end
    end
  | _ => COk s
  end.

Section EntityBody.
  Variable fuel : nat.                          (* fuel of the non-recursive helpers *)
  Variable g : vgraph.
  Variable rec_entity : str -> vent -> cstate -> cres (kind * cstate).

  Fixpoint inst_loop (vn : vid) (me : id) (l : list (str * vent)) (s : cstate) : cres cstate :=
    match l with
    | [] => COk s
    | (name, e) :: r =>
      '(k, s1) <- rec_entity name e s ;;
      s2 <- match e with
            | EType rf cr => s' <- use_or_own fuel g vn (OwIface me) name rf cr s1 ;; reset_self_owner me k s'
            | _ => COk s1
            end ;;
      s3 <- put_if_export me name k s2 ;;
      inst_loop vn me r s3
    end.

  Definition instance_body (name : option str) (v : vid) (s : cstate) : cres (id * cstate) :=
    match nassoc v (cs_cache s) with
    | Some (EnType (TInterface i)) => COk (i, s)
    | Some _ => CPanic PInvalidCached
    | None =>
      match node_of g v with
      | Some (NInst exports) =>
        let '(me, t) := add_if (cs_types s) (mkif (iface_id_of name) [] []) in
        s1 <- inst_loop v me exports (with_types s t) ;;
        COk (me, cache_put s1 v (EnType (TInterface me)))
      | _ => CPanic PBadIndex
      end
    end.

  Fixpoint comp_imports (vn : vid) (me : id) (l : list (str * vent)) (s : cstate) : cres cstate :=
    match l with
    | [] => COk s
    | (name, e) :: r =>
      '(k, s1) <- rec_entity name e s ;;
      s2 <- match e with
            | EType rf cr => use_or_own fuel g vn (OwWorld me) name rf cr s1
            | _ => COk s1
            end ;;
      s3 <- put_world_import me name k s2 ;;
      comp_imports vn me r s3
    end.
  Fixpoint comp_exports (me : id) (l : list (str * vent)) (s : cstate) : cres cstate :=
    match l with
    | [] => COk s
    | (name, e) :: r =>
      '(k, s1) <- rec_entity name e s ;;
      s2 <- put_world_export me name k s1 ;;
      comp_exports me r s2
    end.

  Definition component_body (name : option str) (v : vid) (s : cstate) : cres (id * cstate) :=
    match nassoc v (cs_cache s) with
    | Some (EnType (TWorld w)) => COk (w, s)
    | Some _ => CPanic PInvalidCached
    | None =>
      match node_of g v with
      | Some (NComp imports exports) =>
        let '(me, t) := add_world (cs_types s) (mkworld (iface_id_of name) [] [] []) in
        s1 <- comp_imports v me imports (with_types s t) ;;
        s2 <- comp_exports me exports s1 ;;
        COk (me, cache_put s2 v (EnType (TWorld me)))
      | _ => CPanic PBadIndex
      end
    end.

  (** [ty]: dispatch on the variant of the [ComponentAnyTypeId] = the sort of the node. *)
  Definition ty_body (name : str) (v : vid) (s : cstate) : cres (ty * cstate) :=
    match node_of g v with
    | Some (NDef _) => '(x, s1) <- c_defined fuel g v s ;; COk (TValue x, s1)
    | Some (NFunc _ _ _) => '(x, s1) <- c_func fuel g v s ;; COk (TFunc x, s1)
    | Some (NComp _ _) => '(x, s1) <- component_body None v s ;; COk (TWorld x, s1)
    | Some (NInst _) => '(x, s1) <- instance_body None v s ;; COk (TInterface x, s1)
    | Some (NRes _) => '(x, s1) <- c_resource fuel g name v s ;; COk (TResource x, s1)
    | _ => CPanic PBadIndex
    end.

  Definition entity_body (name : str) (e : vent) (s : cstate) : cres (kind * cstate) :=
    match e with
    | EModule m => '(x, s1) <- c_module g m s ;; COk (KModule x, s1)
    | EValue v => '(x, s1) <- c_val fuel g v s ;; COk (KValue x, s1)
    | EType _ created => '(x, s1) <- ty_body name created s ;; COk (KType x, s1)
    | EFunc f => '(x, s1) <- c_func fuel g f s ;; COk (KFunc x, s1)
    | EInstance i => '(x, s1) <- instance_body (Some name) i s ;; COk (KInstance x, s1)
    | EComponent c => '(x, s1) <- component_body (Some name) c s ;; COk (KComponent x, s1)
    end.
End EntityBody.

(** [hfuel] bounds the helpers that do not recurse through instance / component types
    ([c_defined], [find_owner]); [fuel] bounds the nesting of instance / component types. *)
Fixpoint c_entity (hfuel fuel : nat) (g : vgraph) (name : str) (e : vent) (s : cstate) : cres (kind * cstate) :=
  match fuel with
  | O => COutOfFuel
  | S f => entity_body hfuel g (c_entity hfuel f g) name e s
  end.

(** * [Package::from_bytes] after validation: imports, exports, world, instance type, definitions *)
Record package := mkpkg { pk_ty : id; pk_instance : id; pk_defs : list (str * kind) }.

(** [.collect::<Result<IndexMap<_,_>>>()] *)
Fixpoint collect (f : str -> vent -> cstate -> cres (kind * cstate)) (l : list (str * vent))
                 (acc : list (str * kind)) (s : cstate) : cres (list (str * kind) * cstate) :=
  match l with
  | [] => COk (acc, s)
  | (n, e) :: r => '(k, s1) <- f n e s ;; collect f r (imap_insert n k acc) s1
  end.

(** [find_definitions]; [None] = arena index panic *)
Definition definition_of (g : vgraph) (t : types) (nk : str * kind) : option (option (str * kind)) :=
  match snd nk with
  | KType (TWorld w) =>
    match get_world t w with
    | None => None
    | Some x =>
      match w_exports x with
      | [(en, k)] =>
        if is_ifname g en then
          match k with
          | KInstance i => Some (Some (fst nk, KType (TInterface i)))
          | KComponent c => Some (Some (fst nk, KType (TWorld c)))
          | _ => Some None
          end
        else Some None
      | _ => Some None
      end
    end
  | _ => Some None
  end.
Fixpoint find_definitions (g : vgraph) (t : types) (l : list (str * kind)) (acc : list (str * kind))
  : option (list (str * kind)) :=
  match l with
  | [] => Some acc
  | nk :: r =>
    match definition_of g t nk with
    | None => None
    | Some None => find_definitions g t r acc
    | Some (Some (n, k)) => find_definitions g t r (imap_insert n k acc)
    end
  end.

Definition cs_init (t : types) : cstate := mkcs t [] [] [] [].

(** the two conversion loops of [from_bytes]; the final converter state is kept for the theorems *)
Definition conv_items (hfuel fuel : nat) (g : vgraph) (t0 : types)
  : cres (list (str * kind) * list (str * kind) * cstate) :=
  '(imports, s1) <- collect (c_entity hfuel fuel g) (vg_imports g) [] (cs_init t0) ;;
  '(exports, s2) <- collect (c_entity hfuel fuel g) (vg_exports g) [] s1 ;;
  COk (imports, exports, s2).

Definition from_graph (hfuel fuel : nat) (g : vgraph) (t0 : types) : cres (package * types) :=
  '(imports, exports, s2) <- conv_items hfuel fuel g t0 ;;
  let '(w, t1) := add_world (cs_types s2) (mkworld None [] imports exports) in
  let '(i, t2) := add_if t1 (mkif None [] exports) in
  match get_world t2 w with
  | None => CPanic PBadIndex
  | Some x =>
    match find_definitions g t2 (w_exports x) [] with
    | None => CPanic PBadIndex
    | Some defs => COk (mkpkg w i defs, t2)
    end
  end.
