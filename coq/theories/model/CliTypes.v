(** C19 — data types shared by the generated table (gen/CliTable.v), the model (Cli.v) and the
    specification (CliSpec.v).  Nothing here is derived from the source; the generated file
    *uses* these constructors, so a source change that renames a field or adds a flag shows up
    either as a compile error of gen/CliTable.v or as a broken [flags_eq_documented]. *)
From WacV Require Import Str.

(** How a clap field takes its value, decided by the Rust field type:
    [bool] -> switch, [Option<T>] -> optional value, [Vec<T>] -> repeatable value, [T] -> value. *)
Inductive fkind := KSwitch | KOption | KMulti | KValue.

(** One row per field of a [#[derive(Args)]] struct.  A row without long and short name is a
    positional argument. *)
Record flag_row := mk_flag {
  fr_cmd        : str;          (* subcommand name, from the [enum Wac] variant *)
  fr_field      : str;          (* Rust field name *)
  fr_long       : option str;   (* [long] / [long = ".."] *)
  fr_short      : option N;     (* [short] / [short = 'c'] *)
  fr_kind       : fkind;
  fr_default    : option str;   (* [default_value = ".."] *)
  fr_value_name : option str;   (* [value_name = ".."] *)
  fr_parser     : option str;   (* [value_parser = ..], whitespace removed *)
  fr_required   : bool;         (* [required = true] *)
  fr_cfg        : option str    (* [#[cfg(feature = "..")]] on the field *)
}.

Definition fr_positional (r : flag_row) : bool :=
  match fr_long r, fr_short r with None, None => true | _, _ => false end.

(** The two [EncodeOptions] fields the CLI sets (the third, [processor], is set by the library). *)
Record encode_opts := mk_opts { define_components : bool; validate : bool }.

(** The boolean switches of [wac compose]. *)
Record compose_sw := mk_sw { sw_no_validate : bool; sw_wat : bool; sw_import_dependencies : bool }.

(** The boolean switches of [wac plug]. *)
Record plug_sw := mk_psw { psw_wat : bool }.

(** Container used by [wac plug] to group plugs by name: iteration order is either the hash
    order of the process (not a function of the input) or insertion order. *)
Inductive grouping := GroupHash | GroupInsertion.
