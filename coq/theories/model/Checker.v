(** Model of [SubtypeChecker] (crates/wac-types/src/checker.rs), function by function.

    State of a checker = the variance stack [kinds] and the memo [cache] (a set of (sub, super) kind pairs).
    The stack only selects the wording of diagnostics (which side is "expected"); it is modelled because
    it is observable through the error class and because [world]/[module] leave it inverted when they
    return early with [?].

    Results: [Ok], [Err class] (never message text), [Panic] (indexing an arena with a foreign or
    dangling identifier, "aliases should have been resolved", "mismatched stack"), [OutOfFuel]
    (the Rust code would loop/overflow: only possible on cyclic collections). *)
From WacV Require Import Str Types C07Flags.

(** * Diagnostics classes *)
Inductive desc :=
| Dfunction | Dinstance | Dcomponent | Dmodule | Dvalue               (* ItemKind::desc *)
| Dresource | Dfunctype | Dinterface | Dworld | Dmoduletype           (* Type::desc *)
| Dprim (p : prim) | Dborrow | Down                                   (* ValueType::desc *)
| Dtuple | Dlist | Dfsl | Doption | Dresult | Dvariant | Drecord | Dflags | Denum | Dstream | Dfuture.
Inductive cdesc := CDfunc | CDtable | CDmemory | CDglobal | CDtag.    (* Display for CoreExtern *)

Inductive err :=
| EExpFound (e f : desc)                  (* "expected {e}, found {f}" on kinds, types, value and defined types *)
| EResource                               (* "expected resource `..`, found resource `..`" *)
| EFuncAsync (expected_async : bool)
| EFuncParamCount
| EFuncParamName
| EFuncResult (expected_has : bool)
| EInstMissing | EInstUnexpected
| ECompImpMissing | ECompImpUnexpected | ECompExpMissing | ECompExpUnexpected
| EModImpMissing | EModImpUnexpected | EModExpMissing | EModExpUnexpected
| ECoreKind (e f : cdesc) | ECoreFunc
| ETableElem | ETableLimits | ETable64 | ETableShared
| EMemShared | EMem64 | EMemLimits | EMemPage
| EGlobalMut | EGlobalType | EGlobalShared
| EFslSize
| EResultArm (ok_arm expected_has : bool)
| EEnumCount | EEnumName | EFlagsCount | EFlagsName
| ERecordCount | ERecordName | EVariantCount | EVariantName | EVariantPayload (expected_typed : bool)
| ETupleSize
| EPayload (a_has : bool).

Inductive R (A : Type) := Ok (a : A) | Err (e : err) | Panic | OutOfFuel.
Arguments Ok {A} a. Arguments Err {A} e. Arguments Panic {A}. Arguments OutOfFuel {A}.
Definition bind {A B} (r : R A) (k : A -> R B) : R B :=
  match r with Ok a => k a | Err e => Err e | Panic => Panic | OutOfFuel => OutOfFuel end.
Notation "x <- r ;; k" := (bind r (fun x => k)) (at level 61, r at next level, right associativity).
Definition idx {A} (o : option A) : R A := match o with Some a => Ok a | None => Panic end.
Definition ok : R unit := Ok tt.
Definition is_ok {A} (r : R A) : bool := match r with Ok _ => true | _ => false end.

(** * Variance stack *)
Inductive variance := Cov | Contra.
Definition vstack := list variance.                 (* head = top of [kinds] *)
Definition vkind (ks : vstack) : variance := match ks with [] => Cov | k :: _ => k end.
Definition flip (v : variance) : variance := match v with Cov => Contra | Contra => Cov end.
Definition invert (ks : vstack) : vstack := flip (vkind ks) :: ks.
(** [expected_found]: (expected, found). *)
Definition ef {A} (k : variance) (a b : A) : A * A := match k with Cov => (b, a) | Contra => (a, b) end.
Definition ef2 {A B} (k : variance) (a : A) (at_ : B) (b : A) (bt : B) : (A * B) * (A * B) :=
  match k with Cov => ((b, bt), (a, at_)) | Contra => ((a, at_), (b, bt)) end.

(** * Descriptions (can index the arena, can follow aliases) *)
Fixpoint desc_vt (fuel : nat) (t : types) (v : valtype) : R desc :=
  match fuel with
  | O => OutOfFuel
  | S f =>
    match v with
    | VPrim p => Ok (Dprim p)
    | VBorrow _ => Ok Dborrow
    | VOwn _ => Ok Down
    | VDefined d =>
      x <- idx (get_def t d) ;;
      match x with
      | DTuple _ => Ok Dtuple | DList _ => Ok Dlist | DFsl _ _ => Ok Dfsl | DOption _ => Ok Doption
      | DResult _ _ => Ok Dresult | DVariant _ => Ok Dvariant | DRecord _ => Ok Drecord
      | DFlags _ => Ok Dflags | DEnum _ => Ok Denum | DStream _ => Ok Dstream | DFuture _ => Ok Dfuture
      | DAlias v' => desc_vt f t v'
      end
    end
  end.
Definition desc_def (fuel : nat) (t : types) (d : deftype) : R desc :=
  match d with
  | DTuple _ => Ok Dtuple | DList _ => Ok Dlist | DFsl _ _ => Ok Dfsl | DOption _ => Ok Doption
  | DResult _ _ => Ok Dresult | DVariant _ => Ok Dvariant | DRecord _ => Ok Drecord
  | DFlags _ => Ok Dflags | DEnum _ => Ok Denum | DStream _ => Ok Dstream | DFuture _ => Ok Dfuture
  | DAlias v' => desc_vt fuel t v'
  end.
Definition desc_ty (fuel : nat) (t : types) (x : ty) : R desc :=
  match x with
  | TResource _ => Ok Dresource | TFunc _ => Ok Dfunctype | TValue v => desc_vt fuel t v
  | TInterface _ => Ok Dinterface | TWorld _ => Ok Dworld | TModule _ => Ok Dmoduletype
  end.
Definition desc_kind (fuel : nat) (t : types) (k : kind) : R desc :=
  match k with
  | KFunc _ => Ok Dfunction | KType x => desc_ty fuel t x | KInstance _ => Ok Dinstance
  | KComponent _ => Ok Dcomponent | KModule _ => Ok Dmodule | KValue _ => Ok Dvalue
  end.
(** bail!("expected {e}, found {f}") with both descriptions evaluated in argument order. *)
Definition mismatch {A X} (k : variance) (d : types -> X -> R desc) (a : X) (at_ : types) (b : X) (bt : types) : R A :=
  let '((e, et), (f, ft)) := ef2 k a at_ b bt in
  de <- d et e ;; df <- d ft f ;; Err (EExpFound de df).

(** * Alias resolution *)
Fixpoint resolve_vt (fuel : nat) (t : types) (v : valtype) : R valtype :=
  match fuel with
  | O => OutOfFuel
  | S f => match v with
           | VDefined d => x <- idx (get_def t d) ;;
                           match x with DAlias v' => resolve_vt f t v' | _ => Ok v end
           | _ => Ok v
           end
  end.
Fixpoint resolve_res (fuel : nat) (t : types) (r : id) : R id :=
  match fuel with
  | O => OutOfFuel
  | S f => x <- idx (get_res t r) ;;
           match res_source x with Some s => resolve_res f t s | None => Ok r end
  end.

(** * Pure rules ([&self] methods): they read only the current variance [k] *)
Definition resource (fuel : nat) (k : variance) (at_ : types) (a : id) (bt : types) (b : id) : R unit :=
  if id_eqb a b then ok else
  ra <- resolve_res fuel at_ a ;; xa <- idx (get_res at_ ra) ;;
  rb <- resolve_res fuel bt b ;; xb <- idx (get_res bt rb) ;;
  if str_eqb (res_name xa) (res_name xb) then ok else Err EResource.

Definition primitive (k : variance) (a b : prim) : R unit :=
  if prim_eqb a b then ok else let '(e, f) := ef k a b in Err (EExpFound (Dprim e) (Dprim f)).

Section ValueRules.
  (** [rec] = [value_type] one level down. *)
  Variable rec : valtype -> valtype -> R unit.
  Variable k : variance.

  Fixpoint tuple_items (a b : list valtype) : R unit :=
    match a, b with
    | x :: a', y :: b' => _ <- rec x y ;; tuple_items a' b'
    | _, _ => ok                                        (* zip stops at the shorter; lengths were compared *)
    end.
  Definition tuple (a b : list valtype) : R unit :=
    if negb (Nat.eqb (length a) (length b)) then Err ETupleSize else tuple_items a b.

  Fixpoint record_fields (a b : list (str * valtype)) : R unit :=
    match a, b with
    | (an, x) :: a', (bn, y) :: b' =>
      if negb (str_eqb an bn) then Err ERecordName else _ <- rec x y ;; record_fields a' b'
    | _, _ => ok
    end.
  Definition record (a b : list (str * valtype)) : R unit :=
    if negb (Nat.eqb (length a) (length b)) then Err ERecordCount else record_fields a b.

  Definition variant_payload (x y : option valtype) : R unit :=
    match x, y with
    | None, None => ok
    | Some x', Some y' => rec x' y'
    | _, _ => let '(e, f) := ef k x y in
              match e, f with
              | None, Some _ => Err (EVariantPayload false)
              | Some _, None => Err (EVariantPayload true)
              | _, _ => Panic                             (* "expected to be handled" *)
              end
    end.
  Fixpoint variant_cases (a b : list (str * option valtype)) : R unit :=
    match a, b with
    | (an, x) :: a', (bn, y) :: b' =>
      if negb (str_eqb an bn) then Err EVariantName else _ <- variant_payload x y ;; variant_cases a' b'
    | _, _ => ok
    end.
  Definition variant (a b : list (str * option valtype)) : R unit :=
    if negb (Nat.eqb (length a) (length b)) then Err EVariantCount else variant_cases a b.

  (** [.zip().enumerate().find(|(a, b)| a != b)] *)
  Fixpoint names_differ (a b : list str) : bool :=
    match a, b with
    | x :: a', y :: b' => negb (str_eqb x y) || names_differ a' b'
    | _, _ => false
    end.
  Definition enum_type (a b : list str) : R unit :=
    if negb (Nat.eqb (length a) (length b)) then Err EEnumCount
    else if names_differ a b then Err EEnumName else ok.
  Definition flags (a b : list str) : R unit :=
    if negb (Nat.eqb (length a) (length b)) then Err EFlagsCount
    else if names_differ a b then Err EFlagsName else ok.

  Definition result_arm (ok_arm : bool) (x y : option valtype) : R unit :=
    match x, y with
    | None, None => ok
    | Some x', Some y' => rec x' y'
    | _, _ => let '(e, f) := ef k x y in
              match e, f with
              | Some _, None => Err (EResultArm ok_arm true)
              | None, Some _ => Err (EResultArm ok_arm false)
              | _, _ => Panic
              end
    end.
  Definition payload (x y : option valtype) : R unit :=
    match x, y with
    | Some x', Some y' => rec x' y'
    | None, None => ok
    | Some _, None => Err (EPayload true)
    | None, Some _ => Err (EPayload false)
    end.

  Definition defined_type (dfuel : nat) (at_ : types) (a : id) (bt : types) (b : id) : R unit :=
    if id_eqb a b then ok else
    da <- idx (get_def at_ a) ;; db <- idx (get_def bt b) ;;
    match da, db with
    | DTuple x, DTuple y => tuple x y
    | DList x, DList y => rec x y
    | DFsl x n, DFsl y m => if negb (n =? m) then Err EFslSize else rec x y
    | DFuture x, DFuture y => payload x y
    | DStream x, DStream y => payload x y
    | DOption x, DOption y => rec x y
    | DResult ao ae, DResult bo be => _ <- result_arm true ao bo ;; result_arm false ae be
    | DVariant x, DVariant y => variant x y
    | DRecord x, DRecord y => record x y
    | DFlags x, DFlags y => flags x y
    | DEnum x, DEnum y => enum_type x y
    | DAlias _, _ | _, DAlias _ => Panic                 (* "aliases should have been resolved" *)
    | _, _ => mismatch k (desc_def dfuel) da at_ db bt
    end.
End ValueRules.

Fixpoint value_type (fuel : nat) (k : variance) (at_ : types) (a : valtype) (bt : types) (b : valtype) : R unit :=
  match fuel with
  | O => OutOfFuel
  | S f =>
    a' <- resolve_vt fuel at_ a ;; b' <- resolve_vt fuel bt b ;;
    match a', b' with
    | VPrim p, VPrim q => primitive k p q
    | VDefined x, VDefined y => defined_type (fun u v => value_type f k at_ u bt v) k fuel at_ x bt y
    | VBorrow x, VBorrow y | VOwn x, VOwn y => resource fuel k at_ x bt y
    | _, _ => mismatch k (desc_vt fuel) a' at_ b' bt
    end
  end.

Fixpoint func_params (fuel : nat) (k : variance) (at_ : types) (a : list (str * valtype)) (bt : types)
         (b : list (str * valtype)) : R unit :=
  match a, b with
  | (an, x) :: a', (bn, y) :: b' =>
    if negb (str_eqb an bn) then Err EFuncParamName
    else _ <- value_type fuel k at_ x bt y ;; func_params fuel k at_ a' bt b'
  | _, _ => ok
  end.

Definition func (fuel : nat) (k : variance) (at_ : types) (a : id) (bt : types) (b : id) : R unit :=
  if id_eqb a b then ok else
  fa <- idx (get_func at_ a) ;; fb <- idx (get_func bt b) ;;
  let '(e, f) := ef k fa fb in
  if negb (Bool.eqb (f_async fa) (f_async fb)) then Err (EFuncAsync (f_async e)) else
  if negb (Nat.eqb (length (f_params fa)) (length (f_params fb))) then Err EFuncParamCount else
  _ <- func_params fuel k at_ (f_params fa) bt (f_params fb) ;;
  match f_result fa, f_result fb with
  | None, None => ok
  | Some x, Some y => value_type fuel k at_ x bt y
  | _, _ => match f_result e, f_result f with
            | Some _, None => Err (EFuncResult true)
            | None, Some _ => Err (EFuncResult false)
            | _, _ => Panic                               (* "should already be handled" *)
            end
  end.

(** ** Core externs *)
Definition limits_match (ai : N) (am : option N) (bi : N) (bm : option N) : bool :=
  (bi <=? ai) && match am, bm with
                 | Some x, Some y => x <=? y
                 | None, Some _ => false
                 | _, _ => true
                 end.
Definition opt_N_eqb (a b : option N) : bool :=
  match a, b with Some x, Some y => x =? y | None, None => true | _, _ => false end.
(** [apsl != bpsl] on the two [Option<u32>]s -- or, once the repair of the known finding
    "memory-default-page-size" is in the source, [apsl.unwrap_or(16) != bpsl.unwrap_or(16)].  Which of the two the
    source currently contains is read from checker.rs on every run (gen/C07Flags.v). *)
Definition psl_or_default (p : option N) : N := match p with Some x => x | None => 16 end.
Definition page_size_eqb (a b : option N) : bool :=
  if psl_default_normalised then psl_or_default a =? psl_or_default b else opt_N_eqb a b.
Definition cdesc_of (c : coreextern) : cdesc :=
  match c with CEFunc _ => CDfunc | CETable _ _ _ _ _ => CDtable | CEMemory _ _ _ _ _ => CDmemory
             | CEGlobal _ _ _ => CDglobal | CETag _ => CDtag end.
Definition core_func (a b : corefunc) : R unit := if corefunc_eqb a b then ok else Err ECoreFunc.
Definition core_extern (k : variance) (a b : coreextern) : R unit :=
  match a, b with
  | CEFunc x, CEFunc y => core_func x y
  | CETable ae ai am a64 ash, CETable be bi bm b64 bsh =>
    if negb (reftype_eqb ae be) then Err ETableElem
    else if negb (limits_match ai am bi bm) then Err ETableLimits
    else if negb (Bool.eqb a64 b64) then Err ETable64
    else if negb (Bool.eqb ash bsh) then Err ETableShared else ok
  | CEMemory a64 ash ai am ap, CEMemory b64 bsh bi bm bp =>
    if negb (Bool.eqb ash bsh) then Err EMemShared
    else if negb (Bool.eqb a64 b64) then Err EMem64
    else if negb (limits_match ai am bi bm) then Err EMemLimits
    else if negb (page_size_eqb ap bp) then Err EMemPage else ok
  | CEGlobal av amut ash, CEGlobal bv bmut bsh =>
    if negb (Bool.eqb amut bmut) then Err EGlobalMut
    else if negb (coretype_eqb av bv) then Err EGlobalType
    else if negb (Bool.eqb ash bsh) then Err EGlobalShared else ok
  | CETag x, CETag y => core_func x y
  | _, _ => let '(e, f) := ef k a b in Err (ECoreKind (cdesc_of e) (cdesc_of f))
  end.

(** * Stateful rules ([&mut self]) *)
Record st := mkst { ks : vstack; cache : list (kind * kind) }.
Definition pair_eqb (p q : kind * kind) : bool := kind_eqb (fst p) (fst q) && kind_eqb (snd p) (snd q).
Definition cache_mem (p : kind * kind) (c : list (kind * kind)) : bool := existsb (pair_eqb p) c.
Definition set_ks (s : st) (k : vstack) : st := mkst k (cache s).
(** [revert]: pop, panics on an empty stack ("mismatched stack"). *)
Definition revert (s : st) : R st := match ks s with [] => Panic | _ :: r => Ok (set_ks s r) end.

Definition SR := (R unit * st)%type.
(** [let x = r?;] for stateful results: on anything but [Ok] return with the state as it is. *)
Definition sbind (r : SR) (k : st -> SR) : SR := match r with (Ok _, s) => k s | _ => r end.
Definition lift (r : R unit) (s : st) : SR := (r, s).

Section Stateful.
  (** [rec] = [is_subtype] one level down; [vf] = fuel of the value-level rules. *)
  Variable rec : st -> types -> kind -> types -> kind -> SR.
  Variable vf : nat.

  Fixpoint instance_exports (s : st) (at_ : types) (a : list (str * kind)) (bt : types) (b : list (str * kind)) : SR :=
    match b with
    | [] => (ok, s)
    | (k, bk) :: rest =>
      match assoc k a with
      | Some ak => sbind (rec s at_ ak bt bk) (fun s' => instance_exports s' at_ a bt rest)
      | None => (_ <- desc_kind vf bt bk ;;                         (* the message evaluates [b.desc(bt)] *)
                 Err (match vkind (ks s) with Cov => EInstMissing | Contra => EInstUnexpected end), s)
      end
    end.

  Definition interface (s : st) (at_ : types) (a : id) (bt : types) (b : id) : SR :=
    if id_eqb a b then (ok, s) else
    match get_if at_ a, get_if bt b with
    | Some ia, Some ib => instance_exports s at_ (i_exports ia) bt (i_exports ib)
    | _, _ => (Panic, s)
    end.

  (** imports loop of [world]: runs with the inverted stack, arguments swapped *)
  Fixpoint world_imports (prev : variance) (s : st) (at_ : types) (a : list (str * kind)) (bt : types)
           (b : list (str * kind)) : SR :=
    match a with
    | [] => (ok, s)
    | (k, ak) :: rest =>
      match assoc k b with
      | Some bk => sbind (rec s bt bk at_ ak) (fun s' => world_imports prev s' at_ rest bt b)
      | None => (_ <- desc_kind vf at_ ak ;;
                 Err (match prev with Cov => ECompImpMissing | Contra => ECompImpUnexpected end), s)
      end
    end.
  Fixpoint world_exports (s : st) (at_ : types) (a : list (str * kind)) (bt : types) (b : list (str * kind)) : SR :=
    match b with
    | [] => (ok, s)
    | (k, bk) :: rest =>
      match assoc k a with
      | Some ak => sbind (rec s at_ ak bt bk) (fun s' => world_exports s' at_ a bt rest)
      | None => (_ <- desc_kind vf bt bk ;;
                 Err (match vkind (ks s) with Cov => ECompExpMissing | Contra => ECompExpUnexpected end), s)
      end
    end.
  (** no identifier shortcut in [world] *)
  Definition world_ (s : st) (at_ : types) (a : id) (bt : types) (b : id) : SR :=
    match get_world at_ a, get_world bt b with
    | Some wa, Some wb =>
      let prev := vkind (ks s) in
      let s1 := set_ks s (invert (ks s)) in
      sbind (world_imports prev s1 at_ (w_imports wa) bt (w_imports wb)) (fun s2 =>
        match revert s2 with
        | Ok s3 => world_exports s3 at_ (w_exports wa) bt (w_exports wb)
        | _ => (Panic, s2)
        end)
    | _, _ => (Panic, s)
    end.

  Fixpoint module_imports (prev k : variance) (a b : list ((str * str) * coreextern)) : R unit :=
    match a with
    | [] => ok
    | (key, ae) :: rest =>
      match assoc2 key b with
      | Some be => _ <- core_extern k be ae ;; module_imports prev k rest b
      | None => Err (match prev with Cov => EModImpMissing | Contra => EModImpUnexpected end)
      end
    end.
  Fixpoint module_exports (k : variance) (a b : list (str * coreextern)) : R unit :=
    match b with
    | [] => ok
    | (key, be) :: rest =>
      match assoc key a with
      | Some ae => _ <- core_extern Cov ae be ;; module_exports k a rest     (* kinds.push(Covariant) … pop() *)
      | None => Err (match k with Cov => EModExpMissing | Contra => EModExpUnexpected end)
      end
    end.
  Definition module_ (s : st) (at_ : types) (a : id) (bt : types) (b : id) : SR :=
    if id_eqb a b then (ok, s) else
    match get_mod at_ a, get_mod bt b with
    | Some ma, Some mb =>
      let prev := vkind (ks s) in
      let s1 := set_ks s (invert (ks s)) in
      match module_imports prev (vkind (ks s1)) (m_imports ma) (m_imports mb) with
      | Ok _ => (module_exports prev (m_exports ma) (m_exports mb), s)       (* revert() restores [ks s] *)
      | r => (r, s1)                                                          (* early return: stack stays inverted *)
      end
    | _, _ => (Panic, s)
    end.

  Definition ty_ (s : st) (at_ : types) (a : ty) (bt : types) (b : ty) : SR :=
    let k := vkind (ks s) in
    match a, b with
    | TResource x, TResource y => lift (resource vf k at_ x bt y) s
    | TFunc x, TFunc y => lift (func vf k at_ x bt y) s
    | TValue x, TValue y => lift (value_type vf k at_ x bt y) s
    | TInterface x, TInterface y => interface s at_ x bt y
    | TWorld x, TWorld y => world_ s at_ x bt y
    | TModule x, TModule y => module_ s at_ x bt y
    | _, _ => lift (mismatch k (desc_ty vf) a at_ b bt) s
    end.

  Definition is_subtype_ (s : st) (at_ : types) (a : kind) (bt : types) (b : kind) : SR :=
    let k := vkind (ks s) in
    match a, b with
    | KType x, KType y => ty_ s at_ x bt y
    | KFunc x, KFunc y => lift (func vf k at_ x bt y) s
    | KInstance x, KInstance y => interface s at_ x bt y
    | KComponent x, KComponent y => world_ s at_ x bt y
    | KModule x, KModule y => module_ s at_ x bt y
    | KValue x, KValue y => lift (value_type vf k at_ x bt y) s
    | _, _ => lift (mismatch k (desc_kind vf) a at_ b bt) s
    end.
End Stateful.

(** [SubtypeChecker::is_subtype]: memo lookup, structural check, memo insertion on success. *)
Fixpoint is_subtype (fuel : nat) (s : st) (at_ : types) (a : kind) (bt : types) (b : kind) : SR :=
  match fuel with
  | O => (OutOfFuel, s)
  | S f =>
    if cache_mem (a, b) (cache s) then (ok, s)
    else match is_subtype_ (is_subtype f) fuel s at_ a bt b with
         | (Ok u, s') => (Ok u, mkst (ks s') ((a, b) :: cache s'))
         | r => r
         end
  end.

Definition st0 : st := mkst [] [].
(** One check on a fresh checker with an empty memo. *)
Definition check (fuel : nat) (at_ : types) (a : kind) (bt : types) (b : kind) : R unit :=
  fst (is_subtype fuel st0 at_ a bt b).
(** A sequence of checks sharing one checker (what plug.rs, targets.rs and the graph's
    [type_check_cache] do). *)
Fixpoint run_checks (fuel : nat) (s : st) (l : list ((types * kind) * (types * kind))) : list (R unit) * st :=
  match l with
  | [] => ([], s)
  | ((at_, a), (bt, b)) :: r =>
    let '(x, s') := is_subtype fuel s at_ a bt b in
    let '(xs, s'') := run_checks fuel s' r in (x :: xs, s'')
  end.
