(** Models of the two implementations of "does this composition target that world":

    - [resolve_target]  : [AstResolver::validate_target] at the end of
                          crates/wac-parser/src/resolution.rs (runs when the document has a
                          [targets] clause; first failure wins);
    - [standalone_target]: [wac_types::validate_target] in crates/wac-types/src/targets.rs
                          (runs on two decoded binaries, [wac targets]; collects a report).

    Both work on an abstract description of the two sides:
    - a world is three ordered name->kind tables: the interfaces reached through [use]
      ([World::implicit_imported_interfaces], an [IndexMap]), [World::imports], [World::exports];
    - a composition is the ordered list produced by [CompositionGraph::imports()] (name, kind and
      whether the entry is an explicit import node: unsatisfied instantiation arguments first, in node
      order, then explicit import nodes) and the export map ([CompositionGraph::get_export] /
      [World::exports] of the decoded output).

    Kinds are abstract ([K]).  [promote] is [ItemKind::promote]; [sub a b] is the verdict of
    [SubtypeChecker::is_subtype(a, _, b, _)] (an ORACLE here; property C07 is about it).  The checker's
    [invert()]/[revert()] calls only select the wording of error messages ([expected_found], the
    "missing"/"unexpected" texts); the variance that matters is the order of the two arguments, which the
    model keeps: for imports the WORLD's item is the first argument.  The checker's cache only stores
    pairs that succeeded, so a verdict is a function of the pair. *)
From WacV Require Import Str Ord Semver Names Types.

Inductive extern := EImport | EExport.

(** The three target diagnostics of [wac_parser::resolution::Error]. *)
Inductive terror :=
| ImportNotInTarget (name : str)
| TargetMismatch (e : extern) (name : str)
| MissingTargetExport (name : str).

Inductive rverdict := ROk | RErr (e : terror).

(** [TargetValidationReport]: two sets and a map keyed by name (a later insert under the same name
    replaces the earlier one).  Kept in first-insertion order; the [BTree*] iteration order is by key
    and is not observable through membership. *)
Record report := mkreport {
  r_not_in_target : list str;
  r_missing : list str;
  r_mismatched : list (str * extern) }.

(** [SPanic] stands for the two [.unwrap()]s on [NameMap::insert]; see [standalone_never_panics]. *)
Inductive sverdict := SPanic | SReport (r : report).

Section Targets.
  Variable K : Type.
  Variable promote : K -> K.
  Variable sub : K -> K -> bool.

  Record tworld := mktworld {
    tw_implicit : list (str * K);
    tw_imports : list (str * K);
    tw_exports : list (str * K) }.

  Record comp := mkcomp {
    c_imports : list (str * K * bool);      (* bool: explicit import node ([Some(node)]) *)
    c_exports : list (str * K) }.

  (** * Resolution time (exact names) *)

  (** [implicit_imported_interfaces.get(name).or_else(|| world.imports.get(name))] *)
  Definition rt_expected (w : tworld) (name : str) : option K :=
    match im_get (tw_implicit w) name with
    | Some e => Some e
    | None => im_get (tw_imports w) name
    end.

  Fixpoint rt_imports (w : tworld) (l : list (str * K * bool)) : option terror :=
    match l with
    | [] => None
    | (name, item, _) :: r =>
        match rt_expected w name with
        | None => Some (ImportNotInTarget name)
        | Some expected =>
            if sub (promote expected) item then rt_imports w r
            else Some (TargetMismatch EImport name)
        end
    end.

  Fixpoint rt_exports (c : comp) (l : list (str * K)) : option terror :=
    match l with
    | [] => None
    | (name, expected) :: r =>
        match im_get (c_exports c) name with
        | None => Some (MissingTargetExport name)
        | Some export =>
            if sub export (promote expected) then rt_exports c r
            else Some (TargetMismatch EExport name)
        end
    end.

  Definition resolve_target (w : tworld) (c : comp) : rverdict :=
    match rt_imports w (c_imports c) with
    | Some e => RErr e
    | None => match rt_exports c (tw_exports w) with
              | Some e => RErr e
              | None => ROk
              end
    end.

  (** * Stand-alone (semver-aware [NameMap]) *)

  (** [fold] of [map.insert(name, &mut NameMapNoIntern, true, item).unwrap()]; [None] = the unwrap panics. *)
  Fixpoint nm_fill {V} (m : namemap V) (l : list (str * V)) : option (namemap V) :=
    match l with
    | [] => Some m
    | (name, item) :: r =>
        match nm_insert m name true item with
        | Some m' => nm_fill m' r
        | None => None
        end
    end.

  (** [World::all_imports]: implicit interfaces first, then the explicit imports (which shadow). *)
  Definition all_imports (w : tworld) : option (namemap K) :=
    nm_fill nm_empty (tw_implicit w ++ tw_imports w).

  (** [BTreeSet::insert] / [BTreeMap::insert] on first-insertion-ordered lists. *)
  Definition set_add (s : list str) (x : str) : list str :=
    if existsb (str_eqb x) s then s else s ++ [x].
  Definition map_put (m : list (str * extern)) (k : str) (v : extern) : list (str * extern) :=
    fst (im_insert m k v).

  Definition st_import (wi : namemap K) (r : report) (i : str * K * bool) : report :=
    let '(name, item, _) := i in
    match nm_get wi name with
    | None => mkreport (set_add (r_not_in_target r) name) (r_missing r) (r_mismatched r)
    | Some expected =>
        if sub (promote expected) item then r
        else mkreport (r_not_in_target r) (r_missing r) (map_put (r_mismatched r) name EImport)
    end.

  Definition st_export (ce : namemap K) (r : report) (x : str * K) : report :=
    let '(name, expected) := x in
    match nm_get ce name with
    | None => mkreport (r_not_in_target r) (set_add (r_missing r) name) (r_mismatched r)
    | Some export =>
        if sub export (promote expected) then r
        else mkreport (r_not_in_target r) (r_missing r) (map_put (r_mismatched r) name EExport)
    end.

  Definition empty_report : report := mkreport [] [] [].

  Definition standalone_target (w : tworld) (c : comp) : sverdict :=
    match all_imports w with
    | None => SPanic
    | Some wi =>
        let r1 := fold_left (st_import wi) (c_imports c) empty_report in
        match nm_fill nm_empty (c_exports c) with
        | None => SPanic
        | Some ce => SReport (fold_left (st_export ce) (tw_exports w) r1)
        end
    end.

  (** * Resolution time with semver-aware lookups: the code after hooks/fix-c11-semver-targets.patch
      ([world.all_imports(types).get(name, &NameMapNoIntern)] for imports, a [NameMap] folded over
      [CompositionGraph::exports()] for exports).  [None] = one of the [unwrap]s panics. *)
  Fixpoint rs_imports (wi : namemap K) (l : list (str * K * bool)) : option terror :=
    match l with
    | [] => None
    | (name, item, _) :: r =>
        match nm_get wi name with
        | None => Some (ImportNotInTarget name)
        | Some expected =>
            if sub (promote expected) item then rs_imports wi r
            else Some (TargetMismatch EImport name)
        end
    end.

  Fixpoint rs_exports (ce : namemap K) (l : list (str * K)) : option terror :=
    match l with
    | [] => None
    | (name, expected) :: r =>
        match nm_get ce name with
        | None => Some (MissingTargetExport name)
        | Some export =>
            if sub export (promote expected) then rs_exports ce r
            else Some (TargetMismatch EExport name)
        end
    end.

  Definition resolve_target_sv (w : tworld) (c : comp) : option rverdict :=
    match all_imports w with
    | None => None
    | Some wi =>
        match rs_imports wi (c_imports c) with
        | Some e => Some (RErr e)
        | None =>
            match nm_fill nm_empty (c_exports c) with
            | None => None
            | Some ce => match rs_exports ce (tw_exports w) with
                         | Some e => Some (RErr e)
                         | None => Some ROk
                         end
            end
        end
    end.

  (** [impl From<TargetValidationReport> for TargetValidationResult] *)
  Definition report_ok (r : report) : bool :=
    is_nil (r_not_in_target r) && is_nil (r_missing r) && is_nil (r_mismatched r).
  Definition standalone_ok (w : tworld) (c : comp) : bool :=
    match standalone_target w c with SReport r => report_ok r | SPanic => false end.
End Targets.

Arguments mktworld {K}. Arguments tw_implicit {K}. Arguments tw_imports {K}. Arguments tw_exports {K}.
Arguments mkcomp {K}. Arguments c_imports {K}. Arguments c_exports {K}.
Arguments resolve_target {K}. Arguments standalone_target {K}. Arguments standalone_ok {K}.
Arguments rt_expected {K}. Arguments rt_imports {K}. Arguments rt_exports {K}.
Arguments resolve_target_sv {K}. Arguments rs_imports {K}. Arguments rs_exports {K}.
Arguments all_imports {K}. Arguments st_import {K}. Arguments st_export {K}.
Arguments nm_fill {V}.

(** [ItemKind::promote] on the tree denotation of kinds (used by [target_iff_cm_subtype_partial]). *)
Definition tree_promote (t : tree) : tree :=
  match t with
  | XTFunc f => XFunc f
  | XTInst e => XInst e
  | XTComp i e => XComp i e
  | x => x
  end.
