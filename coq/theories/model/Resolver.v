(** Model of the statement/expression half of [crates/wac-parser/src/resolution.rs]
    ([AstResolver::resolve], [import_statement], [let_statement], [export_statement], [expr],
    [primary_expr], [new_expr], [named_instantiation_arg], [inferred_instantiation_arg],
    [spread_instantiation_arg], [find_matching_interface_name], [postfix_expr], [alias_export],
    [infer_export_name], [export_item], [resolve_package], [resolve_package_path],
    [resolve_local_path], [State::register_name/local_item/root_item]) over the C12 AST, producing
    the operations of [Graph.v].

    Control flow follows the Rust source statement by statement; every [panic!/expect/unwrap/index]
    is an explicit [FPanic].  Names of the document are strings; [Graph.v] works with name indexes:
    the universe carries the (bijective) table [ru_intern]/[ru_text] and the model converts at the
    graph boundary only.  Types enter through the universe: item kinds are canonical ids, package
    worlds / instance exports / subtyping / name validity are the tables of [Graph.v]'s [universe],
    extended here with what the resolver reads from the type arena (interface ids, package
    definitions, kind promotion, projection of a path into a kind, the kind of a primitive-only
    function type).

    Out of scope here (property C05): type statements, inline interfaces, function types that mention
    declared types, the [targets] clause; the model answers [FUnsupported] for them.

    Span bookkeeping that only feeds secondary labels ([import_spans], [export_spans],
    [instantiation_spans]) is not modelled: every lookup in those maps is for a node that went
    through the inserting function (imports only through [import_statement], exports only through
    [export_item], instantiations are fresh nodes because the resolver never removes one), so the
    indexing/assert cannot fail. *)
From Coq Require Import List Arith Bool NArith.
From WacV Require Import Str Token Lexer Semver Names Ast Graph.
Import ListNotations.

(** * the universe *)
Record runiverse := {
  ru_graph :> universe;
  ru_intern : str -> name;
  ru_text : name -> str;
  (** the [packages] map handed to [resolve]: package key -> index into [u_pkgs] *)
  ru_pkg_find : str -> option version -> option nat;
  (** [Package::definitions] (kinds as stored, not promoted) *)
  ru_pkg_defs : nat -> list (str * kid);
  (** the exports a package path may project into: interface types and instances, world types
      and components ([resolve_package_path], [resolve_local_path]) *)
  ru_proj_exports : kid -> option (list (str * kid));
  (** [ItemKind::promote] *)
  ru_promote : kid -> kid;
  (** [Interface::id] / [World::id] of an instance / component kind *)
  ru_kind_id : kid -> option str;
  (** the [ItemKind::Func] of an inline function type, keyed by [func_sig] *)
  ru_func_kind : str -> option kid }.

(** * outcomes *)
Inductive iop := OpAccess | OpSpread.
Inductive xkind := XImport | XExport.

(** The error variants these paths produce; [at_] is the START of the primary label's span. *)
Inductive rerr :=
  | EUndefinedName (nm : str) (at_ : N)
  | EDuplicateName (nm : str) (at_ : N)
  | EUnknownPackage (nm : str) (at_ : N)
  | EPackageMissingExport (export : str) (at_ : N)
  | EPackagePathMissingExport (export : str) (at_ : N)
  | EMissingComponentImport (import : str) (at_ : N)
  | EMismatchedInstantiationArg (nm : str) (at_ : N)
  | EDuplicateInstantiationArg (nm : str) (at_ : N)
  | EMissingInstantiationArg (nm : str) (at_ : N)
  | ENotAnInstance (op : iop) (at_ : N)
  | EMissingInstanceExport (nm : str) (at_ : N)
  | EExportRequiresAs (at_ : N)
  | EExportConflict (nm : str) (at_ : N)
  | EDuplicateExternName (k : xkind) (nm : str) (at_ : N)
  | EInvalidExternName (k : xkind) (nm : str) (at_ : N)
  | EFillArgumentNotLast (at_ : N)
  | ESpreadInstantiationNoMatch (at_ : N)
  | ESpreadExportNoEffect (at_ : N).

Inductive rpanic :=
  | RGraph (p : psite)          (* a panic inside a graph operation *)
  | RNodeIndex                  (* [graph[node]] with a dead id *)
  | RAliasExpect                (* [.expect("alias should be created")] *)
  | RSpreadExpect               (* [.expect("expected a matching export name")] *)
  | RArgNotInstantiation | RArgAlreadyPassed   (* the two [panic!] arms of [new_expr] *)
  | RRegisterExpect             (* [.expect("package should not exist")] *)
  | RBadUniverse.               (* an operation answered with an outcome of the wrong shape *)

Inductive unsupported := UTypeStatement | UInlineInterface | UFuncType | UTargets.

Inductive fail := FErr (e : rerr) | FPanic (p : rpanic) | FUnsupported (w : unsupported).

(** * state: the graph and the root scope ([Item::Node] only at root) *)
Definition scope := list (str * (nat * N)).
Record rstate := { rs_g : gstate; rs_scope : scope }.
Definition init_state : rstate := {| rs_g := empty_graph; rs_scope := [] |}.

Definition M (A : Type) := rstate -> (A * rstate) + fail.
Definition ret {A} (x : A) : M A := fun st => inl (x, st).
Definition bind {A B} (m : M A) (f : A -> M B) : M B :=
  fun st => match m st with inl (x, st') => f x st' | inr e => inr e end.
Definition err {A} (e : rerr) : M A := fun _ => inr (FErr e).
Definition panic {A} (p : rpanic) : M A := fun _ => inr (FPanic p).
Definition unsupp {A} (w : unsupported) : M A := fun _ => inr (FUnsupported w).
Definition get_g : M gstate := fun st => inl (rs_g st, st).
Definition put_g (g : gstate) : M unit := fun st => inl (tt, {| rs_g := g; rs_scope := rs_scope st |}).
Definition get_scope : M scope := fun st => inl (rs_scope st, st).
Definition put_scope (sc : scope) : M unit := fun st => inl (tt, {| rs_g := rs_g st; rs_scope := sc |}).

Notation "x <- m ;; f" := (bind m (fun x => f)) (at level 61, m at next level, right associativity).
Notation "' p <- m ;; f" := (bind m (fun x => let p := x in f))
  (at level 61, p pattern, m at next level, right associativity).

(** * strings *)
Definition c_slash : N := 47.

(** the text after the last ['/'] ([str::rfind] + slicing); [None] when there is none *)
Fixpoint after_last_slash (s : str) : option str :=
  match s with
  | [] => None
  | c :: r =>
      match after_last_slash r with
      | Some t => Some t
      | None => if c =? c_slash then Some r else None
      end
  end.

(** ... cut at the first ['@'] *)
Definition before_at (s : str) : str :=
  match split_first c_at s with Some (b, _) => b | None => s end.

Definition last_segment (n : str) : option str :=
  match after_last_slash n with Some t => Some (before_at t) | None => None end.

Definition has_key {V} (m : list (str * V)) (k : str) : bool :=
  match im_get m k with Some _ => true | None => false end.

(** [find_matching_interface_name] *)
Definition find_matching_interface_name {V} (nm : str) (externs : list (str * V)) : option str :=
  if has_key externs nm then None else
  match filter (fun p => match last_segment (fst p) with Some t => str_eqb t nm | None => false end) externs with
  | [p] => Some (fst p)
  | _ => None
  end.

Definition version_eqb (a b : version) : bool :=
  (major a =? major b) && (minor a =? minor b) && (patch a =? patch b)
  && str_eqb (pre a) (pre b) && str_eqb (build a) (build b).

(** * function types of primitives *)
Definition prim_name (p : prim) : str :=
  match p with
  | PU8 => [117;56] | PS8 => [115;56] | PU16 => [117;49;54] | PS16 => [115;49;54]
  | PU32 => [117;51;50] | PS32 => [115;51;50] | PU64 => [117;54;52] | PS64 => [115;54;52]
  | PF32 => [102;51;50] | PF64 => [102;54;52] | PChar => [99;104;97;114] | PBool => [98;111;111;108]
  | PString => [115;116;114;105;110;103]
  end.

Fixpoint params_sig (l : list named_type) : option str :=
  match l with
  | [] => Some []
  | p :: r =>
      match nt_ty p, params_sig r with
      | TyPrim t _, Some s => Some (id_string (nt_id p) ++ 58 :: prim_name t ++ 44 :: s)
      | _, _ => None
      end
  end.

(** [name:type,]* followed by [>type] for a scalar result *)
Definition func_sig (f : func_type) : option str :=
  match params_sig (ft_params f), ft_results f with
  | Some ps, RLEmpty => Some ps
  | Some ps, RLScalar (TyPrim t _) => Some (ps ++ 62 :: prim_name t)
  | _, _ => None
  end.

Section Resolver.
  Variable u : runiverse.
  (** [self.0.directive.package.name] *)
  Variable self_name : str.

  Definition text_items (l : list (name * kid)) : list (str * kid) :=
    map (fun p => (ru_text u (fst p), snd p)) l.

  (** exports of an instance kind, with their texts *)
  Definition inst_exports (k : kid) : option (list (str * kid)) :=
    match u_inst_exports u k with Some l => Some (text_items l) | None => None end.

  (** [Item::kind]: [graph[id].item_kind()] *)
  Definition kind_of (n : nat) : M kid :=
    g <- get_g ;;
    match get_node g n with Some nd => ret (nitem nd) | None => panic RNodeIndex end.

  (** lifting of a graph operation *)
  Definition gop (f : gstate -> gstate * outcome) : M outcome :=
    g <- get_g ;; let '(g', o) := f g in _ <- put_g g' ;; ret o.

  (** ** scopes *)
  Definition local_item (id : ident) : M nat :=
    sc <- get_scope ;;
    match im_get sc (id_string id) with
    | Some (n, _) => ret n
    | None => err (EUndefinedName (id_string id) (off (id_span id)))
    end.

  Definition register_name (id : ident) (n : nat) : M unit :=
    sc <- get_scope ;;
    match im_get sc (id_string id) with
    | Some _ => err (EDuplicateName (id_string id) (off (id_span id)))
    | None =>
        _ <- put_scope (sc ++ [(id_string id, (n, off (id_span id)))]) ;;
        g <- get_g ;;
        match get_node g n with
        | None => panic RNodeIndex
        | Some nd =>
            match nname nd with
            | Some _ => ret tt
            | None =>
                o <- gop (fun g => set_name g n (ru_intern u (id_string id))) ;;
                match o with OUnit => ret tt | OPanic p => panic (RGraph p) | _ => panic RBadUniverse end
            end
        end
    end.

  (** ** packages *)
  Definition resolve_package (nm : str) (v : option version) (at_ : N) : M pkgid :=
    match ru_pkg_find u nm v with
    | None => err (EUnknownPackage nm at_)
    | Some p =>
        g <- get_g ;;
        match find_pkg_slot g p with
        | Some slot =>
            match nth_error (pkgs g) slot with
            | Some sl => ret (slot, ps_gen sl)
            | None => panic RBadUniverse
            end
        | None =>
            o <- gop (fun g => register u g p) ;;
            match o with
            | OPkg id => ret id
            | OErr _ => panic RRegisterExpect
            | OPanic q => panic (RGraph q)
            | _ => panic RBadUniverse
            end
        end
    end.

  (** segments of a package path with the start of their spans ([PackagePath::segment_spans]) *)
  Fixpoint segs_from (start : N) (l : list str) : list (str * N) :=
    match l with
    | [] => []
    | s :: r => (s, start) :: segs_from (start + len s + 1) r
    end.
  Definition segment_spans (p : package_path) : list (str * N) :=
    segs_from (off (pp_span p) + len (pp_name p) + 1) (split_on c_slash (pp_segments p)).

  (** the projection loop shared by both path resolvers: [mk] builds the error of a missing export *)
  Fixpoint project (mk : str -> N -> rerr) (k : kid) (l : list (str * N)) : M kid :=
    match l with
    | [] => ret k
    | (s, at_) :: r =>
        match ru_proj_exports u k with
        | None => err (mk s at_)
        | Some ex => match im_get ex s with Some k' => project mk k' r | None => err (mk s at_) end
        end
    end.

  Definition resolve_local_path (p : package_path) : M kid :=
    match segment_spans p with
    | [] => panic RBadUniverse                      (* [segments.next().unwrap()] on a non-empty split *)
    | (s, at_) :: r =>
        sc <- get_scope ;;
        match im_get sc s with
        | None => err (EUndefinedName s at_)
        | Some (n, _) => k <- kind_of n ;; project EPackagePathMissingExport k r
        end
    end.

  Definition resolve_package_path (p : package_path) : M kid :=
    if str_eqb (pp_name p) self_name then resolve_local_path p else
    id <- resolve_package (pp_name p) (pp_version p) (off (pp_span p)) ;;
    g <- get_g ;;
    match get_pkg g id with
    | None => panic (RGraph PInvalidPackageId)
    | Some pi =>
        match segment_spans p with
        | [] => panic RBadUniverse
        | (s, at_) :: r =>
            match im_get (ru_pkg_defs u pi) s with
            | None => err (EPackageMissingExport s at_)
            | Some k => project EPackageMissingExport k r
            end
        end
    end.

  (** ** access *)
  Definition alias_export (item : nat) (nm : str) (at_ : N) (op : iop) : M (option nat) :=
    k <- kind_of item ;;
    match inst_exports k with
    | None => err (ENotAnInstance op at_)
    | Some ex =>
        if has_key ex nm then
          o <- gop (fun g => alias u g item (ru_intern u nm)) ;;
          match o with
          | ONode n => ret (Some n)
          | OPanic p => panic (RGraph p)
          | _ => panic RAliasExpect
          end
        else ret None
    end.

  Definition eval_postfix (item : nat) (pe : postfix_expr) (parent : N) : M nat :=
    match pe with
    | PAccess sp id =>
        k <- kind_of item ;;
        match inst_exports k with
        | None => err (ENotAnInstance OpAccess parent)
        | Some ex =>
            let nm := match find_matching_interface_name (id_string id) ex with
                      | Some n => n | None => id_string id end in
            r <- alias_export item nm parent OpAccess ;;
            match r with Some n => ret n | None => err (EMissingInstanceExport nm (off sp)) end
        end
    | PNamedAccess sp s =>
        r <- alias_export item (s_value s) parent OpAccess ;;
        match r with Some n => ret n | None => err (EMissingInstanceExport (s_value s) (off sp)) end
    end.

  Fixpoint postfix_chain (item : nat) (parent : N) (l : list postfix_expr) : M nat :=
    match l with
    | [] => ret item
    | pe :: r => n <- eval_postfix item pe parent ;; postfix_chain n (off (postfix_span pe)) r
    end.

  (** ** instantiation arguments *)
  Definition argtbl := list (str * (nat * N)).

  Definition node_import_name (g : gstate) (n : nat) : option name + rpanic :=
    match get_node g n with
    | None => inr RNodeIndex
    | Some nd => inl (match nk nd with NImport nm => Some nm | _ => None end)
    end.

  (** the instance id of a kind: [if let ItemKind::Instance(id) = kind { types[id].id }] *)
  Definition instance_id (k : kid) : option str :=
    match u_inst_exports u k with Some _ => ru_kind_id u k | None => None end.

  (** [inferred_instantiation_arg]: the argument name *)
  Definition inferred_name (imports : list (str * kid)) (id : ident) (item : nat) : M str :=
    k <- kind_of item ;;
    let by_id := match instance_id k with
                 | Some i => if has_key imports i then Some i else None
                 | None => None end in
    match by_id with
    | Some i => ret i
    | None =>
        g <- get_g ;;
        match node_import_name g item with
        | inr p => panic p
        | inl imp =>
            let by_source :=
              match imp with
              | Some nm => if has_key imports (ru_text u nm) then Some (ru_text u nm) else None
              | None =>
                  match get_alias_source u g item with
                  | Some (_, nm) => if has_key imports (ru_text u nm) then Some (ru_text u nm) else None
                  | None => None
                  end
              end in
            match by_source with
            | Some nm => ret nm
            | None =>
                match find_matching_interface_name (id_string id) imports with
                | Some nm => ret nm
                | None => ret (id_string id)
                end
            end
        end
    end.

  (** [named_instantiation_arg]: the argument name *)
  Definition named_name (imports : list (str * kid)) (a : arg_name) : str :=
    match a with
    | ANIdent i => match find_matching_interface_name (id_string i) imports with
                   | Some n => n | None => id_string i end
    | ANString s => s_value s
    end.
  Definition arg_name_at (a : arg_name) : N :=
    match a with ANIdent i => off (id_span i) | ANString s => off (s_span s) end.

  Definition tbl_insert (t : argtbl) (nm : str) (item : nat) (at_ : N) : M argtbl :=
    if has_key t nm then err (EDuplicateInstantiationArg nm at_) else ret (t ++ [(nm, (item, at_))]).

  (** the first loop of [new_expr]; [evalf] is the expression evaluator *)
  Definition pass1 (evalf : expr -> M nat) (imports : list (str * kid))
    : list inst_arg -> argtbl -> bool -> M (argtbl * bool) :=
    fix go (args : list inst_arg) (t : argtbl) (req : bool) : M (argtbl * bool) :=
    match args with
    | [] => ret (t, req)
    | a :: r =>
        match a with
        | AInferred id =>
            item <- local_item id ;;
            nm <- inferred_name imports id item ;;
            t' <- tbl_insert t nm item (off (id_span id)) ;;
            go r t' req
        | ASpread _ => go r t req
        | ANamed an e =>
            item <- evalf e ;;
            t' <- tbl_insert t (named_name imports an) item (arg_name_at an) ;;
            go r t' req
        | AFill sp =>
            match r with
            | [] => go r t false
            | _ :: _ => err (EFillArgumentNotLast (off sp))
            end
        end
    end.

  (** the loop of [spread_instantiation_arg] over the expected names *)
  Fixpoint spread_names (item : nat) (at_ : N) (expected : list str) (t : argtbl) (any : bool)
    : M (argtbl * bool) :=
    match expected with
    | [] => ret (t, any)
    | nm :: r =>
        if has_key t nm then spread_names item at_ r t any else
        a <- alias_export item nm at_ OpSpread ;;
        match a with
        | Some n => spread_names item at_ r (t ++ [(nm, (n, at_))]) true
        | None => spread_names item at_ r t any
        end
    end.

  Definition spread_arg (id : ident) (expected : list str) (t : argtbl) : M argtbl :=
    item <- local_item id ;;
    k <- kind_of item ;;
    match u_inst_exports u k with
    | None => err (ENotAnInstance OpSpread (off (id_span id)))
    | Some _ =>
        ' (t', any) <- spread_names item (off (id_span id)) expected t false ;;
        if any : bool then ret t' else err (ESpreadInstantiationNoMatch (off (id_span id)))
    end.

  Fixpoint pass2 (args : list inst_arg) (expected : list str) (t : argtbl) : M argtbl :=
    match args with
    | [] => ret t
    | ASpread id :: r => t' <- spread_arg id expected t ;; pass2 r expected t'
    | _ :: r => pass2 r expected t
    end.

  Fixpoint set_args (inst : nat) (t : argtbl) : M unit :=
    match t with
    | [] => ret tt
    | (nm, (n, at_)) :: r =>
        o <- gop (fun g => set_arg u g inst (ru_intern u nm) n) ;;
        match o with
        | OUnit => set_args inst r
        | OErr InvalidArgumentName => err (EMissingComponentImport nm at_)
        | OErr ArgumentTypeMismatch => err (EMismatchedInstantiationArg nm at_)
        | OErr NodeIsNotAnInstantiation => panic RArgNotInstantiation
        | OErr ArgumentAlreadyPassed => panic RArgAlreadyPassed
        | OPanic p => panic (RGraph p)
        | _ => panic RBadUniverse
        end
    end.

  Definition new_expr (evalf : expr -> M nat) (pkg : package_name) (args : list inst_arg) : M nat :=
    if str_eqb (pn_name pkg) self_name then err (EUnknownPackage (pn_name pkg) (off (pn_span pkg))) else
    id <- resolve_package (pn_name pkg) (pn_version pkg) (off (pn_span pkg)) ;;
    g <- get_g ;;
    match pkg_desc u g id with
    | None => panic (RGraph PInvalidPackageId)
    | Some pd =>
        let imports := text_items (pd_imports pd) in
        ' (t1, req) <- pass1 evalf imports args [] true ;;
        t2 <- pass2 args (map fst imports) t1 ;;
        o <- gop (fun g => instantiate u g id) ;;
        match o with
        | ONode inst =>
            _ <- set_args inst t2 ;;
            if req : bool then
              match find (fun p => negb (has_key t2 (fst p))) imports with
              | Some p => err (EMissingInstantiationArg (fst p) (off (pn_span pkg)))
              | None => ret inst
              end
            else ret inst
        | OPanic p => panic (RGraph p)
        | _ => panic RBadUniverse
        end
    end.

  (** ** expressions *)
  Fixpoint eval_expr (e : expr) : M nat :=
    match e with
    | Expr _ p post => n <- eval_primary p ;; postfix_chain n (off (primary_span p)) post
    end
  with eval_primary (p : primary_expr) : M nat :=
    match p with
    | PNew _ pkg args => new_expr (fun x => eval_expr x) pkg args
    | PNested _ inner => eval_expr inner
    | PIdent i => local_item i
    end.

  (** ** statements *)
  Definition extern_name_str (n : extern_name) : str :=
    match n with ENIdent i => id_string i | ENString s => s_value s end.
  Definition extern_name_at (n : extern_name) : N :=
    match n with ENIdent i => off (id_span i) | ENString s => off (s_span s) end.

  Definition import_statement (id : ident) (nm : option extern_name) (t : import_type) : M unit :=
    (* the import name and the span of the primary label *)
    ' (name, at_) <-
      match nm with
      | Some n => ret (extern_name_str n, extern_name_at n)
      | None =>
          match t with
          | ITPackage p => ret (pp_string p, off (pp_span p))
          | ITFunc _ | ITInterface _ => ret (id_string id, off (id_span id))
          | ITIdent i =>
              n <- local_item i ;;
              k <- kind_of n ;;
              match ru_kind_id u k with
              | Some s => ret (s, off (id_span id))
              | None => ret (id_string id, off (id_span id))
              end
          end
      end ;;
    (* the kind *)
    k <- match t with
         | ITPackage p => resolve_package_path p
         | ITFunc f =>
             match func_sig f with
             | None => unsupp UFuncType
             | Some s => match ru_func_kind u s with Some k => ret k | None => unsupp UFuncType end
             end
         | ITInterface _ => unsupp UInlineInterface
         | ITIdent i => n <- local_item i ;; kind_of n
         end ;;
    o <- gop (fun g => import_ u g (ru_intern u name) (N.to_nat (ru_promote u k))) ;;
    match o with
    | ONode n => register_name id n
    | OErr (ImportAlreadyExists _) => err (EDuplicateExternName XImport name at_)
    | OErr InvalidImportName => err (EInvalidExternName XImport name at_)
    | OPanic p => panic (RGraph p)
    | _ => panic RBadUniverse
    end.

  Definition let_statement (id : ident) (e : expr) : M unit :=
    item <- eval_expr e ;; register_name id item.

  (** [infer_export_name] *)
  Definition infer_export_name (item : nat) : M (option str) :=
    k <- kind_of item ;;
    match instance_id k with
    | Some i => ret (Some i)
    | None =>
        g <- get_g ;;
        match node_import_name g item with
        | inr p => panic p
        | inl (Some nm) => ret (Some (ru_text u nm))
        | inl None =>
            match get_alias_source u g item with
            | Some (_, nm) => ret (Some (ru_text u nm))
            | None => ret None
            end
        end
    end.

  (** [export_item] *)
  Definition export_item (item : nat) (nm : str) (at_ : N) : M unit :=
    sc <- get_scope ;;
    g <- get_g ;;
    match (match im_get sc nm with
           | Some (n, _) =>
               match get_node g n with
               | None => inr (FPanic RNodeIndex)
               | Some nd => match nk nd with NDef => inr (FErr (EExportConflict nm at_)) | _ => inl tt end
               end
           | None => inl tt
           end) with
    | inr f => fun _ => inr f
    | inl _ =>
        o <- gop (fun g => export_ u g item (ru_intern u nm)) ;;
        match o with
        | OUnit => ret tt
        | OErr (ExportAlreadyExists _) => err (EDuplicateExternName XExport nm at_)
        | OErr InvalidExportName => err (EInvalidExternName XExport nm at_)
        | OPanic p => panic (RGraph p)
        | _ => panic RBadUniverse
        end
    end.

  (** the loop of a spread export over the instance's export names *)
  Fixpoint spread_exports (item : nat) (expr_at dots_at : N) (names : list str) (any : bool) : M bool :=
    match names with
    | [] => ret any
    | nm :: r =>
        g <- get_g ;;
        match alist_get N.eqb (exports g) (ru_intern u nm) with
        | Some _ => spread_exports item expr_at dots_at r any
        | None =>
            a <- alias_export item nm expr_at OpSpread ;;
            match a with
            | None => panic RSpreadExpect
            | Some n => _ <- export_item n nm dots_at ;; spread_exports item expr_at dots_at r true
            end
        end
    end.

  Definition expr_span (e : expr) : span := match e with Expr sp _ _ => sp end.

  Definition export_statement (e : expr) (opts : export_options) : M unit :=
    item <- eval_expr e ;;
    match opts with
    | EONone =>
        o <- infer_export_name item ;;
        match o with
        | None => err (EExportRequiresAs (off (expr_span e)))
        | Some nm => export_item item nm (off (expr_span e))
        end
    | EOSpread sp =>
        k <- kind_of item ;;
        match inst_exports k with
        | None => err (ENotAnInstance OpSpread (off (expr_span e)))
        | Some ex =>
            any <- spread_exports item (off (expr_span e)) (off sp) (map fst ex) false ;;
            if any : bool then ret tt else err (ESpreadExportNoEffect (off (expr_span e)))
        end
    | EORename n => export_item item (extern_name_str n) (extern_name_at n)
    end.

  Definition statement_step (s : statement) : M unit :=
    match s with
    | SImport _ id nm t => import_statement id nm t
    | SType _ => unsupp UTypeStatement
    | SLet _ id e => let_statement id e
    | SExport _ e opts => export_statement e opts
    end.

  Fixpoint statements (l : list statement) : M unit :=
    match l with
    | [] => ret tt
    | s :: r => _ <- statement_step s ;; statements r
    end.
End Resolver.

(** [AstResolver::resolve] *)
Definition resolve (u : runiverse) (d : document) : rstate + fail :=
  let self_name := pn_name (pd_package (doc_directive d)) in
  match statements u self_name (doc_statements d) init_state with
  | inr f => inr f
  | inl (_, st) =>
      match pd_targets (doc_directive d) with
      | Some _ => inr (FUnsupported UTargets)
      | None => inl st
      end
  end.
