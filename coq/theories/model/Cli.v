(** C19 — executable model of the `wac` command line front end
    (src/bin/wac.rs, src/lib.rs, src/commands/{compose,plug,parse,targets}.rs).

    The model contains exactly the plumbing of the CLI.  Everything the CLI delegates to a library
    crate, the file system, the registry or the terminal is a [Section] variable (a stage oracle)
    returning a three-valued result: value / error / panic.  The flag tables, the flag→option
    mapping, the terminal-guard condition, the `--dep` separator, the plug prefix and the
    container used to group plugs come from the GENERATED file gen/CliTable.v. *)
From WacV Require Import Str Show CliTypes CliTable Semver.

(** * Stage results and process outcomes *)

Inductive sres (A : Type) : Type := SOk (a : A) | SErr | SPanic.
Arguments SOk {A} a.
Arguments SErr {A}.
Arguments SPanic {A}.

Definition sres_map {A B} (f : A -> B) (r : sres A) : sres B :=
  match r with SOk a => SOk (f a) | SErr => SErr | SPanic => SPanic end.

(** Where a run stopped.  [StUsage] is a clap error (exit code 2); the others are reported by
    [main] as `error: ...` with exit code 1; a panic anywhere gives exit code 101. *)
Inductive stage :=
| StUsage | StRead | StParse | StRegistryNew | StDiscover | StFsResolve | StRegistry
| StUnknownPackage | StResolve | StTerminal | StEncode | StPrint | StWrite
| StFetch | StSocketRead | StSocketAdd | StPlugName | StPlugAdd | StPlug
| StWitEncode | StWitDecode | StCompRead | StCompDecode | StWorldSelect | StValidateTarget
| StJson.

Inductive status := Success | Failed (s : stage) | Panicked (s : stage).

Record outcome := mk_out {
  o_status        : status;
  o_stdout        : str;                  (* bytes written to stdout *)
  o_writes        : list (str * str);     (* (path, bytes) of completed file writes *)
  o_write_attempt : option str            (* path handed to fs::write, if the run got that far *)
}.

Definition exit_code (o : outcome) : N :=
  match o_status o with
  | Success => 0
  | Failed StUsage => 2
  | Failed _ => 1
  | Panicked _ => 101
  end.

(** [main] prints `error: ...` (or clap/panic text) on stderr exactly when the run did not succeed. *)
Definition stderr_nonempty (o : outcome) : bool :=
  match o_status o with Success => false | _ => true end.

Definition fail (s : stage) : outcome := mk_out (Failed s) [] [] None.
Definition panic (s : stage) : outcome := mk_out (Panicked s) [] [] None.

(** The `?` operator on a stage result. *)
Definition bind {A} (r : sres A) (s : stage) (k : A -> outcome) : outcome :=
  match r with SOk a => k a | SErr => fail s | SPanic => panic s end.

Definition is_some {A} (o : option A) : bool := match o with Some _ => true | None => false end.
Definition is_nil {A} (l : list A) : bool := match l with [] => true | _ => false end.

(** * The file system around a run

    [std::fs::write(path, bytes)] "will create a file if it does not exist, and will entirely
    replace its contents if it does": whatever [path] held before, it holds exactly [bytes]
    afterwards; no other path changes.  [fs_after prev o] is the content of every path after a run
    with outcome [o] started in a file system with contents [prev]. *)
Definition fs_state := str -> option str.

Fixpoint apply_writes (prev : fs_state) (ws : list (str * str)) : fs_state :=
  match ws with
  | [] => prev
  | (p, b) :: r => apply_writes (fun q => if str_eqb q p then Some b else prev q) r
  end.

Definition fs_after (prev : fs_state) (o : outcome) : fs_state := apply_writes prev (o_writes o).

(** * `--dep PKG=PATH` (fn parse<T, U> in compose.rs / resolve.rs) *)

(** Unicode White_Space, the set removed by Rust's [str::trim]. *)
Definition is_ws (c : N) : bool :=
  ((9 <=? c) && (c <=? 13)) || (c =? 32) || (c =? 133) || (c =? 160) || (c =? 5760) ||
  ((8192 <=? c) && (c <=? 8202)) || (c =? 8232) || (c =? 8233) || (c =? 8239) || (c =? 8287) ||
  (c =? 12288).

Fixpoint trim_start (s : str) : str :=
  match s with
  | c :: r => if is_ws c then trim_start r else s
  | [] => []
  end.
Definition trim_end (s : str) : str := rev (trim_start (rev s)).
Definition trim (s : str) : str := trim_end (trim_start s).

(** [s.split_once(SEP)] then [k.trim()], [v.trim()]; [String]/[PathBuf]::from_str never fail.
    [None] is the clap value error "value does not contain `=`". *)
Definition parse_dep (s : str) : option (str * str) :=
  match split_first dep_separator s with
  | None => None
  | Some (k, v) => Some (if dep_trim_key then trim k else k, if dep_trim_value then trim v else v)
  end.

Fixpoint parse_deps (l : list str) : option (list (str * str)) :=
  match l with
  | [] => Some []
  | s :: r => match parse_dep s, parse_deps r with
              | Some kv, Some kvs => Some (kv :: kvs)
              | _, _ => None
              end
  end.

(** [self.deps.into_iter().collect::<HashMap<_,_>>()] then [.get(name)]: the last value wins. *)
Definition overrides_get (ov : list (str * str)) (name : str) : option str :=
  fold_left (fun acc kv => if str_eqb (fst kv) name then Some (snd kv) else acc) ov None.

(** * Writing the result (shared tail of compose and plug) *)

Section Sink.
  Variable print_text : str -> sres str.      (* wasmprinter::print_bytes *)
  Variable write_ok : str -> bool.            (* does fs::write(path, _) succeed *)

  (** [-t] post-processing, then [-o] file or stdout (a newline follows text on stdout). *)
  Definition emit (wat : bool) (output : option str) (b : str) : outcome :=
    bind (if wat then print_text b else SOk b) StPrint (fun out =>
      match output with
      | Some p => if write_ok p then mk_out Success [] [(p, out)] (Some p)
                  else mk_out (Failed StWrite) [] [] (Some p)
      | None => mk_out Success (out ++ (if wat then [10] else [])) [] None
      end).
End Sink.

(** * wac compose *)

Record compose_flags := mk_cf {
  cf_deps_dir : str;            (* --deps-dir, default "deps" *)
  cf_deps     : list str;       (* raw values of every --dep / -d *)
  cf_sw       : compose_sw;     (* --no-validate, -t/--wat, -i/--import-dependencies *)
  cf_output   : option str;     (* -o/--output *)
  cf_registry : option str;     (* --registry *)
  cf_path     : str             (* positional: the WAC source *)
}.

Section Compose.
  Variables Doc Keys Pkgs Res Client : Type.
  Variable read_file : str -> sres str.                       (* fs::read_to_string *)
  Variable parse_doc : str -> sres Doc.                       (* Document::parse *)
  Variable registry_new : option str -> sres Client.          (* RegistryPackageResolver::new *)
  Variable discover : Doc -> sres Keys.                       (* wac_resolver::packages *)
  Variable fs_resolve : str -> (str -> option str) -> Keys -> sres Pkgs.   (* FileSystemPackageResolver *)
  Variable keys_missing : Keys -> Pkgs -> Keys.               (* keys.retain(|k| !packages.contains_key(k)) *)
  Variable keys_is_empty : Keys -> bool.
  Variable registry_resolve : Client -> Keys -> sres Pkgs.
  Variable pkgs_extend : Pkgs -> Pkgs -> Pkgs.
  Variable resolve_doc : Doc -> Pkgs -> sres Res.             (* Document::resolve *)
  Variable encode : Res -> encode_opts -> sres str.           (* Resolution::encode *)
  Variable print_text : str -> sres str.
  Variable write_ok : str -> bool.
  Variable stdout_tty : bool.                                 (* std::io::stdout().is_terminal() *)

  (** src/lib.rs [PackageResolver::resolve]. *)
  Definition resolve_packages (cl0 : option Client) (dir : str) (ov : str -> option str) (d : Doc)
             (k : Pkgs -> outcome) : outcome :=
    bind (discover d) StDiscover (fun keys =>
    bind (fs_resolve dir ov keys) StFsResolve (fun pk =>
    let keys1 := keys_missing keys pk in
    if keys_is_empty keys1 then k pk
    else
      bind (match cl0 with Some c => SOk c | None => registry_new None end) StRegistryNew (fun c =>
      bind (registry_resolve c keys1) StRegistry (fun rp =>
      if keys_is_empty (keys_missing keys1 rp) then k (pkgs_extend pk rp)
      else fail StUnknownPackage)))).

  (** src/commands/compose.rs [ComposeCommand::exec] (after clap has parsed the arguments). *)
  Definition compose (f : compose_flags) : outcome :=
    match parse_deps (cf_deps f) with
    | None => fail StUsage
    | Some deps =>
      bind (read_file (cf_path f)) StRead (fun src =>
      bind (parse_doc src) StParse (fun d =>
      bind (match cf_registry f with
            | Some u => sres_map Some (registry_new (Some u))
            | None => SOk None
            end) StRegistryNew (fun cl =>
      resolve_packages cl (cf_deps_dir f) (overrides_get deps) d (fun pk =>
      bind (resolve_doc d pk) StResolve (fun r =>
      if compose_terminal_guard (cf_sw f) (is_some (cf_output f)) stdout_tty then fail StTerminal
      else
        bind (encode r (opts_of_flags (cf_sw f))) StEncode (fun b =>
        emit print_text write_ok (sw_wat (cf_sw f)) (cf_output f) b))))))
    end.
End Compose.

(** * wac parse *)

Section ParseCmd.
  Variable Doc : Type.
  Variable read_file : str -> sres str.
  Variable parse_doc : str -> sres Doc.
  Variable to_json : Doc -> sres str.          (* serde_json::to_writer_pretty *)

  Definition parse_cmd (path : str) : outcome :=
    bind (read_file path) StRead (fun src =>
    bind (parse_doc src) StParse (fun d =>
    bind (to_json d) StJson (fun js =>
    mk_out Success (js ++ [10]) [] None))).
End ParseCmd.

(** * wac plug *)

Inductive pkg_ref :=
| LocalPath (p : str)
| RegistryPkg (name : str) (ver : option str).

Section PkgRef.
  Variable is_pkg_name : str -> bool.          (* warg_protocol PackageName::new(s).is_ok() *)

  (** [impl FromStr for PackageRef] with the `registry` feature.  [None] = clap value error. *)
  Definition parse_pkg_ref (s : str) : option pkg_ref :=
    let fallback := if is_pkg_name s then RegistryPkg s None else LocalPath s in
    match split_first 64 s with
    | Some (name, ver) =>
        if is_pkg_name name then
          match parse_version ver with
          | Some _ => Some (RegistryPkg name (Some ver))
          | None => None
          end
        else Some fallback
    | None => Some fallback
    end.

  Fixpoint parse_pkg_refs (l : list str) : option (list pkg_ref) :=
    match l with
    | [] => Some []
    | s :: r => match parse_pkg_ref s, parse_pkg_refs r with
                | Some x, Some xs => Some (x :: xs)
                | _, _ => None
                end
    end.
End PkgRef.

(** [Path::file_name]: the last component if it is a normal one.  Empty segments and `.` are
    dropped by [Path::components] (a lone `.` has no file name). *)
Definition ch_dot : N := 46.
Definition ch_slash : N := 47.
Definition path_segments (p : str) : list str :=
  filter (fun s => negb (is_nil s || str_eqb s [ch_dot])) (split_on ch_slash p).
Definition file_name (p : str) : option str :=
  match rev (path_segments p) with
  | [] => None
  | s :: _ => if str_eqb s [ch_dot; ch_dot] then None else Some s
  end.

(** [Path::file_stem] on a file name: up to the last `.`, unless that dot is the first char. *)
Definition stem_of_name (n : str) : str :=
  match split_first ch_dot (rev n) with
  | None => n
  | Some (_, rbefore) => if is_nil rbefore then n else rev rbefore
  end.
Definition file_stem (p : str) : option str := option_map stem_of_name (file_name p).

(** The key under which a plug is grouped. *)
Definition plug_key (r : pkg_ref) : option str :=
  match r with
  | RegistryPkg n _ => Some n
  | LocalPath p => file_stem p
  end.

Fixpoint keyed (l : list pkg_ref) : option (list (str * pkg_ref)) :=
  match l with
  | [] => Some []
  | r :: rest => match plug_key r, keyed rest with
                 | Some k, Some ks => Some ((k, r) :: ks)
                 | _, _ => None
                 end
  end.

(** [plugs_by_name.entry(name).or_default().push(plug)] *)
Fixpoint group_insert {A} (k : str) (v : A) (g : list (str * list A)) : list (str * list A) :=
  match g with
  | [] => [(k, [v])]
  | (k', vs) :: r => if str_eqb k' k then (k', vs ++ [v]) :: r else (k', vs) :: group_insert k v r
  end.
Definition group_plugs {A} (l : list (str * A)) : list (str * list A) :=
  fold_left (fun g kv => group_insert (fst kv) (snd kv) g) l [].

Fixpoint group_lookup {A} (k : str) (g : list (str * list A)) : list A :=
  match g with
  | [] => []
  | (k', vs) :: r => if str_eqb k' k then vs else group_lookup k r
  end.

Section PlugOrder.
  (** Iteration order of a [HashMap] with the given keys (inserted in this order): some
      rearrangement chosen by the process' hash seed -- not a function of the input. *)
  Variable hash_order : list str -> list str.

  Definition iteration_order {A} (g : list (str * list A)) : list (str * list A) :=
    match plug_grouping with
    | GroupInsertion => g
    | GroupHash => map (fun k => (k, group_lookup k g)) (hash_order (map fst g))
    end.

  (** The name under which one plug is registered: [format!("plug:{name}")] for a local path, the
      package name for a registry package, then the index if the group has several members. *)
  Definition reg_name (key : str) (group_size : nat) (i : N) (r : pkg_ref) : str :=
    (match r with LocalPath _ => plug_prefix ++ key | RegistryPkg n _ => n end)
    ++ (if (1 <? N.of_nat group_size) && plug_index_suffix_when_multi then show_N i else []).

  Fixpoint number_from {A} (i : N) (l : list A) : list (N * A) :=
    match l with [] => [] | x :: r => (i, x) :: number_from (i + 1) r end.

  Definition name_group (g : str * list pkg_ref) : list (str * pkg_ref) :=
    map (fun ir => (reg_name (fst g) (length (snd g)) (fst ir) (snd ir), snd ir)) (number_from 0 (snd g)).

  (** The (package name, plug) pairs in registration order. *)
  Definition registrations (ks : list (str * pkg_ref)) : list (str * pkg_ref) :=
    flat_map name_group (iteration_order (group_plugs ks)).
End PlugOrder.

Record plug_flags := mk_pf {
  pf_plugs    : list str;        (* raw values of every --plug *)
  pf_socket   : str;             (* positional *)
  pf_sw       : plug_sw;         (* -t/--wat *)
  pf_output   : option str;      (* -o/--output *)
  pf_registry : option str       (* --registry *)
}.

Section Plug.
  Variables G Id : Type.
  Variable is_pkg_name : str -> bool.
  Variable hash_order : list str -> list str.
  Variable download : option str -> str -> option str -> sres str.   (* registry url, name, version -> path *)
  Variable read_bin : str -> sres str.                                (* fs::read *)
  Variable g_new : G.
  Variable add_bytes : G -> str -> str -> sres (G * Id).   (* Package::from_bytes(name, bytes) + register_package *)
  Variable add_file : G -> str -> str -> sres (G * Id).    (* Package::from_file(name, path) + register_package *)
  Variable do_plug : G -> list Id -> Id -> sres G.         (* wac_graph::plug *)
  Variable encode_g : G -> encode_opts -> sres str.        (* CompositionGraph::encode *)
  Variable print_text : str -> sres str.
  Variable write_ok : str -> bool.
  Variable stdout_tty : bool.

  Definition fetch (reg : option str) (r : pkg_ref) : sres str :=
    match r with
    | LocalPath p => SOk p
    | RegistryPkg n v => download reg n v
    end.

  Fixpoint add_plugs (reg : option str) (g : G) (acc : list Id) (l : list (str * pkg_ref))
           (k : G -> list Id -> outcome) : outcome :=
    match l with
    | [] => k g (rev acc)
    | (name, r) :: rest =>
        bind (fetch reg r) StFetch (fun path =>
        bind (add_file g name path) StPlugAdd (fun gi =>
        add_plugs reg (fst gi) (snd gi :: acc) rest k))
    end.

  (** src/commands/plug.rs [PlugCommand::exec]. *)
  Definition plug (f : plug_flags) : outcome :=
    match parse_pkg_refs is_pkg_name (pf_plugs f), parse_pkg_ref is_pkg_name (pf_socket f) with
    | Some plugs, Some socket =>
      if is_nil plugs then fail StUsage else
      bind (fetch (pf_registry f) socket) StFetch (fun spath =>
      bind (read_bin spath) StSocketRead (fun sbytes =>
      bind (add_bytes g_new plug_socket_name sbytes) StSocketAdd (fun gs =>
      match keyed plugs with
      | None => fail StPlugName
      | Some ks =>
        add_plugs (pf_registry f) (fst gs) [] (registrations hash_order ks) (fun g ids =>
        bind (do_plug g ids (snd gs)) StPlug (fun g' =>
        bind (encode_g g' (plug_opts (pf_sw f))) StEncode (fun b =>
        if plug_terminal_guard (pf_sw f) (is_some (pf_output f)) stdout_tty then fail StTerminal
        else emit print_text write_ok (psw_wat (pf_sw f)) (pf_output f) b)))
      end)))
    | _, _ => fail StUsage
    end.
End Plug.

(** * wac targets *)

(** What [get_wit_world] looks at in the decoded WIT package: an export of the top-level world is
    a world definition if it is a component type whose first export is a component type [w];
    anything else (in particular an interface, which the encoding wraps in a component type whose
    first export is an instance) is not. *)
Inductive wit_export (W : Type) :=
| EWorld (w : W)
| EOther.
Arguments EWorld {W} w.
Arguments EOther {W}.

Fixpoint assoc_str {A} (k : str) (l : list (str * A)) : option A :=
  match l with
  | [] => None
  | (k', v) :: r => if str_eqb k' k then Some v else assoc_str k r
  end.

Definition is_world_export {W} (e : wit_export W) : bool :=
  match e with EOther => false | EWorld _ => true end.

(** Which exports the "only one world" default looks at: every export of the encoded package
    ([targets_default_counts_all_exports], the shape found in targets.rs by the translator) or
    only those that are world types. *)
Definition default_candidates {W} (exports : list (str * wit_export W)) : list (str * wit_export W) :=
  if targets_default_counts_all_exports then exports
  else filter (fun e => is_world_export (snd e)) exports.

Definition select_world {W} (exports : list (str * wit_export W)) (world : option str) : option W :=
  let picked :=
    match world with
    | Some n => assoc_str n exports
    | None => match default_candidates exports with
              | [(_, e)] => Some e
              | _ => None          (* none: "did not contain a world"; several: "multiple worlds" *)
              end
    end in
  match picked with
  | Some (EWorld w) => Some w
  | _ => None                     (* "wit package was not encoded properly" / no such world *)
  end.

Record targets_flags := mk_tf { tf_component : str; tf_wit : str; tf_world : option str }.

Section Targets.
  Variables W C : Type.
  Variable wit_encode : str -> sres str.                         (* wit_parser + wit_component::encode *)
  Variable wit_decode : str -> sres (list (str * wit_export W)). (* Package::from_bytes("wit") *)
  Variable read_bin : str -> sres str.
  Variable comp_decode : str -> sres C.                          (* Package::from_bytes("component") *)
  Variable validate_t : W -> C -> sres unit.                     (* wac_types::validate_target *)

  Definition targets (f : targets_flags) : outcome :=
    bind (wit_encode (tf_wit f)) StWitEncode (fun wb =>
    bind (wit_decode wb) StWitDecode (fun exports =>
    bind (read_bin (tf_component f)) StCompRead (fun cb =>
    bind (comp_decode cb) StCompDecode (fun c =>
    match select_world exports (tf_world f) with
    | None => fail StWorldSelect
    | Some w => bind (validate_t w c) StValidateTarget (fun _ => mk_out Success [] [] None)
    end)))).
End Targets.

(** * clap: which argument vectors a subcommand accepts

    A small model of clap's matching over the generated rows: long options (`--name`,
    `--name=value`), short options (`-x`, `-xvalue`, combined switches), positionals in
    declaration order; value options consume the next argument; a non-repeatable option given
    twice, an unknown option, a surplus positional or a missing required argument is an error. *)

Definition rows_of (cmd : str) (rows : list flag_row) : list flag_row :=
  filter (fun r => str_eqb (fr_cmd r) cmd) rows.

Definition opt_str_eqb (o : option str) (s : str) : bool :=
  match o with Some x => str_eqb x s | None => false end.

Definition find_long (rows : list flag_row) (n : str) : option flag_row :=
  find (fun r => opt_str_eqb (fr_long r) n) rows.
Definition find_short (rows : list flag_row) (c : N) : option flag_row :=
  find (fun r => match fr_short r with Some x => x =? c | None => false end) rows.
Definition positionals (rows : list flag_row) : list flag_row := filter fr_positional rows.

Definition mem_str (s : str) (l : list str) : bool := existsb (str_eqb s) l.

Definition repeatable (r : flag_row) : bool := match fr_kind r with KMulti => true | _ => false end.

(** Must the row be given?  A plain value without default, or [required = true]. *)
Definition row_required (r : flag_row) : bool :=
  fr_required r ||
  match fr_kind r, fr_default r with KValue, None => true | _, _ => false end.

Definition ch_dash : N := 45.
Definition ch_eq : N := 61.

Definition mark (r : flag_row) (seen : list str) : option (list str) :=
  if mem_str (fr_field r) seen && negb (repeatable r) then None else Some (fr_field r :: seen).

(** combined short switches: every remaining character must be a switch *)
Fixpoint short_switches (rows : list flag_row) (cs : str) (seen : list str) : option (list str) :=
  match cs with
  | [] => Some seen
  | c :: r => match find_short rows c with
              | Some row => match fr_kind row with
                            | KSwitch => match mark row seen with
                                         | Some seen' => short_switches rows r seen'
                                         | None => None
                                         end
                            | _ => match mark row seen with   (* -oVALUE inside a cluster: rest is the value *)
                                   | Some seen' => if is_nil r then None else Some seen'
                                   | None => None
                                   end
                            end
              | None => None
              end
  end.

Fixpoint accepts_go (rows : list flag_row) (args : list str) (npos : nat) (seen : list str)
  : option (list str) :=
  match args with
  | [] => Some seen
  | a :: rest =>
    match a with
    | 45 :: 45 :: body =>
        let (name, inline) := match split_first ch_eq body with
                              | Some (n, v) => (n, Some v)
                              | None => (body, None)
                              end in
        match find_long rows name with
        | None => None
        | Some row =>
          match mark row seen with
          | None => None
          | Some seen' =>
            match fr_kind row, inline with
            | KSwitch, None => accepts_go rows rest npos seen'
            | KSwitch, Some _ => None
            | _, Some _ => accepts_go rows rest npos seen'
            | _, None => match rest with
                         | v :: rest' => match v with
                                         | 45 :: _ :: _ => None     (* a value may not look like an option *)
                                         | _ => accepts_go rows rest' npos seen'
                                         end
                         | [] => None
                         end
            end
          end
        end
    | 45 :: c :: more =>
        match find_short rows c with
        | None => None
        | Some row =>
          match fr_kind row with
          | KSwitch => match short_switches rows (c :: more) seen with
                       | Some seen' => accepts_go rows rest npos seen'
                       | None => None
                       end
          | _ => match mark row seen with
                 | None => None
                 | Some seen' =>
                   if is_nil more then
                     match rest with
                     | v :: rest' => match v with
                                     | 45 :: _ :: _ => None
                                     | _ => accepts_go rows rest' npos seen'
                                     end
                     | [] => None
                     end
                   else accepts_go rows rest npos seen'
                 end
          end
        end
    | _ =>
        match nth_error (positionals rows) npos with
        | Some row => accepts_go rows rest (S npos) (fr_field row :: seen)
        | None => None
        end
    end
  end.

(** [accepts rows argv]: [argv] is `wac <subcommand> args...` without the leading program name. *)
Definition accepts (rows : list flag_row) (argv : list str) : bool :=
  match argv with
  | [] => false
  | cmd :: args =>
      let rs := rows_of cmd rows in
      if is_nil rs then false else
      match accepts_go rs args 0 [] with
      | None => false
      | Some seen => forallb (fun r => negb (row_required r) || mem_str (fr_field r) seen) rs
      end
  end.
