(** Model of [CompositionGraphEncoder] (crates/wac-graph/src/graph.rs, from [encode] to the end):
    the structural layer of the encoder. It emits the item log of the outermost component with
    the control flow of [encode] / [toposort] / [resolve_imports] / [encode_imports] / [import] /
    [definition] / [instantiation] / [alias] / the exports loop / [encode_names], and with the
    name-level behaviour of [TypeAggregator::aggregate] / [canonical_import_name].
    [TypeEncoder] is a parameter [tau]: given the log so far it may append any type-level items
    (type definitions, aliases of type exports, imports of [use]d interfaces) and returns a type
    index. Every [unwrap]/index/[panic!] of the Rust code is an explicit [EPanic]. *)
From Coq Require Import String.
From Coq Require Import List Arith Bool NArith.
From WacV Require Import Str StrLit Ord Semver Names Graph Wiring WiringSpec.
Import ListNotations.
Local Open Scope nat_scope.

(** * toposort (first phase: reverse-index DFS, newest-edge-first neighbours) *)
Definition memn (x : nat) (l : list nat) : bool := existsb (Nat.eqb x) l.

Record dfs := { df_disc : list nat; df_fin : list nat; df_out : list nat }.

(** the [while let Some(&nx) = dfs.stack.last()] loop; [None] = self loop *)
Fixpoint dfs_loop (g : gstate) (fuel : nat) (stack : list nat) (d : dfs) : option dfs :=
  match fuel with
  | O => Some d
  | S f =>
      match stack with
      | [] => Some d
      | nx :: rest =>
          if memn nx (df_disc d) then
            (* second visit: pop, push on the finish stack once *)
            if memn nx (df_fin d) then dfs_loop g f rest d
            else dfs_loop g f rest {| df_disc := df_disc d; df_fin := nx :: df_fin d; df_out := nx :: df_out d |}
          else
            let disc := nx :: df_disc d in
            let succs := map etgt (outgoing g nx) in
            if memn nx succs then None
            else
              (* neighbours are pushed in adjacency order, so the last one ends up on top *)
              let stack' := fold_left (fun st s => if memn s disc then st else s :: st) succs stack in
              dfs_loop g f stack' {| df_disc := disc; df_fin := df_fin d; df_out := df_out d |}
      end
  end.

Definition dfs_fuel (g : gstate) : nat := 2 * (length (nodes g) + length (edges g)) + 2.

(** [finish_stack] reversed = the emission order *)
Definition topo_phase1 (g : gstate) : option (list nat) :=
  let step := fun (acc : option dfs) (i : nat) =>
    match acc with
    | None => None
    | Some d => if memn i (df_disc d) then Some d else dfs_loop g (dfs_fuel g) [i] d
    end in
  match fold_left step (rev (node_ids g)) (Some {| df_disc := []; df_fin := []; df_out := [] |}) with
  | Some d => Some (df_out d)
  | None => None
  end.

(** second phase of [toposort] (reversed-graph DFS per node) reports a cycle exactly when the
    first phase's order is not a topological order; modelled by checking the order. *)
Definition toposort (g : gstate) : option (list nat) :=
  match topo_phase1 g with
  | Some ord => if topo_orderb g ord then Some ord else None
  | None => None
  end.

(** * the aggregator at the level of names ([TypeAggregator::aggregate]) *)
Record aentry := { ae_name : str; ae_sort : sort; ae_iid : option str }.
Record agg := { a_imps : list aentry;            (* IndexMap order *)
                a_redir : list (str * str) }.    (* name_redirects, newest binding first *)

Definition agg_empty : agg := {| a_imps := []; a_redir := [] |}.

Fixpoint str_assoc {A} (k : str) (l : list (str * A)) : option A :=
  match l with
  | [] => None
  | (k', v) :: r => if str_eqb k' k then Some v else str_assoc k r
  end.

Definition find_entry (nm : str) (l : list aentry) : option aentry := find (fun a => str_eqb (ae_name a) nm) l.

(** [find_semver_compatible_import] *)
Definition find_compat (nm : str) (l : list aentry) : option aentry :=
  match alt_key nm with
  | None => None
  | Some (k, _) =>
      find (fun a => match alt_key (ae_name a) with Some (k', _) => str_eqb k' k | None => false end) l
  end.

Definition canonical_name (a : agg) (nm : str) : str :=
  match str_assoc nm (a_redir a) with Some c => c | None => nm end.

Inductive aggres := AggOk (a : agg) | AggKindMismatch.

Definition agg_add (a : agg) (nm : str) (s : sort) (iid : option str) : aggres :=
  match find_entry nm (a_imps a) with
  | Some ex => if sort_eqb (ae_sort ex) s then AggOk a else AggKindMismatch
  | None =>
      match find_compat nm (a_imps a) with
      | Some ex =>
          if negb (sort_eqb (ae_sort ex) s) then AggKindMismatch else
          match alt_key nm, alt_key (ae_name ex) with
          | Some (_, nv), Some (_, xv) =>
              if version_ltb xv nv then
                (* the new name is higher: the entry moves to the end under the new name *)
                AggOk {| a_imps := filter (fun b => negb (str_eqb (ae_name b) (ae_name ex))) (a_imps a)
                                   ++ [{| ae_name := nm; ae_sort := ae_sort ex; ae_iid := ae_iid ex |}];
                         a_redir := (ae_name ex, nm)
                                    :: map (fun p : str * str => if str_eqb (snd p) (ae_name ex) then (fst p, nm) else p) (a_redir a) |}
              else AggOk {| a_imps := a_imps a; a_redir := (nm, ae_name ex) :: a_redir a |}
          | _, _ => AggOk a   (* unreachable: [find_compat] answered *)
          end
      | None => AggOk {| a_imps := a_imps a ++ [{| ae_name := nm; ae_sort := s; ae_iid := iid |}]; a_redir := a_redir a |}
      end
  end.

(** * the encoder *)
Inductive esite :=
  | XNoPackage | XUnexpectedEdge | XNodeIndexMissing | XEncodedMissing | XAliasNoSource | XAliasNotInstance
  | XDefNoName | XDupNodeIndex | XBadNode.

Inductive eerr :=
  | ECycle
  | EImplicitImportConflict (import inst : nat) (nm : str)
  | EMergeConflict (nm : str)          (* ImportTypeMergeConflict: implicit import of a different kind class *)
  | EPanic (s : esite)
  | EOracle.                           (* the type-encoder parameter emitted an ill-scoped item (excluded by theorems) *)

Inductive res (A : Type) := ROk (a : A) | RErr (e : eerr).
Arguments ROk {A}. Arguments RErr {A}.

Definition bind {A B} (r : res A) (f : A -> res B) : res B := match r with ROk a => f a | RErr e => RErr e end.
Notation "'do' x <- r ;; k" := (bind r (fun x => k)) (at level 200, x pattern, r at level 100, k at level 200).

Record est := {
  e_log : log;
  e_nidx : list (nat * nat);                 (* State.node_indexes *)
  e_pkgs : list (pkgid * nat);               (* State.packages *)
  e_reg : list (str * (nat * str));          (* Scope.instances: interface id -> (instance index, imported under) *)
  e_impl : list (nat * arg);                 (* State.implicit_args, flattened, in push order *)
  e_dedup : list (str * str) }.              (* import requests answered by an already imported interface: (requested, found) *)

Definition est_init : est := {| e_log := []; e_nidx := []; e_pkgs := []; e_reg := []; e_impl := []; e_dedup := [] |}.

(** what the type encoder is asked for: the type of an import about to be emitted, or of a definition *)
Inductive treq := TImport (nm : str) (s : sort) | TDef (nm : str).
Definition tyenc := log -> treq -> list item * nat.

(** what the type encoder may append at the top level *)
Definition ty_item_ok (ninst : nat) (it : item) : bool :=
  match it with
  | ITypeDef | ICoreTypeDef | IDepImport _ => true
  | IOpaque s => sort_eqb s SType || sort_eqb s SCoreType
  | IAliasExport i s _ => sort_eqb s SType && (i <? ninst)
  | _ => false
  end.
Fixpoint ty_items_ok (ninst : nat) (its : list item) : bool :=
  match its with
  | [] => true
  | it :: r => ty_item_ok ninst it && ty_items_ok (match it with IDepImport _ => S ninst | _ => ninst end) r
  end.

(** interfaces imported by the type encoder become available for aliasing ([import_deps]) *)
Fixpoint reg_deps (ninst : nat) (its : list item) (reg : list (str * (nat * str))) : list (str * (nat * str)) :=
  match its with
  | [] => reg
  | IDepImport nm :: r => reg_deps (S ninst) r ((nm, (ninst, nm)) :: reg)
  | _ :: r => reg_deps ninst r reg
  end.

Definition with_log (st : est) (l : log) : est :=
  {| e_log := l; e_nidx := e_nidx st; e_pkgs := e_pkgs st; e_reg := e_reg st; e_impl := e_impl st; e_dedup := e_dedup st |}.
Definition emit (st : est) (it : item) : est := with_log st (e_log st ++ [it]).

Definition run_ty (tau : tyenc) (st : est) (rq : treq) : res (est * nat) :=
  let '(its, idx) := tau (e_log st) rq in
  let ninst := cnt SInstance (e_log st) in
  if ty_items_ok ninst its then
    ROk ({| e_log := e_log st ++ its; e_nidx := e_nidx st; e_pkgs := e_pkgs st; e_reg := reg_deps ninst its (e_reg st);
            e_impl := e_impl st; e_dedup := e_dedup st |}, idx)
  else RErr EOracle.

Fixpoint nat_assoc {A} (k : nat) (l : list (nat * A)) : option A :=
  match l with
  | [] => None
  | (k', v) :: r => if k' =? k then Some v else nat_assoc k r
  end.

Definition pkgid_eqb (a b : pkgid) : bool := (fst a =? fst b) && (snd a =? snd b).
Fixpoint pkg_assoc (k : pkgid) (l : list (pkgid * nat)) : option nat :=
  match l with
  | [] => None
  | (k', v) :: r => if pkgid_eqb k' k then Some v else pkg_assoc k r
  end.

(** [Scope.instances] is keyed by the interface id of the AGGREGATED interface; the aggregator keeps one
    interface per semver track of ids ([remap_interface] / [find_semver_compatible_interface]), so two ids
    denote the same key exactly when they are equal or on one track. *)
Fixpoint reg_lookup (i : str) (reg : list (str * (nat * str))) : option (nat * str) :=
  match reg with
  | [] => None
  | (k, v) :: r => if compat k i then Some v else reg_lookup i r
  end.

Section Encode.
  Variable e : wenv.
  Variable u : universe.
  Variable g : gstate.
  Variable dc : bool.
  Variable tau : tyenc.

  (** [CompositionGraphEncoder::import] (resources are outside the modelled universe) *)
  Definition import_ (st : est) (a : aentry) : res (est * nat) :=
    let fresh :=
      do (st1, _) <- run_ty tau st (TImport (ae_name a) (ae_sort a)) ;;
      let idx := cnt (ae_sort a) (e_log st1) in
      let st2 := emit st1 (IImport (ae_name a) (ae_sort a)) in
      ROk (match ae_sort a, ae_iid a with
           | SInstance, Some i =>
               {| e_log := e_log st2; e_nidx := e_nidx st2; e_pkgs := e_pkgs st2; e_reg := (i, (idx, ae_name a)) :: e_reg st2;
                  e_impl := e_impl st2; e_dedup := e_dedup st2 |}
           | _, _ => st2
           end, idx) in
    match ae_sort a, ae_iid a with
    | SInstance, Some i =>
        match reg_lookup i (e_reg st) with
        | Some (idx, under) =>
            ROk ({| e_log := e_log st; e_nidx := e_nidx st; e_pkgs := e_pkgs st; e_reg := e_reg st; e_impl := e_impl st;
                    e_dedup := e_dedup st ++ [(ae_name a, under)] |}, idx)
        | None => fresh
        end
    | _, _ => fresh
    end.

  (** [resolve_imports], first loop: unsatisfied arguments of every instantiation in node order *)
  Definition implicit_requests : list (nat * (name * kid)) :=
    flat_map (fun n => map (fun p => (n, p)) (unsat_args u g n)) (filter (is_inst g) (node_ids g)).

  Definition resolve_implicit : res (agg * list (name * kid * nat)) :=
    fold_left (fun (acc : res (agg * list (name * kid * nat))) (np : nat * (name * kid)) =>
      do (a, impl) <- acc ;;
      let '(n, p) := np in
      match alist_get N.eqb (imports g) (fst p) with
      | Some imp => RErr (EImplicitImportConflict imp n (nstr e (fst p)))
      | None =>
          match agg_add a (nstr e (fst p)) (we_sort e (snd p)) (we_iid e (snd p)) with
          | AggOk a' => ROk (a', impl ++ [(fst p, snd p, n)])
          | AggKindMismatch => RErr (EMergeConflict (nstr e (fst p)))
          end
      end) implicit_requests (ROk (agg_empty, [])).

  (** second loop: the explicit imports, in the order [toposort] left them; a failed merge is an [unwrap] *)
  Definition resolve_explicit (a : agg) (import_nodes : list nat) : res (agg * list (str * nat)) :=
    fold_left (fun (acc : res (agg * list (str * nat))) (n : nat) =>
      do (a, ex) <- acc ;;
      match get_node g n with
      | Some nd =>
          match nk nd with
          | NImport nm =>
              match agg_add a (nstr e nm) (we_sort e (nitem nd)) (we_iid e (nitem nd)) with
              | AggOk a' => ROk (a', ex ++ [(nstr e nm, n)])
              | AggKindMismatch => RErr (EPanic XBadNode)
              end
          | _ => ROk (a, ex)
          end
      | None => RErr (EPanic XBadNode)
      end) import_nodes (ROk (a, [])).

  Definition is_instance_entry (a : aentry) : bool := sort_eqb (ae_sort a) SInstance.

  (** [encode_imports] *)
  Definition encode_imports (st : est) (import_nodes : list nat) : res est :=
    do (a0, impl) <- resolve_implicit ;;
    do (a, expl) <- resolve_explicit a0 import_nodes ;;
    (* instances first *)
    let order := filter is_instance_entry (a_imps a) ++ filter (fun x => negb (is_instance_entry x)) (a_imps a) in
    do (st1, encoded) <-
      fold_left (fun (acc : res (est * list (str * (sort * nat)))) (x : aentry) =>
        do (st, enc) <- acc ;;
        do (st', idx) <- import_ st x ;;
        ROk (st', (ae_name x, (ae_sort x, idx)) :: enc)) order (ROk (st, [])) ;;
    (* implicit argument table *)
    do st2 <-
      fold_left (fun (acc : res est) (p : name * kid * nat) =>
        do st <- acc ;;
        let '(nm, _, node) := p in
        match str_assoc (canonical_name a (nstr e nm)) encoded with
        | Some (s, idx) =>
            ROk {| e_log := e_log st; e_nidx := e_nidx st; e_pkgs := e_pkgs st; e_reg := e_reg st;
                   e_impl := e_impl st ++ [(node, (nstr e nm, s, idx))]; e_dedup := e_dedup st |}
        | None => RErr (EPanic XEncodedMissing)
        end) impl (ROk st1) ;;
    (* node indexes of the explicit imports *)
    fold_left (fun (acc : res est) (p : str * nat) =>
      do st <- acc ;;
      match str_assoc (canonical_name a (fst p)) encoded with
      | Some (_, idx) =>
          ROk {| e_log := e_log st; e_nidx := (snd p, idx) :: e_nidx st; e_pkgs := e_pkgs st; e_reg := e_reg st;
                 e_impl := e_impl st; e_dedup := e_dedup st |}
      | None => RErr (EPanic XEncodedMissing)
      end) expl (ROk st2).

  Definition set_nidx (st : est) (n idx : nat) : res est :=
    match nat_assoc n (e_nidx st) with
    | Some _ => RErr (EPanic XDupNodeIndex)        (* assert!(prev.is_none()) *)
    | None => ROk {| e_log := e_log st; e_nidx := (n, idx) :: e_nidx st; e_pkgs := e_pkgs st; e_reg := e_reg st;
                     e_impl := e_impl st; e_dedup := e_dedup st |}
    end.

  (** [definition] *)
  Definition enc_definition (st : est) (n : nat) (nd : node) : res est :=
    match nexport nd with
    | None => RErr (EPanic XDefNoName)
    | Some nm =>
        do (st1, ty) <- run_ty tau st (TDef (nstr e nm)) ;;
        if negb (ty <? cnt SType (e_log st1)) then RErr EOracle else
        let idx := cnt SType (e_log st1) in
        set_nidx (emit st1 (IExport (nstr e nm) SType ty)) n idx
    end.

  (** [instantiation] *)
  Definition enc_instantiation (st : est) (n : nat) (nd : node) : res est :=
    match npkg nd with
    | None => RErr (EPanic XNoPackage)
    | Some pid =>
        match get_pkg g pid, inst_imports u g nd with
        | Some p, Some imps =>
            do (st1, ci) <-
              match pkg_assoc pid (e_pkgs st) with
              | Some ci => ROk (st, ci)
              | None =>
                  do (st1, ci) <-
                    (if dc then ROk (emit st (IComponent (we_digest e p)), cnt SComponent (e_log st))
                     else do (st0, _) <- run_ty tau st (TImport (pkg_import_name e p) SComponent) ;;
                          ROk (emit st0 (IImport (pkg_import_name e p) SComponent), cnt SComponent (e_log st0))) ;;
                  ROk ({| e_log := e_log st1; e_nidx := e_nidx st1; e_pkgs := (pid, ci) :: e_pkgs st1; e_reg := e_reg st1;
                          e_impl := e_impl st1; e_dedup := e_dedup st1 |}, ci)
              end ;;
            do args <-
              fold_left (fun (acc : res (list arg)) (ed : edge) =>
                do l <- acc ;;
                match nat_assoc (esrc ed) (e_nidx st1) with
                | None => RErr (EPanic XNodeIndexMissing)
                | Some idx =>
                    match ek ed with
                    | EArg i =>
                        match nth_error imps i with
                        | Some (nm, _) => ROk (l ++ [(nstr e nm, node_sort e g (esrc ed), idx)])
                        | None => RErr (EPanic XUnexpectedEdge)
                        end
                    | _ => RErr (EPanic XUnexpectedEdge)
                    end
                end) (incoming g n) (ROk []) ;;
            let implicit := flat_map (fun p : nat * arg => if fst p =? n then [snd p] else []) (e_impl st1) in
            let idx := cnt SInstance (e_log st1) in
            set_nidx (emit st1 (IInstantiate ci (args ++ implicit))) n idx
        | _, _ => RErr (EPanic XNoPackage)
        end
    end.

  (** [alias] *)
  Definition enc_alias (st : est) (n : nat) : res est :=
    match get_alias_source u g n with
    | None => RErr (EPanic XAliasNoSource)
    | Some (src, en) =>
        match get_node g src with
        | None => RErr (EPanic XBadNode)
        | Some sn =>
            match u_inst_exports u (nitem sn) with
            | None => RErr (EPanic XAliasNotInstance)
            | Some ex =>
                match alist_get N.eqb ex en with
                | None => RErr (EPanic XAliasNotInstance)
                | Some k =>
                    match nat_assoc src (e_nidx st) with
                    | None => RErr (EPanic XNodeIndexMissing)
                    | Some inst =>
                        let s := we_sort e k in
                        let idx := cnt s (e_log st) in
                        set_nidx (emit st (IAliasExport inst s (nstr e en))) n idx
                    end
                end
            end
        end
    end.

  Definition enc_node (st : est) (n : nat) : res est :=
    match get_node g n with
    | None => RErr (EPanic XBadNode)
    | Some nd =>
        match nk nd with
        | NDef => enc_definition st n nd
        | NInst _ => enc_instantiation st n nd
        | NAlias => enc_alias st n
        | NImport _ => RErr (EPanic XBadNode)   (* unreachable!() *)
        end
    end.

  (** the exports loop: definitions were exported when they were encoded *)
  Definition enc_exports (st : est) : res est :=
    fold_left (fun (acc : res est) (p : name * nat) =>
      do st <- acc ;;
      if is_def g (snd p) then ROk st else
      match nat_assoc (snd p) (e_nidx st) with
      | None => RErr (EPanic XNodeIndexMissing)
      | Some idx => ROk (emit st (IExport (nstr e (fst p)) (node_sort e g (snd p)) idx))
      end) (exports g) (ROk st).

  (** [encode_names]: per sort, in node order *)
  Definition enc_names (st : est) : res (list (sort * nat * str)) :=
    fold_left (fun (acc : res (list (sort * nat * str))) (sn : sort * nat) =>
      do l <- acc ;;
      let '(s, n) := sn in
      match get_node g n with
      | Some nd =>
          match nname nd with
          | Some nm =>
              if sort_eqb (we_sort e (nitem nd)) s then
                match nat_assoc n (e_nidx st) with
                | Some idx => ROk (l ++ [(s, idx, nstr e nm)])
                | None => RErr (EPanic XNodeIndexMissing)
                end
              else ROk l
          | None => ROk l
          end
      | None => ROk l
      end) (list_prod name_sorts (node_ids g)) (ROk []).

  (** [encode] for a GIVEN emission order of the nodes *)
  Definition encode_with_order (ord : list nat) : res (est * list (sort * nat * str)) :=
    let import_nodes := filter (is_import g) ord in
    let other_nodes := filter (fun n => negb (is_import g n)) ord in
    do st0 <- encode_imports est_init import_nodes ;;
    do st1 <- fold_left (fun (acc : res est) (n : nat) => do st <- acc ;; enc_node st n) other_nodes (ROk st0) ;;
    do st2 <- enc_exports st1 ;;
    do ns <- enc_names st2 ;;
    ROk (st2, ns).

  Definition encode_model : res (est * list (sort * nat * str)) :=
    match toposort g with
    | Some ord => encode_with_order ord
    | None => RErr ECycle
    end.
End Encode.

(** * replaying the real type encoder
    The behaviour of [TypeEncoder] at one call is whatever type-level items the real log shows
    between the current position and the structural item the call is made for; the returned type
    index is the one that item uses. Instance imports met on the way were made by [import_deps]. *)
Definition is_ty_item (it : item) : bool :=
  match it with
  | ITypeDef | ICoreTypeDef | IDepImport _ => true
  | IOpaque s => sort_eqb s SType || sort_eqb s SCoreType
  | IAliasExport _ s _ => sort_eqb s SType
  | _ => false
  end.

Definition wanted (rq : treq) (it : item) : bool :=
  match rq, it with
  | TImport nm s, IImport nm' s' => str_eqb nm nm' && sort_eqb s s'
  | TDef nm, IExport nm' SType _ => str_eqb nm nm'
  | _, _ => false
  end.

Fixpoint replay_scan (rq : treq) (l : log) (acc : list item) : list item * nat :=
  match l with
  | [] => ([], 0)
  | it :: r =>
      if wanted rq it then (rev acc, match it with IExport _ _ i => i | _ => 0 end)
      else match it with
           | IImport nm SInstance => replay_scan rq r (IDepImport nm :: acc)
           | _ => if is_ty_item it then replay_scan rq r (it :: acc) else ([], 0)
           end
  end.

Definition tau_replay (real : log) : tyenc :=
  fun sofar rq => replay_scan rq (skipn (length sofar) real) [].

(** logs are compared up to the classification of instance imports *)
Definition unmark (l : log) : log :=
  map (fun it => match it with IDepImport nm => IImport nm SInstance | _ => it end) l.
