(** Model of [crates/wac-parser/src/lexer.rs]: source screening ([detect_invalid_input]), the logos
    token rules (maximal munch, keyword priority over identifiers, compound package tokens, string and
    nested-block-comment callbacks), byte spans, and the doc-comment scanner ([Lexer::comments]).

    The source text is a list of Unicode scalar values; spans are in UTF-8 bytes as in the Rust code.
    The lexer is parameterised by a [lexcfg] (keyword table, symbol table, screening arms, and whether
    upper-case identifier words are accepted) so that the same definitions give the lexer the Rust
    code realises ([impl_cfg], tables generated from the source) and the documented one. *)
From WacV Require Import Str Token.

(* ------------------------------------------------------------------ UTF-8 *)

Definition utf8_len (c : N) : N :=
  if c <? 128 then 1 else if c <? 2048 then 2 else if c <? 65536 then 3 else 4.

Fixpoint byte_len (s : str) : N :=
  match s with [] => 0 | c :: r => utf8_len c + byte_len r end.

(* ------------------------------------------------------------------ configuration *)

Record lexcfg : Set := {
  keywords : list (str * token);
  symbols : list (str * token);
  allow_upper : bool;
  arms : list screen_arm;
  (* Artefacts of the automaton that logos 0.14 generates for the token rules (not of the rules):  *)
  q_dash : bool;      (* an identifier directly followed by a dangling [-] takes the [-] into the token *)
  q_kwcolon : bool;   (* a keyword directly followed by [:] (no package name) is lexed as an identifier *)
  q_pkgzone : bool    (* a package name directly followed by a dangling [-] or [:], or a prefix of a
                         keyword directly followed by a dangling [-]: the behaviour of the generated
                         automaton is not modelled; the lexer reports [LUnmodelled] *) }.

(* ------------------------------------------------------------------ screening *)

Fixpoint mem_N (c : N) (l : list N) : bool :=
  match l with [] => false | x :: r => (x =? c) || mem_N c r end.

(** Rust [char::is_control]: general category Cc. *)
Definition is_control (c : N) : bool := (c <=? 31) || ((127 <=? c) && (c <=? 159)).

(** Rust [char::is_ascii_control]: U+0000..U+001F and U+007F. *)
Definition is_ascii_control (c : N) : bool := (c <=? 31) || (c =? 127).

(** First matching arm decides, as in a Rust [match]. [None] = the character is let through. *)
Fixpoint arm_verdict (a : list screen_arm) (c : N) : option lexerr :=
  match a with
  | [] => None
  | ArmAllow cs :: r => if mem_N c cs then None else arm_verdict r c
  | ArmReject k cs :: r => if mem_N c cs then Some (mk_screen_err k c) else arm_verdict r c
  | ArmControl k :: r => if is_control c then Some (mk_screen_err k c) else arm_verdict r c
  | ArmAsciiControl k :: r => if is_ascii_control c then Some (mk_screen_err k c) else arm_verdict r c
  | ArmWild :: _ => None
  end.

Fixpoint screen_from (a : list screen_arm) (o : N) (s : str) : option (lexerr * span) :=
  match s with
  | [] => None
  | c :: r => match arm_verdict a c with
              | Some e => Some (e, {| off := o; slen := utf8_len c |})
              | None => screen_from a (o + utf8_len c) r
              end
  end.

Definition screen (cfg : lexcfg) (src : str) : option (lexerr * span) := screen_from (arms cfg) 0 src.

(* ------------------------------------------------------------------ character classes *)

Definition c_quote : N := 34.  Definition c_percent : N := 37.  Definition c_star : N := 42.
Definition c_minus : N := 45.  Definition c_period : N := 46.   Definition c_slash : N := 47.
Definition c_colon : N := 58.  Definition c_atsign : N := 64.   Definition c_nl : N := 10.
Definition c_cr : N := 13.

(** [#[logos(skip r"[ \t\r\n\f]+")]] *)
Definition is_ws (c : N) : bool := (c =? 32) || (c =? 9) || (c =? 13) || (c =? 10) || (c =? 12).
(** [CommentToken]: [#[logos(skip r"[ \t\n\f]+")]] (no carriage return). *)
Definition is_doc_ws (c : N) : bool := (c =? 32) || (c =? 9) || (c =? 10) || (c =? 12).

Definition lower_cont (c : N) : bool := is_lower c || is_digit c.
Definition upper_cont (c : N) : bool := is_upper c || is_digit c.
(** [[0-9a-zA-Z-\+]] *)
Definition semver_char (c : N) : bool := is_digit c || is_alpha c || (c =? 45) || (c =? 43).

(** Rust [char::is_whitespace] (Unicode White_Space), used by [str::trim]. *)
Definition is_rust_ws (c : N) : bool :=
  ((9 <=? c) && (c <=? 13)) || (c =? 32) || (c =? 133) || (c =? 160) || (c =? 5760)
  || ((8192 <=? c) && (c <=? 8202)) || (c =? 8232) || (c =? 8233) || (c =? 8239) || (c =? 8287)
  || (c =? 12288).

(* ------------------------------------------------------------------ scanners (return matched length) *)

Fixpoint run_len (p : N -> bool) (s : str) : nat :=
  match s with c :: r => if p c then S (run_len p r) else O | [] => O end.

(** Inside a word of the given case ([up = true]: upper), how many more characters belong to the
    identifier [%?word(-word)*]: continue the word, or take [-] followed by a new word start. *)
Fixpoint id_tail_len (au : bool) (up : bool) (s : str) : nat :=
  match s with
  | c :: r =>
      if (if up then upper_cont c else lower_cont c) then S (id_tail_len au up r)
      else if c =? c_minus then
        match r with
        | c2 :: r2 => if is_lower c2 then S (S (id_tail_len au false r2))
                      else if au && is_upper c2 then S (S (id_tail_len au true r2))
                      else O
        | [] => O
        end
      else O
  | [] => O
  end.

(** Length of the longest prefix matching [word(-word)*]; 0 if none. *)
Definition words_len (au : bool) (s : str) : nat :=
  match s with
  | c :: r => if is_lower c then S (id_tail_len au false r)
              else if au && is_upper c then S (id_tail_len au true r)
              else O
  | [] => O
  end.

(** Length of the longest prefix matching the [id] subpattern; 0 if none. *)
Definition id_len (au : bool) (s : str) : nat :=
  match s with
  | c :: r => if c =? c_percent
              then match words_len au r with O => O | S n => S (S n) end
              else words_len au s
  | [] => O
  end.

(** Greedy [(sep id)*]: total length. *)
Fixpoint seg_loop (fuel : nat) (au : bool) (sep : N) (s : str) : nat :=
  match fuel with
  | O => O
  | S f =>
      match s with
      | c :: r => if c =? sep
                  then match id_len au r with
                       | O => O
                       | S n => S (S n) + seg_loop f au sep (skipn (S n) r)
                       end
                  else O
      | [] => O
      end
  end.

(** After the leading digits of [semver]: [(\.[0-9a-zA-Z-\+]+)*]. [ing]: inside a dot group. *)
Fixpoint semver_rest (ing : bool) (s : str) : nat :=
  match s with
  | c :: r =>
      if ing && semver_char c then S (semver_rest true r)
      else if c =? c_period then
        match r with
        | c2 :: r2 => if semver_char c2 then S (S (semver_rest true r2)) else O
        | [] => O
        end
      else O
  | [] => O
  end.

Definition semver_len (s : str) : nat :=
  match run_len is_digit s with
  | O => O
  | S d => S d + semver_rest false (skipn (S d) s)
  end.

(** [(@semver)?] *)
Definition version_tail_len (s : str) : nat :=
  match s with
  | c :: r => if c =? c_atsign then match semver_len r with O => O | S n => S (S n) end else O
  | [] => O
  end.

Fixpoint find_char (c : N) (s : str) : option nat :=
  match s with
  | [] => None
  | x :: r => if x =? c then Some O else match find_char c r with Some n => Some (S n) | None => None end
  end.

(** [helpers::block_comment_length] on the text after the opening [/*]: length including the
    opening two characters, [None] when the nesting never closes. (All characters involved are
    ASCII, so counting scalar values here and bytes there agree after [byte_len].) *)
Fixpoint block_len (depth : nat) (s : str) : option nat :=
  match s with
  | [] => None
  | c :: r =>
      match r with
      | c2 :: r2 =>
          if (c =? c_slash) && (c2 =? c_star) then
            match block_len (S depth) r2 with Some n => Some (S (S n)) | None => None end
          else if (c =? c_star) && (c2 =? c_slash) then
            match depth with
            | O => Some 2%nat
            | S d => match block_len d r2 with Some n => Some (S (S n)) | None => None end
            end
          else match block_len depth r with Some n => Some (S n) | None => None end
      | [] => None
      end
  end.

Definition block_comment_length (after_open : str) : option nat :=
  match block_len O after_open with Some n => Some (S (S n)) | None => None end.

(* ------------------------------------------------------------------ doc comments *)

Fixpoint trim_start (s : str) : str :=
  match s with c :: r => if is_rust_ws c then trim_start r else s | [] => [] end.
Definition trim (s : str) : str := rev (trim_start (rev (trim_start s))).

Definition doc := (str * span)%type.

Definition strip_suffix2 (a b : N) (s : str) : option str :=
  match rev s with
  | y :: x :: r => if (x =? a) && (y =? b) then Some (rev r) else None
  | _ => None
  end.

(** The body of the loop in [Lexer::comments] for one comment token with text [c]:
    [Some (Some text)] pushes a doc comment, [Some None] is [continue], [None] stands for the
    [unwrap] on [strip_suffix] failing (unreachable: a block comment text always ends in [*/]). *)
Definition doc_of_comment (c : str) : option (option str) :=
  match c with
  | 47 :: 47 :: 47 :: r => Some (Some (trim r))
  | 47 :: 42 :: 42 :: r =>
      match r with
      | [47] => Some None
      | _ => match strip_suffix2 c_star c_slash r with
             | Some b => Some (Some (trim b))
             | None => None
             end
      end
  | _ => Some None
  end.

(* ------------------------------------------------------------------ tokens *)

Record rtoken : Set := {
  tk : token;          (* kind *)
  tsp : span;          (* byte span *)
  ttext : str;         (* the source slice of the span *)
  tdocs : list doc     (* what [Lexer::comments] returns when the lexer stands just before this token *)
}.

Inductive lexitem : Set :=
| LTok (t : rtoken)
| LErr (e : lexerr) (sp : span)
| LUnmodelled (sp : span) (* see [q_pkgzone] *)
| LPanic                (* the unreachable [unwrap] in [comments] *)
| LFuel.

Inductive gapres : Set :=
| GapOk (o : N) (s : str) (docs : list doc)
| GapErr (e : lexerr) (sp : span)
| GapPanic
| GapFuel.

Definition push_doc (alive : bool) (docs : list doc) (text : str) (o : N) : option (list doc) :=
  if alive then
    match doc_of_comment text with
    | Some (Some d) => Some (docs ++ [(d, {| off := o; slen := byte_len text |})])
    | Some None => Some docs
    | None => None
    end
  else Some docs.

(** Skip whitespace and comments. [alive]: the doc-comment scanner (which does not skip a carriage
    return) has not yet stopped. *)
Fixpoint skip_gap (fuel : nat) (o : N) (s : str) (alive : bool) (docs : list doc) : gapres :=
  match fuel with
  | O => GapFuel
  | S f =>
      match s with
      | [] => GapOk o s docs
      | c :: r =>
          if is_ws c then skip_gap f (o + 1) r (alive && is_doc_ws c) docs
          else if c =? c_slash then
            match r with
            | c2 :: r2 =>
                if c2 =? c_slash then
                  let n := run_len (fun x => negb (x =? c_nl)) r2 in
                  let text := c :: c2 :: firstn n r2 in
                  match push_doc alive docs text o with
                  | Some docs' => skip_gap f (o + byte_len text) (skipn n r2) alive docs'
                  | None => GapPanic
                  end
                else if c2 =? c_star then
                  match block_comment_length r2 with
                  | Some n =>
                      let text := firstn n s in
                      match push_doc alive docs text o with
                      | Some docs' => skip_gap f (o + byte_len text) (skipn n s) alive docs'
                      | None => GapPanic
                      end
                  | None => GapErr UnterminatedComment {| off := o; slen := byte_len s |}
                  end
                else GapOk o s docs
            | [] => GapOk o s docs
            end
          else GapOk o s docs
      end
  end.

Fixpoint lookup_str (k : str) (tbl : list (str * token)) : option token :=
  match tbl with
  | [] => None
  | (x, t) :: r => if str_eqb x k then Some t else lookup_str k r
  end.

Definition is_nil_str (x : str) : bool := match x with [] => true | _ => false end.

(** Longest symbol of the table that is a prefix of [s] (ties: first in table order). *)
Fixpoint best_symbol (tbl : list (str * token)) (s : str) : option (token * nat) :=
  match tbl with
  | [] => None
  | (x, t) :: r =>
      let rest := best_symbol r s in
      if starts_with x s && negb (is_nil_str x) then
        match rest with
        | Some (t', n') => if (length x <? n')%nat then rest else Some (t, length x)
        | None => Some (t, length x)
        end
      else rest
  end.

(** [k] is a prefix of (or equal to) some keyword of the table. *)
Fixpoint is_kw_prefix (k : str) (tbl : list (str * token)) : bool :=
  match tbl with
  | [] => false
  | (x, _) :: r => starts_with k x || is_kw_prefix k r
  end.

Inductive scanres : Set :=
| ScanTok (k : token) (n : nat)            (* kind, length in scalar values *)
| ScanErr (e : lexerr) (bytes : N)         (* error class, byte length of its span *)
| ScanUnmodelled.

Definition head_is (c : N) (s : str) : bool := match s with x :: _ => x =? c | [] => false end.

(** One token at the head of a non-empty [s] that does not start with whitespace or a comment. *)
Definition scan_token (cfg : lexcfg) (fuel : nat) (s : str) : scanres :=
  match s with
  | [] => ScanErr UnexpectedToken 0
  | c :: r =>
      if c =? c_quote then
        match find_char c_quote r with
        | Some n => ScanTok TString (S (S n))
        | None => ScanErr UnterminatedString 1
        end
      else
        let au := allow_upper cfg in
        match id_len au s with
        | S n0 =>
            let n1 := S n0 in
            let rest1 := skipn n1 s in
            let kw_or_ident := match lookup_str (firstn n1 s) (keywords cfg) with
                               | Some k => k
                               | None => TIdent
                               end in
            if head_is c_minus rest1 then
              (* the identifier rule stopped before a [-] that no word follows *)
              if q_pkgzone cfg && is_kw_prefix (firstn n1 s) (keywords cfg) then ScanUnmodelled
              else if q_dash cfg then ScanTok TIdent (S n1) else ScanTok kw_or_ident n1
            else
            let n2 := seg_loop fuel au c_colon rest1 in
            match n2 with
            | O => if head_is c_colon rest1 && q_kwcolon cfg then ScanTok TIdent n1
                   else ScanTok kw_or_ident n1
            | S _ =>
                let pkg := (n1 + n2)%nat in
                let after := skipn pkg s in
                if q_pkgzone cfg && (head_is c_minus after || head_is c_colon after) then ScanUnmodelled
                else
                match seg_loop fuel au c_slash after with
                | O => ScanTok TPackageName (pkg + version_tail_len after)
                | S m => let path := (pkg + S m)%nat in
                         ScanTok TPackagePath (path + version_tail_len (skipn path s))
                end
            end
        | O =>
            match best_symbol (symbols cfg) s with
            | Some (k, n) => ScanTok k n
            | None => ScanErr UnexpectedToken (utf8_len c)
            end
        end
  end.

Fixpoint lex_loop (fuel : nat) (cfg : lexcfg) (o : N) (s : str) : list lexitem :=
  match fuel with
  | O => [LFuel]
  | S f =>
      match skip_gap fuel o s true [] with
      | GapErr e sp => [LErr e sp]
      | GapPanic => [LPanic]
      | GapFuel => [LFuel]
      | GapOk o1 s1 docs =>
          match s1 with
          | [] => []
          | _ :: _ =>
              match scan_token cfg fuel s1 with
              | ScanErr e n => [LErr e {| off := o1; slen := n |}]
              | ScanUnmodelled => [LUnmodelled {| off := o1; slen := 0 |}]
              | ScanTok k n =>
                  let text := firstn n s1 in
                  let bl := byte_len text in
                  LTok {| tk := k; tsp := {| off := o1; slen := bl |}; ttext := text; tdocs := docs |}
                  :: lex_loop f cfg (o1 + bl) (skipn n s1)
              end
          end
      end
  end.

(** [Lexer::new] followed by draining the iterator, cut after the first error. *)
Definition lex (cfg : lexcfg) (src : str) : list lexitem :=
  match screen cfg src with
  | Some (e, sp) => [LErr e sp]
  | None => lex_loop (S (S (length src))) cfg 0 src
  end.
