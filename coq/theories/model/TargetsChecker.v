(** The resolution-time target check with NOTHING left abstract: kinds are [Types.kind] in one
    [Types] collection (the graph's), [promote] is [ItemKind::promote], and the subtype test is the
    model of [SubtypeChecker] (Checker.v, property C07) THREADED through the two loops exactly as
    [AstResolver::validate_target] does it:

      let mut checker = SubtypeChecker::new(&mut cache);   // empty memo, empty variance stack
      checker.invert();                                     // push
      for .. { lookup ..  ok_or_else(|| ImportNotInTarget { span: import_node.map(|n| state.import_spans[&n]) })?;
               checker.is_subtype(expected.promote(), types, item_kind, types)
                      .map_err(|e| TargetMismatch { span: import_node.map(|n| state.import_spans[&n]), .. })?; }
      checker.revert();                                     // pop, panics on an empty stack
      let exports = fold NameMap insert .. unwrap();
      for .. { lookup .. ok_or_else(|| MissingTargetExport{..})?;
               checker.is_subtype(kind(export), types, expected.promote(), types)
                      .map_err(|e| TargetMismatch { span: state.export_spans.get(&export).copied(), .. })?; }

    The [state.import_spans[&n]] index sites sit inside the error closures: they are evaluated only when
    the corresponding error is produced, for an entry that comes from an explicit import node.
    [export_spans] is read with [.get] and cannot panic.  An import entry therefore carries the node
    ([option nat]) and the state carries the key set of [import_spans]. *)
From WacV Require Import Str Ord Semver Names Types Checker Targets.

(** [ItemKind::promote] *)
Definition kind_promote (k : kind) : kind :=
  match k with
  | KType (TFunc f) => KFunc f
  | KType (TInterface i) => KInstance i
  | KType (TWorld w) => KComponent w
  | k => k
  end.

(** The oracle the abstract models are instantiated with: one check on a fresh checker. *)
Definition chk (F : nat) (t : types) (a b : kind) : bool := is_ok (check F t a t b).

Inductive tpanic :=
| PUnwrapInsert            (* [NameMap::insert(..).unwrap()] *)
| PSpanIndex (node : nat)  (* [state.import_spans[&n]] on a node without a span *)
| PRevert                  (* [checker.revert()] on an empty stack *)
| PChecker                 (* an arena index inside the checker *)
| PFuel.                   (* model artefact: recursion budget exhausted *)

Inductive outcome := OVerdict (v : rverdict) | OPanic (p : tpanic).

Record compn := mkcompn {
  cn_imports : list (str * kind * option nat);   (* [CompositionGraph::imports()] with the node *)
  cn_exports : list (str * kind) }.

Definition erase (c : compn) : comp kind :=
  mkcomp (map (fun i => (fst (fst i), snd (fst i), match snd i with Some _ => true | None => false end))
              (cn_imports c))
         (cn_exports c).

Section Full.
  Variable F : nat.
  Variable t : types.
  Variable spans : list nat.            (* keys of [state.import_spans] *)

  (** [import_node.map(|n| state.import_spans[&n])] *)
  Definition span_of (node : option nat) : option tpanic :=
    match node with
    | None => None
    | Some n => if existsb (Nat.eqb n) spans then None else Some (PSpanIndex n)
    end.

  Definition raise (node : option nat) (e : terror) : outcome :=
    match span_of node with Some p => OPanic p | None => OVerdict (RErr e) end.

  Definition of_checker (r : R unit) (node : option nat) (e : terror) (k : outcome) : outcome :=
    match r with
    | Ok _ => k
    | Err _ => raise node e
    | Panic => OPanic PChecker
    | OutOfFuel => OPanic PFuel
    end.

  (** imports loop: the checker state is threaded; [None] = loop finished *)
  Fixpoint full_imports (wi : namemap kind) (s : st) (l : list (str * kind * option nat))
    : (option outcome) * st :=
    match l with
    | [] => (None, s)
    | (name, item, node) :: r =>
        match nm_get wi name with
        | None => (Some (raise node (ImportNotInTarget name)), s)
        | Some expected =>
            let '(res, s') := is_subtype F s t (kind_promote expected) t item in
            match res with
            | Ok _ => full_imports wi s' r
            | _ => (Some (of_checker res node (TargetMismatch EImport name) (OVerdict ROk)), s')
            end
        end
    end.

  Fixpoint full_exports (ce : namemap kind) (s : st) (l : list (str * kind)) : (option outcome) * st :=
    match l with
    | [] => (None, s)
    | (name, expected) :: r =>
        match nm_get ce name with
        | None => (Some (OVerdict (RErr (MissingTargetExport name))), s)
        | Some export =>
            let '(res, s') := is_subtype F s t export t (kind_promote expected) in
            match res with
            | Ok _ => full_exports ce s' r
            | _ => (Some (of_checker res None (TargetMismatch EExport name) (OVerdict ROk)), s')
            end
        end
    end.

  Definition resolve_target_full (w : tworld kind) (c : compn) : outcome :=
    match all_imports w with
    | None => OPanic PUnwrapInsert
    | Some wi =>
        let s1 := set_ks st0 (invert (ks st0)) in
        match full_imports wi s1 (cn_imports c) with
        | (Some o, _) => o
        | (None, s2) =>
            match revert s2 with
            | Ok s3 =>
                match nm_fill nm_empty (cn_exports c) with
                | None => OPanic PUnwrapInsert
                | Some ce =>
                    match full_exports ce s3 (tw_exports w) with
                    | (Some o, _) => o
                    | (None, _) => OVerdict ROk
                    end
                end
            | _ => OPanic PRevert
            end
        end
    end.

  (** the resolver's bookkeeping invariant at this abstraction: every explicit import node has a span *)
  Definition spans_cover (c : compn) : Prop :=
    forall n k node, In (n, k, Some node) (cn_imports c) -> In node spans.
End Full.
