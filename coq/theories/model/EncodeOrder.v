(** C16, encoder part: [EncodeModel]'s encoder with an ITERATION / REPRESENTATION ORACLE for every hash-ordered
    container that [CompositionGraphEncoder] consults:

      explicit_imports : HashMap<&str, NodeIndex>   iterated by [encode_imports]' last loop ([eo_expl]) and, when an
                                                    explicit import fails to merge, by the computation of the
                                                    `first` node of the error ([eo_expl_c]);
      instantiations   : HashMap<&String, NodeIndex> looked up; iterated only in that same computation ([eo_inst_c]);
      encoded          : HashMap<&str, (kind, index)> looked up only ([eo_encoded]: any re-arrangement of the
                                                    association list that answers every lookup alike);
      state.node_indexes, state.packages, state.implicit_args
                                                    looked up only ([eo_state]: before every node, before the exports
                                                    loop and before the names section the representation may be
                                                    re-arranged in any way that answers every lookup alike).

    The functions of [EncodeModel] are reused unchanged wherever no oracle is consulted; [encode_imports] is
    restated with the oracles at the places where the Rust code iterates / looks up. *)
From Coq Require Import List Arith Bool NArith Permutation.
From WacV Require Import Str StrLit Ord Semver Names Graph Wiring WiringSpec EncodeModel.
Import ListNotations.
Local Open Scope nat_scope.

(** the implicit arguments recorded for one instantiation, in push order (what [implicit_args.remove(&index)] yields) *)
Definition impl_of (n : nat) (l : list (nat * arg)) : list arg :=
  flat_map (fun p : nat * arg => if fst p =? n then [snd p] else []) l.

(** two encoder states that answer every lookup alike *)
Definition est_equiv (a b : est) : Prop :=
  e_log a = e_log b /\ e_reg a = e_reg b /\ e_dedup a = e_dedup b /\
  (forall k, nat_assoc k (e_nidx a) = nat_assoc k (e_nidx b)) /\
  (forall k, pkg_assoc k (e_pkgs a) = pkg_assoc k (e_pkgs b)) /\
  (forall n, impl_of n (e_impl a) = impl_of n (e_impl b)).

Record eoracle := {
  eo_expl : list (str * nat) -> list (str * nat);
  eo_expl_c : list (str * nat) -> list (str * nat);
  eo_inst_c : list (str * nat) -> list (str * nat);
  eo_encoded : list (str * (sort * nat)) -> list (str * (sort * nat));
  eo_state : nat -> est -> est }.

Definition valid_eoracle (o : eoracle) : Prop :=
  (forall l, Permutation (eo_expl o l) l) /\
  (forall l, Permutation (eo_expl_c o l) l) /\
  (forall l, Permutation (eo_inst_c o l) l) /\
  (forall l k, str_assoc k (eo_encoded o l) = str_assoc k l) /\
  (forall k st, est_equiv st (eo_state o k st)).

Definition id_eoracle : eoracle :=
  {| eo_expl := fun l => l; eo_expl_c := fun l => l; eo_inst_c := fun l => l; eo_encoded := fun l => l;
     eo_state := fun _ st => st |}.

(** an oracle that really permutes: iteration orders reversed, the three state maps stored back to front
    (valid on states whose maps have distinct keys, which is what HashMaps have) *)
Definition rev_state (st : est) : est :=
  {| e_log := e_log st; e_nidx := rev (e_nidx st); e_pkgs := rev (e_pkgs st); e_reg := e_reg st;
     e_impl := e_impl st; e_dedup := e_dedup st |}.

(** [Iterator::min] over the nodes of the entries whose name is compatible, [dflt] when there is none *)
Definition conflict_first_gen {K} (compat : K -> bool) (visit1 visit2 : list (K * nat)) (dflt : nat) : nat :=
  match map snd (filter (fun p => compat (fst p)) (visit1 ++ visit2)) with
  | [] => dflt
  | x :: r => fold_left Nat.min r x
  end.

Section EncodeO.
  Variable e : wenv.
  Variable u : universe.
  Variable g : gstate.
  Variable dc : bool.
  Variable tau : tyenc.
  Variable o : eoracle.

  (** [encode_imports] with the oracles *)
  Definition encode_imports_o (st : est) (import_nodes : list nat) : res est :=
    do (a0, impl) <- resolve_implicit e u g ;;
    do (a, expl) <- resolve_explicit e g a0 import_nodes ;;
    let order := filter is_instance_entry (a_imps a) ++ filter (fun x => negb (is_instance_entry x)) (a_imps a) in
    do (st1, encoded) <-
      fold_left (fun (acc : res (est * list (str * (sort * nat)))) (x : aentry) =>
        do (st, enc) <- acc ;;
        do (st', idx) <- import_ tau st x ;;
        ROk (st', (ae_name x, (ae_sort x, idx)) :: enc)) order (ROk (st, [])) ;;
    do st2 <-
      fold_left (fun (acc : res est) (p : name * kid * nat) =>
        do st <- acc ;;
        let '(nm, _, node) := p in
        match str_assoc (canonical_name a (nstr e nm)) (eo_encoded o encoded) with
        | Some (s, idx) =>
            ROk {| e_log := e_log st; e_nidx := e_nidx st; e_pkgs := e_pkgs st; e_reg := e_reg st;
                   e_impl := e_impl st ++ [(node, (nstr e nm, s, idx))]; e_dedup := e_dedup st |}
        | None => RErr (EPanic XEncodedMissing)
        end) impl (ROk st1) ;;
    (* `for (name, node_index) in explicit_imports`: HashMap iteration order *)
    fold_left (fun (acc : res est) (p : str * nat) =>
      do st <- acc ;;
      match str_assoc (canonical_name a (fst p)) (eo_encoded o encoded) with
      | Some (_, idx) =>
          ROk {| e_log := e_log st; e_nidx := (snd p, idx) :: e_nidx st; e_pkgs := e_pkgs st; e_reg := e_reg st;
                 e_impl := e_impl st; e_dedup := e_dedup st |}
      | None => RErr (EPanic XEncodedMissing)
      end) (eo_expl o expl) (ROk st2).

  (** nodes, numbered; the state is re-arranged by the oracle before each of them *)
  Fixpoint enc_nodes_o (k : nat) (st : est) (l : list nat) : res est :=
    match l with
    | [] => ROk st
    | n :: r => do st' <- enc_node e u g dc tau (eo_state o k st) n ;; enc_nodes_o (S k) st' r
    end.

  (** the observable result: the item log and the names section, or the error *)
  Definition encode_with_order_o (ord : list nat) : res (log * list (sort * nat * str)) :=
    let import_nodes := filter (is_import g) ord in
    let other_nodes := filter (fun n => negb (is_import g n)) ord in
    do st0 <- encode_imports_o est_init import_nodes ;;
    do st1 <- enc_nodes_o 0 st0 other_nodes ;;
    do st2 <- enc_exports e g (eo_state o (length other_nodes) st1) ;;
    do ns <- enc_names e g (eo_state o (S (length other_nodes)) st2) ;;
    ROk (e_log st2, ns).

  Definition encode_o : res (log * list (sort * nat * str)) :=
    match toposort g with
    | Some ord => encode_with_order_o ord
    | None => RErr ECycle
    end.

  (** the payload of the ImportTypeMergeConflict raised for an explicit import (code after 591363d):
      (import name, first, second).  [instantiations]: first instantiation per implicitly imported name. *)
  Definition inst_first (impl : list (name * kid * nat)) : list (str * nat) :=
    fold_left (fun (m : list (str * nat)) (p : name * kid * nat) =>
                 let '(nm, _, n) := p in
                 match str_assoc (nstr e nm) m with Some _ => m | None => m ++ [(nstr e nm, n)] end) impl [].

  Fixpoint explicit_conflict_scan (impl : list (name * kid * nat)) (a : agg) (ex : list (str * nat)) (nodes : list nat)
    : option (str * nat * nat) :=
    match nodes with
    | [] => None
    | n :: r =>
        match get_node g n with
        | Some nd =>
            match nk nd with
            | NImport nm =>
                match agg_add a (nstr e nm) (we_sort e (nitem nd)) (we_iid e (nitem nd)) with
                | AggOk a' => explicit_conflict_scan impl a' (ex ++ [(nstr e nm, n)]) r
                | AggKindMismatch =>
                    Some (nstr e nm,
                          conflict_first_gen (fun k => compat k (nstr e nm))
                                             (eo_inst_c o (inst_first impl)) (eo_expl_c o ex) n,
                          n)
                end
            | _ => explicit_conflict_scan impl a ex r
            end
        | None => None
        end
    end.

  Definition explicit_conflict_o : option (str * nat * nat) :=
    match toposort g with
    | Some ord =>
        match resolve_implicit e u g with
        | ROk (a0, impl) => explicit_conflict_scan impl a0 [] (filter (is_import g) ord)
        | RErr _ => None
        end
    | None => None
    end.

  (** everything [encode] lets the caller observe *)
  Definition encode_obs : res (log * list (sort * nat * str)) * option (str * nat * nat) :=
    (encode_o, explicit_conflict_o).
End EncodeO.

(** what [EncodeModel.encode_model] lets the caller observe *)
Definition summarize (r : res (est * list (sort * nat * str))) : res (log * list (sort * nat * str)) :=
  match r with ROk (st, ns) => ROk (e_log st, ns) | RErr x => RErr x end.

(** * reachability in the composition graph and the emission order *)
Inductive reach (g : gstate) : nat -> nat -> Prop :=
  | reach_refl : forall a, reach g a a
  | reach_step : forall a b c, In b (map etgt (outgoing g a)) -> reach g b c -> reach g a c.

Definition before (ord : list nat) (a b : nat) : Prop := index_of a ord < index_of b ord.
