(** Model of [wac_types::Types] (crates/wac-types/src/component.rs, core.rs).

    The six [id_arena::Arena]s of a [Types] are six lists.  An identifier is (arena tag, index):
    [id_arena::Id] equality compares the arena id as well as the index, and indexing an arena with an
    identifier of another arena panics.  All arenas of one [Types] value are created together (the
    fields are private; the only constructors are [Default] and [Clone]), so one tag per [Types] is
    enough; a [Clone] keeps the tag, which the model can express too (two values with one tag).

    [unfold] gives the arena-free tree denotation of a kind: aliases disappear, identifiers are
    replaced by what they point to.  It is the vocabulary of the specifications (SubSpec.v). *)
From WacV Require Import Str.

(** * Identifiers *)
Record id := mkid { id_tag : N; id_idx : nat }.
Definition id_eqb (a b : id) : bool := (id_tag a =? id_tag b) && Nat.eqb (id_idx a) (id_idx b).

(** * component.rs *)
Inductive prim :=
| PU8 | PS8 | PU16 | PS16 | PU32 | PS32 | PU64 | PS64 | PF32 | PF64 | PChar | PBool | PString | PErrorContext.
Definition prim_idx (p : prim) : N :=
  match p with
  | PU8 => 0 | PS8 => 1 | PU16 => 2 | PS16 => 3 | PU32 => 4 | PS32 => 5 | PU64 => 6 | PS64 => 7
  | PF32 => 8 | PF64 => 9 | PChar => 10 | PBool => 11 | PString => 12 | PErrorContext => 13
  end.
Definition prim_eqb (a b : prim) : bool := prim_idx a =? prim_idx b.

Inductive valtype :=
| VPrim (p : prim)
| VBorrow (r : id)
| VOwn (r : id)
| VDefined (d : id).

Inductive deftype :=
| DTuple (l : list valtype)
| DList (v : valtype)
| DFsl (v : valtype) (n : N)                        (* FixedSizeList(ty, u32) *)
| DOption (v : valtype)
| DResult (ok err : option valtype)
| DVariant (cases : list (str * option valtype))    (* IndexMap: insertion order, unique keys *)
| DRecord (fields : list (str * valtype))
| DFlags (l : list str)                             (* IndexSet *)
| DEnum (l : list str)
| DAlias (v : valtype)
| DStream (o : option valtype)
| DFuture (o : option valtype).

(** [ResourceAlias.owner] is kept because the aggregator reads it; the checker does not. *)
Record resource := mkres { res_name : str; res_alias : option (option id * id) (* owner, source *) }.
Definition res_source (r : resource) : option id :=
  match res_alias r with Some (_, s) => Some s | None => None end.

Record functype := mkfunc { f_params : list (str * valtype); f_result : option valtype; f_async : bool }.

Inductive ty :=
| TResource (r : id) | TFunc (f : id) | TValue (v : valtype) | TInterface (i : id) | TWorld (w : id)
| TModule (m : id).

Inductive kind :=
| KType (t : ty) | KFunc (f : id) | KInstance (i : id) | KComponent (w : id) | KModule (m : id)
| KValue (v : valtype).

Definition used := (id * option str)%type.           (* UsedType { interface, name } *)
Record interface := mkif { i_id : option str; i_uses : list (str * used); i_exports : list (str * kind) }.
Record world := mkworld { w_id : option str; w_uses : list (str * used);
                          w_imports : list (str * kind); w_exports : list (str * kind) }.

(** * core.rs *)
Inductive heap :=
| HConcrete (i : N) | HFunc | HExtern | HAny | HNone | HNoExtern | HNoFunc | HEq | HStruct | HArray | HI31
| HExn | HNoExn | HCont | HNoCont.
Definition heap_code (h : heap) : N * N :=
  match h with
  | HConcrete i => (0, i) | HFunc => (1, 0) | HExtern => (2, 0) | HAny => (3, 0) | HNone => (4, 0)
  | HNoExtern => (5, 0) | HNoFunc => (6, 0) | HEq => (7, 0) | HStruct => (8, 0) | HArray => (9, 0)
  | HI31 => (10, 0) | HExn => (11, 0) | HNoExn => (12, 0) | HCont => (13, 0) | HNoCont => (14, 0)
  end.
Definition heap_eqb (a b : heap) : bool :=
  (fst (heap_code a) =? fst (heap_code b)) && (snd (heap_code a) =? snd (heap_code b)).
Record reftype := mkref { r_nullable : bool; r_heap : heap }.
Definition reftype_eqb (a b : reftype) : bool :=
  Bool.eqb (r_nullable a) (r_nullable b) && heap_eqb (r_heap a) (r_heap b).
Inductive coretype := CI32 | CI64 | CF32 | CF64 | CV128 | CRef (r : reftype).
Definition coretype_eqb (a b : coretype) : bool :=
  match a, b with
  | CI32, CI32 | CI64, CI64 | CF32, CF32 | CF64, CF64 | CV128, CV128 => true
  | CRef x, CRef y => reftype_eqb x y
  | _, _ => false
  end.
Fixpoint list_eqb {A} (eqb : A -> A -> bool) (a b : list A) : bool :=
  match a, b with
  | [], [] => true
  | x :: a', y :: b' => eqb x y && list_eqb eqb a' b'
  | _, _ => false
  end.
Record corefunc := mkcf { cf_params : list coretype; cf_results : list coretype }.
Definition corefunc_eqb (a b : corefunc) : bool :=
  list_eqb coretype_eqb (cf_params a) (cf_params b) && list_eqb coretype_eqb (cf_results a) (cf_results b).

Inductive coreextern :=
| CEFunc (f : corefunc)
| CETable (elem : reftype) (initial : N) (maximum : option N) (table64 shared : bool)
| CEMemory (memory64 shared : bool) (initial : N) (maximum : option N) (page_size_log2 : option N)
| CEGlobal (val_type : coretype) (mutable shared : bool)
| CETag (f : corefunc).

Record moduletype := mkmod { m_imports : list ((str * str) * coreextern); m_exports : list (str * coreextern) }.

(** * The collection *)
Record types := mktypes {
  t_tag : N;
  t_defined : list deftype;
  t_resources : list resource;
  t_funcs : list functype;
  t_interfaces : list interface;
  t_worlds : list world;
  t_modules : list moduletype }.

(** [Index<…Id> for Types]: [None] is the panic of [id_arena] (foreign arena or index out of range). *)
Definition lookup {A} (tag : N) (l : list A) (i : id) : option A :=
  if id_tag i =? tag then nth_error l (id_idx i) else None.
Definition get_def (t : types) := lookup (t_tag t) (t_defined t).
Definition get_res (t : types) := lookup (t_tag t) (t_resources t).
Definition get_func (t : types) := lookup (t_tag t) (t_funcs t).
Definition get_if (t : types) := lookup (t_tag t) (t_interfaces t).
Definition get_world (t : types) := lookup (t_tag t) (t_worlds t).
Definition get_mod (t : types) := lookup (t_tag t) (t_modules t).

(** [IndexMap::get]: keys are unique in a real map; on a list we take the first. *)
Fixpoint assoc {B} (k : str) (l : list (str * B)) : option B :=
  match l with
  | [] => None
  | (k', v) :: r => if str_eqb k k' then Some v else assoc k r
  end.
Definition key2_eqb (a b : str * str) : bool := str_eqb (fst a) (fst b) && str_eqb (snd a) (snd b).
Fixpoint assoc2 {B} (k : str * str) (l : list ((str * str) * B)) : option B :=
  match l with
  | [] => None
  | (k', v) :: r => if key2_eqb k k' then Some v else assoc2 k r
  end.

(** Equality of kinds as derived by [#[derive(PartialEq)]] (used by the memo's [HashSet]). *)
Definition valtype_eqb (a b : valtype) : bool :=
  match a, b with
  | VPrim p, VPrim q => prim_eqb p q
  | VBorrow x, VBorrow y | VOwn x, VOwn y | VDefined x, VDefined y => id_eqb x y
  | _, _ => false
  end.
Definition ty_eqb (a b : ty) : bool :=
  match a, b with
  | TResource x, TResource y | TFunc x, TFunc y | TInterface x, TInterface y | TWorld x, TWorld y
  | TModule x, TModule y => id_eqb x y
  | TValue x, TValue y => valtype_eqb x y
  | _, _ => false
  end.
Definition kind_eqb (a b : kind) : bool :=
  match a, b with
  | KType x, KType y => ty_eqb x y
  | KFunc x, KFunc y | KInstance x, KInstance y | KComponent x, KComponent y | KModule x, KModule y => id_eqb x y
  | KValue x, KValue y => valtype_eqb x y
  | _, _ => false
  end.

(** * Tree denotation *)
Inductive vtree :=
| VTPrim (p : prim)
| VTBorrow (n : str)          (* a resource is denoted by the name of its alias-resolved definition *)
| VTOwn (n : str)
| VTTuple (l : list vtree)
| VTList (t : vtree)
| VTFsl (t : vtree) (n : N)
| VTOption (t : vtree)
| VTResult (o e : option vtree)
| VTVariant (c : list (str * option vtree))
| VTRecord (f : list (str * vtree))
| VTFlags (l : list str)
| VTEnum (l : list str)
| VTStream (o : option vtree)
| VTFuture (o : option vtree).

Record ftree := mkft { ft_params : list (str * vtree); ft_result : option vtree; ft_async : bool }.

Inductive tree :=
| XFunc (f : ftree)
| XInst (e : list (str * tree))
| XComp (i e : list (str * tree))
| XMod (m : moduletype)                 (* module types contain no identifiers: they are trees already *)
| XValue (v : vtree)
| XTRes (n : str)
| XTFunc (f : ftree)
| XTValue (v : vtree)
| XTInst (e : list (str * tree))
| XTComp (i e : list (str * tree))
| XTMod (m : moduletype).

(** Sequencing helpers for partial maps over lists. *)
Fixpoint all_some {A} (l : list (option A)) : option (list A) :=
  match l with
  | [] => Some []
  | Some x :: r => match all_some r with Some r' => Some (x :: r') | None => None end
  | None :: _ => None
  end.
Definition omap {A B} (f : A -> option B) (o : option A) : option (option B) :=
  match o with
  | None => Some None
  | Some x => match f x with Some y => Some (Some y) | None => None end
  end.
Definition map_snd {K A B} (f : A -> option B) (l : list (K * A)) : option (list (K * B)) :=
  all_some (map (fun kv => match f (snd kv) with Some y => Some (fst kv, y) | None => None end) l).

Fixpoint res_name_of (fuel : nat) (t : types) (r : id) : option str :=
  match fuel with
  | O => None
  | S f => match get_res t r with
           | None => None
           | Some x => match res_source x with
                       | Some s => res_name_of f t s
                       | None => Some (res_name x)
                       end
           end
  end.

(** [None]: out of fuel, or a dangling identifier. *)
Fixpoint unfold_vt (fuel : nat) (t : types) (v : valtype) : option vtree :=
  match fuel with
  | O => None
  | S f =>
    let U := unfold_vt f t in
    match v with
    | VPrim p => Some (VTPrim p)
    | VBorrow r => option_map VTBorrow (res_name_of fuel t r)
    | VOwn r => option_map VTOwn (res_name_of fuel t r)
    | VDefined d =>
      match get_def t d with
      | None => None
      | Some (DTuple l) => option_map VTTuple (all_some (map U l))
      | Some (DList x) => option_map VTList (U x)
      | Some (DFsl x n) => option_map (fun y => VTFsl y n) (U x)
      | Some (DOption x) => option_map VTOption (U x)
      | Some (DResult o e) =>
        match omap U o, omap U e with Some o', Some e' => Some (VTResult o' e') | _, _ => None end
      | Some (DVariant c) => option_map VTVariant (map_snd (omap U) c)
      | Some (DRecord fs) => option_map VTRecord (map_snd U fs)
      | Some (DFlags l) => Some (VTFlags l)
      | Some (DEnum l) => Some (VTEnum l)
      | Some (DAlias x) => U x
      | Some (DStream o) => option_map VTStream (omap U o)
      | Some (DFuture o) => option_map VTFuture (omap U o)
      end
    end
  end.

Definition unfold_func (fuel : nat) (t : types) (f : id) : option ftree :=
  match get_func t f with
  | None => None
  | Some ft =>
    match map_snd (unfold_vt fuel t) (f_params ft), omap (unfold_vt fuel t) (f_result ft) with
    | Some ps, Some r => Some (mkft ps r (f_async ft))
    | _, _ => None
    end
  end.

Fixpoint unfold (fuel : nat) (t : types) (k : kind) : option tree :=
  match fuel with
  | O => None
  | S f =>
    let U := unfold f t in
    let inst i := match get_if t i with
                  | None => None
                  | Some x => map_snd U (i_exports x)
                  end in
    let comp w := match get_world t w with
                  | None => None
                  | Some x => match map_snd U (w_imports x), map_snd U (w_exports x) with
                              | Some i, Some e => Some (i, e)
                              | _, _ => None
                              end
                  end in
    match k with
    | KFunc i => option_map XFunc (unfold_func fuel t i)
    | KInstance i => option_map XInst (inst i)
    | KComponent w => option_map (fun ie => XComp (fst ie) (snd ie)) (comp w)
    | KModule m => option_map XMod (get_mod t m)
    | KValue v => option_map XValue (unfold_vt fuel t v)
    | KType (TResource r) => option_map XTRes (res_name_of fuel t r)
    | KType (TFunc i) => option_map XTFunc (unfold_func fuel t i)
    | KType (TValue v) => option_map XTValue (unfold_vt fuel t v)
    | KType (TInterface i) => option_map XTInst (inst i)
    | KType (TWorld w) => option_map (fun ie => XTComp (fst ie) (snd ie)) (comp w)
    | KType (TModule m) => option_map XTMod (get_mod t m)
    end
  end.

(** * Well-formedness and acyclicity *)

(** Direct references of each arena entry. *)
Definition ov_list (o : option valtype) : list valtype := match o with Some v => [v] | None => [] end.
Definition def_children (d : deftype) : list valtype :=
  match d with
  | DTuple l => l
  | DList v | DFsl v _ | DOption v | DAlias v => [v]
  | DResult o e => ov_list o ++ ov_list e
  | DVariant c => flat_map (fun kv => ov_list (snd kv)) c
  | DRecord fs => map snd fs
  | DFlags _ | DEnum _ => []
  | DStream o | DFuture o => ov_list o
  end.
Definition func_children (f : functype) : list valtype := map snd (f_params f) ++ ov_list (f_result f).

(** A ranking assigns a natural number to every arena slot; a collection is acyclic for it when every
    reference goes to a strictly smaller rank.  (Collections built only through [add_*] always have one:
    the creation time.  [IndexMut] can break it, e.g. [types[id] = Alias(Defined(id))].) *)
Record ranking := mkrank { rk_def : nat -> nat; rk_res : nat -> nat; rk_func : nat -> nat;
                           rk_if : nat -> nat; rk_world : nat -> nat }.

Definition vrank (r : ranking) (v : valtype) : nat :=
  match v with
  | VPrim _ => 0
  | VBorrow x | VOwn x => S (rk_res r (id_idx x))
  | VDefined d => S (rk_def r (id_idx d))
  end.
Definition krank (r : ranking) (k : kind) : nat :=
  match k with
  | KType (TResource x) => S (rk_res r (id_idx x))
  | KType (TFunc f) | KFunc f => S (rk_func r (id_idx f))
  | KType (TValue v) | KValue v => vrank r v
  | KType (TInterface i) | KInstance i => S (rk_if r (id_idx i))
  | KType (TWorld w) | KComponent w => S (rk_world r (id_idx w))
  | KType (TModule _) | KModule _ => 0
  end.

(** Every identifier mentioned is one of this collection and in range. *)
Definition id_ok {A} (t : types) (l : list A) (i : id) : Prop := id_tag i = t_tag t /\ (id_idx i < length l)%nat.
Definition valtype_ok (t : types) (v : valtype) : Prop :=
  match v with
  | VPrim _ => True
  | VBorrow r | VOwn r => id_ok t (t_resources t) r
  | VDefined d => id_ok t (t_defined t) d
  end.
Definition kind_ok (t : types) (k : kind) : Prop :=
  match k with
  | KType (TResource r) => id_ok t (t_resources t) r
  | KType (TFunc f) | KFunc f => id_ok t (t_funcs t) f
  | KType (TValue v) | KValue v => valtype_ok t v
  | KType (TInterface i) | KInstance i => id_ok t (t_interfaces t) i
  | KType (TWorld w) | KComponent w => id_ok t (t_worlds t) w
  | KType (TModule m) | KModule m => id_ok t (t_modules t) m
  end.

Definition keys {K V} (l : list (K * V)) : list K := map fst l.

Record wf_types (t : types) (r : ranking) : Prop := {
  wf_def : forall i d, nth_error (t_defined t) i = Some d ->
           forall v, In v (def_children d) -> valtype_ok t v /\ (vrank r v <= rk_def r i)%nat;
  wf_res : forall i x, nth_error (t_resources t) i = Some x ->
           forall s, res_source x = Some s -> id_ok t (t_resources t) s /\ (rk_res r (id_idx s) < rk_res r i)%nat;
  wf_func : forall i f, nth_error (t_funcs t) i = Some f ->
            NoDup (keys (f_params f)) /\
            forall v, In v (func_children f) -> valtype_ok t v /\ (vrank r v <= rk_func r i)%nat;
  wf_if : forall i x, nth_error (t_interfaces t) i = Some x ->
          NoDup (keys (i_exports x)) /\
          forall k, In k (map snd (i_exports x)) -> kind_ok t k /\ (krank r k <= rk_if r i)%nat;
  wf_world : forall i x, nth_error (t_worlds t) i = Some x ->
             NoDup (keys (w_imports x)) /\ NoDup (keys (w_exports x)) /\
             forall k, In k (map snd (w_imports x) ++ map snd (w_exports x)) ->
                       kind_ok t k /\ (krank r k <= rk_world r i)%nat;
  wf_mod : forall i m, nth_error (t_modules t) i = Some m ->
           NoDup (keys (m_imports m)) /\ NoDup (keys (m_exports m)) }.

(** No resource anywhere below a kind (the fragment on which the property speaks about the
    reference validator's subtype relation). *)
Fixpoint vt_resfree (t : vtree) : bool :=
  let o x := match x with Some y => vt_resfree y | None => true end in
  match t with
  | VTPrim _ | VTFlags _ | VTEnum _ => true
  | VTBorrow _ | VTOwn _ => false
  | VTTuple l => forallb vt_resfree l
  | VTList x | VTFsl x _ | VTOption x => vt_resfree x
  | VTResult a b => o a && o b
  | VTVariant c => forallb (fun kv => o (snd kv)) c
  | VTRecord f => forallb (fun kv => vt_resfree (snd kv)) f
  | VTStream x | VTFuture x => o x
  end.
Definition ft_resfree (f : ftree) : bool :=
  forallb (fun kv => vt_resfree (snd kv)) (ft_params f)
  && match ft_result f with Some y => vt_resfree y | None => true end.
Fixpoint resfree (t : tree) : bool :=
  match t with
  | XFunc f | XTFunc f => ft_resfree f
  | XInst e | XTInst e => forallb (fun kv => resfree (snd kv)) e
  | XComp i e | XTComp i e => forallb (fun kv => resfree (snd kv)) i && forallb (fun kv => resfree (snd kv)) e
  | XMod _ | XTMod _ => true
  | XValue v | XTValue v => vt_resfree v
  | XTRes _ => false
  end.
