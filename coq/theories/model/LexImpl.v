(** The lexer configuration the Rust code realises: tables generated from [lexer.rs] on every run. *)
From WacV Require Import Str Token Lexer LexTables.
Definition impl_cfg : lexcfg :=
  {| keywords := gen_keywords; symbols := gen_symbols; allow_upper := true; arms := gen_screen_arms;
     q_dash := true; q_kwcolon := true; q_pkgzone := true |}.
