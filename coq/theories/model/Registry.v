(** Model of the key/index bookkeeping of [RegistryPackageResolver::resolve]
    (crates/wac-resolver/src/registry.rs) and of the part of the Warg client it relies on
    (warg-client 0.9.0 [fetch_packages] / [download_exact] / [download], warg-protocol 0.9.0
    [LogState::release] / [find_latest_release], semver [VersionReq::STAR]).

    What is modelled: the requested keys (an [IndexMap<BorrowedPackageKey, SourceSpan>], i.e. an
    ordered list without duplicate (name, version) pairs), the name-indexed table built from them,
    the log fetch, one download task per table entry tagged with its table position, the completion
    loop over an ARBITRARY completion order of those tasks (the list [sched]; theorems quantify over
    every permutation of the task list), the write [packages.insert(keys.get_index(tag), content)]
    and every early return.  [resolve] is the code as found; [resolve_fixed] is the same function
    after the repair proposed in hooks/fix-c20-shared-name.patch (the correspondence determines on
    every run which of the two the working tree implements).  What is data: the registry (name -> releases), the validity oracle of
    [PackageName::new].  Not modelled: networking, the content store, signatures, the progress bar. *)
From WacV Require Import Str Ord Semver.

(** * Keys *)
Definition pkey : Type := (str * option version)%type.      (* BorrowedPackageKey { name, version } *)
Definition kname (k : pkey) : str := fst k.
Definition kver (k : pkey) : option version := snd k.
Definition span := N.                                        (* SourceSpan: identifies the reference *)
Definition keys_t : Type := list (pkey * span).              (* IndexMap<BorrowedPackageKey, SourceSpan> *)

Definition ver_eqb (a b : version) : bool :=
  match cmp_version a b with Eq => true | _ => false end.
Definition over_eqb (a b : option version) : bool :=
  match a, b with
  | None, None => true
  | Some x, Some y => ver_eqb x y
  | _, _ => false
  end.
Definition pkey_eqb (a b : pkey) : bool := str_eqb (kname a) (kname b) && over_eqb (kver a) (kver b).

(** * IndexMap: insertion-ordered association list.  [insert] of a present key replaces the value
      and keeps the position (and the stored key). *)
Section IndexMap.
  Context {K V : Type} (eqb : K -> K -> bool).
  Fixpoint im_get (m : list (K * V)) (k : K) : option V :=
    match m with
    | [] => None
    | (k', v) :: r => if eqb k' k then Some v else im_get r k
    end.
  Fixpoint im_insert (m : list (K * V)) (k : K) (v : V) : list (K * V) :=
    match m with
    | [] => [(k, v)]
    | (k', v') :: r => if eqb k' k then (k', v) :: r else (k', v') :: im_insert r k v
    end.
End IndexMap.

(** * Registry *)
Definition content := N.                                     (* identity of a published blob *)
Inductive rstate := Released (c : content) | Yanked.
Definition releases : Type := list (version * rstate).       (* LogState.releases: IndexMap<Version, Release> *)
Definition registry : Type := list (str * releases).         (* package logs known to the server *)

Definition reg_find (reg : registry) (name : str) : option releases := im_get str_eqb reg name.
Definition release (rels : releases) (v : version) : option rstate := im_get ver_eqb rels v.

(** [VersionReq::STAR.matches(v)]: no comparators, so only versions without a pre-release tag. *)
Definition star_matches (v : version) : bool := is_nil (pre v).

(** [find_latest_release(&STAR)]: [filter(!yanked && matches).max_by(version.cmp)];
    [Iterator::max_by] keeps the later of two equal elements. *)
Definition eligible (r : version * rstate) : bool :=
  match snd r with Released _ => star_matches (fst r) | Yanked => false end.
Definition max_step (acc : option (version * rstate)) (x : version * rstate) : option (version * rstate) :=
  match acc with
  | None => Some x
  | Some a => match cmp_version (fst a) (fst x) with Gt => Some a | _ => Some x end
  end.
Definition find_latest_release (rels : releases) : option (version * rstate) :=
  fold_left max_step (filter eligible rels) None.

(** * Errors of [wac_resolver::Error] that [resolve] can construct from registry answers. *)
Inductive rerror :=
  | EInvalidPackageName (name : str) (s : span)
  | EPackageDoesNotExist (name : str) (s : span)
  | EPackageVersionDoesNotExist (name : str) (v : version) (s : span)
  | EPackageNoReleases (name : str) (s : span)
  | ERegistryDownloadFailure.        (* any other client error inside a download task *)

Inductive result :=
  | ROk (packages : list (pkey * content))    (* IndexMap<BorrowedPackageKey, Vec<u8>>, insertion order *)
  | RErr (e : rerror)
  | RPanic.                                   (* an [unwrap]/[assert_eq!] of [resolve] failing *)

(** * The name-indexed table: [keys.iter().map(..).collect::<Result<IndexMap<PackageName,(Option<Version>,SourceSpan)>,_>>()]
      The first key whose name [PackageName::new] rejects ends the collection with an error;
      a later key with an already present name overwrites (version, span) in place. *)
Definition table_t : Type := list (str * (option version * span)).

(** One task per table entry: [for (index, (package_name, (version, span))) in table.into_iter().enumerate()]. *)
Record task := { t_index : nat; t_name : str; t_version : option version; t_span : span }.
Fixpoint spawn (tbl : table_t) (index : nat) : list task :=
  match tbl with
  | [] => []
  | (n, (v, s)) :: r => {| t_index := index; t_name := n; t_version := v; t_span := s |} :: spawn r (S index)
  end.

Section Resolve.
  Variable valid_name : str -> bool.          (* oracle: [PackageName::new(name).is_ok()] *)
  Variable reg : registry.

  Fixpoint collect (keys : keys_t) (tbl : table_t) : table_t + rerror :=
    match keys with
    | [] => inl tbl
    | (k, s) :: rest =>
        if valid_name (kname k) then collect rest (im_insert str_eqb tbl (kname k) (kver k, s))
        else inr (EInvalidPackageName (kname k) s)
    end.

  (** [client.fetch_packages(table.keys())]: the server answers [LogNotFound] for the first
      requested log it does not have (request order = table order); the span is looked up again
      in the table ([.get(&name).unwrap().1]). *)
  Fixpoint first_missing (names : list str) : option str :=
    match names with
    | [] => None
    | n :: r => match reg_find reg n with None => Some n | Some _ => first_missing r end
    end.

  (** What a task evaluates to: [download_exact] / [download(&STAR)] with the error mapping. *)
  Definition run_task (t : task) : content + rerror :=
    match reg_find reg (t_name t) with
    | None => inr ERegistryDownloadFailure             (* [self.package(name)] fails: not a mapped error *)
    | Some rels =>
        match t_version t with
        | Some v =>
            match release rels v with
            | Some (Released c) => inl c
            | Some Yanked | None => inr (EPackageVersionDoesNotExist (t_name t) v (t_span t))
            end
        | None =>
            match find_latest_release rels with
            | Some (_, Released c) => inl c
            | Some (_, Yanked) => inr ERegistryDownloadFailure   (* "invalid state: not yanked but missing content" *)
            | None => inr (EPackageNoReleases (t_name t) (t_span t))
            end
        end
    end.

  (** The completion loop [while let Some(res) = tasks.next().await]: [sched] is the order in which
      the spawned tasks complete.  The first failed completion returns its error; a successful one
      stores the content under [keys.get_index(index)]. *)
  Fixpoint complete (keys : keys_t) (sched : list task) (packages : list (pkey * content)) (finished : nat)
    : list (pkey * content) * nat + result :=
    match sched with
    | [] => inl (packages, finished)
    | t :: rest =>
        match run_task t with
        | inr e => inr (RErr e)
        | inl c =>
            match nth_error keys (t_index t) with
            | None => inr RPanic                                     (* keys.get_index(index).unwrap() *)
            | Some (k, _) => complete keys rest (im_insert pkey_eqb packages k c) (S finished)
            end
        end
    end.

  Definition tasks_of (keys : keys_t) : list task :=
    match collect keys [] with inl tbl => spawn tbl 0 | inr _ => [] end.

  Definition resolve (keys : keys_t) (sched : list task) : result :=
    match collect keys [] with
    | inr e => RErr e
    | inl tbl =>
        match first_missing (map fst tbl) with
        | Some name =>
            match im_get str_eqb tbl name with
            | Some (_, s) => RErr (EPackageDoesNotExist name s)
            | None => RPanic
            end
        | None =>
            let count := length (spawn tbl 0) in
            match complete keys sched [] 0 with
            | inr r => r
            | inl (packages, finished) =>
                if Nat.eqb finished count then ROk packages else RPanic   (* assert_eq!(finished, count) *)
            end
        end
    end.

  (** ** The repaired algorithm (hooks/fix-c20-shared-name.patch), modelled the same way.
      One entry and one task per KEY, in key order ([Vec<(PackageName,(Option<Version>,SourceSpan))>]),
      so a task's tag is its key's position; the distinct names, each with the span of the first
      key referencing it ([entry(name).or_insert(span)]), serve the log fetch only. *)
  Fixpoint collect_list (keys : keys_t) : table_t + rerror :=
    match keys with
    | [] => inl []
    | (k, s) :: rest =>
        if valid_name (kname k) then
          match collect_list rest with
          | inl l => inl ((kname k, (kver k, s)) :: l)
          | inr e => inr e
          end
        else inr (EInvalidPackageName (kname k) s)
    end.

  Definition or_insert (m : list (str * span)) (n : str) (s : span) : list (str * span) :=
    match im_get str_eqb m n with Some _ => m | None => m ++ [(n, s)] end.
  Definition names_of (lst : table_t) : list (str * span) :=
    fold_left (fun m e => or_insert m (fst e) (snd (snd e))) lst [].

  Definition tasks_of_fixed (keys : keys_t) : list task :=
    match collect_list keys with inl lst => spawn lst 0 | inr _ => [] end.

  Definition resolve_fixed (keys : keys_t) (sched : list task) : result :=
    match collect_list keys with
    | inr e => RErr e
    | inl lst =>
        let names := names_of lst in
        match first_missing (map fst names) with
        | Some name =>
            match im_get str_eqb names name with
            | Some s => RErr (EPackageDoesNotExist name s)
            | None => RPanic
            end
        | None =>
            let count := length (spawn lst 0) in
            match complete keys sched [] 0 with
            | inr r => r
            | inl (packages, finished) =>
                if Nat.eqb finished count then ROk packages else RPanic
            end
        end
    end.
End Resolve.

(** Observation helpers used by the correspondence (not by the theorems). *)
Definition rerror_eqb (a b : rerror) : bool :=
  match a, b with
  | EInvalidPackageName n s, EInvalidPackageName n' s' => str_eqb n n' && (s =? s')
  | EPackageDoesNotExist n s, EPackageDoesNotExist n' s' => str_eqb n n' && (s =? s')
  | EPackageVersionDoesNotExist n v s, EPackageVersionDoesNotExist n' v' s' =>
      str_eqb n n' && ver_eqb v v' && (s =? s')
  | EPackageNoReleases n s, EPackageNoReleases n' s' => str_eqb n n' && (s =? s')
  | ERegistryDownloadFailure, ERegistryDownloadFailure => true
  | _, _ => false
  end.

(** All orders of a list (used by the driver to enumerate completion orders). *)
Fixpoint insert_all {A} (x : A) (l : list A) : list (list A) :=
  match l with
  | [] => [[x]]
  | y :: r => (x :: l) :: map (cons y) (insert_all x r)
  end.
Fixpoint perms {A} (l : list A) : list (list A) :=
  match l with
  | [] => [[]]
  | x :: r => flat_map (insert_all x) (perms r)
  end.
