(** Model of [crates/wac-resolver/src/visitor.rs] ([PackageVisitor]) and of [packages()] in
    [crates/wac-resolver/src/lib.rs].

    [PackageVisitor<T>] is generic in a callback [T : FnMut(name, version, span) -> bool]; a [false]
    stops the walk.  The model is generic in the same way: the callback is a state transformer
    [cb : S -> str -> option version -> span -> S * bool] (the closure's captured state is [S]) and
    every visitor function returns the new state and the "keep going" flag, exactly where the Rust
    code returns [bool] / [Result<bool, Error>].  [packages] instantiates it with the closure of
    [packages()]: skip the document's own package name, otherwise [IndexMap::insert] (first
    position is kept, the stored span is overwritten), always continue. *)
From WacV Require Import Str Token Lexer Semver Ast.

(** * Package keys: [BorrowedPackageKey { name, version }] (derived [Eq]/[Hash] on both fields;
      [semver::Version]'s [Eq] is structural, build metadata included). *)
Definition pkgkey : Type := (str * option version)%type.

Definition version_eqb (a b : version) : bool :=
  (major a =? major b) && (minor a =? minor b) && (patch a =? patch b)
  && str_eqb (pre a) (pre b) && str_eqb (build a) (build b).
Definition oversion_eqb (a b : option version) : bool :=
  match a, b with
  | None, None => true
  | Some x, Some y => version_eqb x y
  | _, _ => false
  end.
Definition pkgkey_eqb (a b : pkgkey) : bool := str_eqb (fst a) (fst b) && oversion_eqb (snd a) (snd b).

(** [IndexMap<BorrowedPackageKey, SourceSpan>]: insertion-ordered; [insert] on a present key keeps
    the position and the stored key and replaces the value. *)
Definition keymap : Type := list (pkgkey * span).
Fixpoint km_insert (m : keymap) (k : pkgkey) (sp : span) : keymap :=
  match m with
  | [] => [(k, sp)]
  | (k', sp') :: r => if pkgkey_eqb k' k then (k', sp) :: r else (k', sp') :: km_insert r k sp
  end.

(** [Error::CannotInstantiateSelf { span }] is the only error the visitor can produce. *)
Inductive visit_error : Set := CannotInstantiateSelf (sp : span).
Inductive vres (A : Type) : Type := VOk (a : A) | VErr (e : visit_error).
Arguments VOk {A}. Arguments VErr {A}.

(** [PackagePath::package_name_span]: the path's offset, the byte length of the name. *)
Definition name_span (p : package_path) : span := {| off := off (pp_span p); slen := byte_len (pp_name p) |}.

Section PackageVisitor.
  Context {S : Type}.
  Variable cb : S -> str -> option version -> span -> S * bool.

  (** [(self.0)(p.name, p.version.as_ref(), p.package_name_span())] *)
  Definition cb_path (s : S) (p : package_path) : S * bool :=
    cb s (pp_name p) (pp_version p) (name_span p).

  (** [for item in items { if !f(item) { return false; } } true] *)
  Fixpoint v_all {A : Type} (f : S -> A -> S * bool) (s : S) (l : list A) : S * bool :=
    match l with
    | [] => (s, true)
    | x :: r => let '(s1, go) := f s x in if go then v_all f s1 r else (s1, false)
    end.

  Definition v_use (s : S) (u : use_decl) : S * bool :=
    match u_path u with
    | UPPackage p => cb_path s p
    | UPIdent _ => (s, true)
    end.

  (** [fn interface_item] *)
  Definition v_interface_item (s : S) (it : interface_item) : S * bool :=
    match it with
    | IIUse u => v_use s u
    | IIType _ | IIExport _ _ _ => (s, true)
    end.

  (** [fn world_item_path] *)
  Definition v_world_item_path (s : S) (p : world_item_path) : S * bool :=
    match p with
    | WPNamed _ (ETInterface items) => v_all v_interface_item s items
    | WPNamed _ (ETIdent _) | WPNamed _ (ETFunc _) => (s, true)
    | WPPackage p => cb_path s p
    | WPIdent _ => (s, true)
    end.

  (** [fn world_item] *)
  Definition v_world_item (s : S) (it : world_item) : S * bool :=
    match it with
    | WIUse u => v_use s u
    | WIType _ => (s, true)
    | WIImport _ p => v_world_item_path s p
    | WIExport _ p => v_world_item_path s p
    | WIInclude _ (WRPackage p) _ => cb_path s p
    | WIInclude _ (WRIdent _) _ => (s, true)
    end.

  (** [fn import_statement] *)
  Definition v_import_statement (s : S) (t : import_type) : S * bool :=
    match t with
    | ITPackage p => cb_path s p
    | ITInterface items => v_all v_interface_item s items
    | ITFunc _ | ITIdent _ => (s, true)
    end.

  (** [fn type_statement] *)
  Definition v_type_statement (s : S) (t : type_statement) : S * bool :=
    match t with
    | TSInterface _ _ items => v_all v_interface_item s items
    | TSWorld _ _ items => v_all v_world_item s items
    | TSType _ => (s, true)
    end.

  (** [fn expr(&mut self, this: &str, expr) -> Result<bool, Error>]: the self check comes BEFORE the
      callback; only named arguments are descended into; postfix expressions are not looked at. *)
  Fixpoint v_expr (this : str) (s : S) (e : expr) {struct e} : vres (S * bool) :=
    match e with
    | Expr _ p _ => v_primary this s p
    end
  with v_primary (this : str) (s : S) (p : primary_expr) {struct p} : vres (S * bool) :=
    match p with
    | PNew _ pkg args =>
        if str_eqb (pn_name pkg) this then VErr (CannotInstantiateSelf (pn_span pkg))
        else
          let '(s1, go) := cb s (pn_name pkg) (pn_version pkg) (pn_span pkg) in
          if go then
            (fix args_loop (s : S) (l : list inst_arg) {struct l} : vres (S * bool) :=
               match l with
               | [] => VOk (s, true)
               | a :: r =>
                   match v_arg this s a with
                   | VErr e => VErr e
                   | VOk (s2, true) => args_loop s2 r
                   | VOk (s2, false) => VOk (s2, false)
                   end
               end) s1 args
          else VOk (s1, false)
    | PNested _ inner => v_expr this s inner
    | PIdent _ => VOk (s, true)
    end
  with v_arg (this : str) (s : S) (a : inst_arg) {struct a} : vres (S * bool) :=
    match a with
    | AInferred _ | ASpread _ | AFill _ => VOk (s, true)          (* continue *)
    | ANamed _ e => v_expr this s e
    end.

  Definition v_statement (this : str) (s : S) (st : statement) : vres (S * bool) :=
    match st with
    | SImport _ _ _ t => VOk (v_import_statement s t)
    | SType t => VOk (v_type_statement s t)
    | SLet _ _ e => v_expr this s e
    | SExport _ e _ => v_expr this s e
    end.

  (** [for stmt in &doc.statements { ... if !x { break; } }] with [?] on the expression arms *)
  Fixpoint v_statements (this : str) (s : S) (l : list statement) : vres (S * bool) :=
    match l with
    | [] => VOk (s, true)
    | st :: r =>
        match v_statement this s st with
        | VErr e => VErr e
        | VOk (s1, true) => v_statements this s1 r
        | VOk (s1, false) => VOk (s1, false)
        end
    end.

  (** [PackageVisitor::visit] *)
  Definition gvisit (s : S) (d : document) : vres (S * bool) :=
    let this := pn_name (pd_package (doc_directive d)) in
    match pd_targets (doc_directive d) with
    | Some t =>
        let '(s1, go) := cb_path s t in
        if go then v_statements this s1 (doc_statements d) else VOk (s1, false)
    | None => v_statements this s (doc_statements d)
    end.
End PackageVisitor.

(** * [packages()] *)
Definition own_name (d : document) : str := pn_name (pd_package (doc_directive d)).

(** The closure: [if name == document.directive.package.name { return true; } keys.insert(..); true] *)
Definition pk_cb (own : str) (m : keymap) (name : str) (v : option version) (sp : span) : keymap * bool :=
  if str_eqb name own then (m, true) else (km_insert m (name, v) sp, true).

Definition packages (d : document) : vres keymap :=
  match gvisit (pk_cb (own_name d)) [] d with
  | VOk (m, _) => VOk m
  | VErr e => VErr e
  end.

(** The discovered keys, in map order. *)
Definition visit (d : document) : vres (list pkgkey) :=
  match packages d with
  | VOk m => VOk (map fst m)
  | VErr e => VErr e
  end.

(** * Specification-side predicate: the document contains a [new] of its own package, at any depth
      of named arguments and parentheses, in a [let] or [export] statement. *)
Fixpoint expr_self_new (this : str) (e : expr) {struct e} : bool :=
  match e with
  | Expr _ p _ => primary_self_new this p
  end
with primary_self_new (this : str) (p : primary_expr) {struct p} : bool :=
  match p with
  | PNew _ pkg args =>
      str_eqb (pn_name pkg) this
      || (fix any (l : list inst_arg) : bool :=
            match l with [] => false | a :: r => arg_self_new this a || any r end) args
  | PNested _ inner => expr_self_new this inner
  | PIdent _ => false
  end
with arg_self_new (this : str) (a : inst_arg) {struct a} : bool :=
  match a with
  | ANamed _ e => expr_self_new this e
  | AInferred _ | ASpread _ | AFill _ => false
  end.

Definition statement_self_new (this : str) (st : statement) : bool :=
  match st with
  | SLet _ _ e => expr_self_new this e
  | SExport _ e _ => expr_self_new this e
  | SImport _ _ _ _ | SType _ => false
  end.

Definition has_self_new (d : document) : bool := existsb (statement_self_new (own_name d)) (doc_statements d).
