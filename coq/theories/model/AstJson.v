(** The serde JSON form of the AST ([#[derive(Serialize)]] with [rename_all = "camelCase"], externally
    tagged enums), as a value tree and a canonical printer: object keys sorted, a [SourceSpan]
    printed as [@offset+length], strings with backslash escapes for backslash, quote, tab, CR, LF.
    Used only by correspondence drivers (C12, C13). *)
From Coq Require Import String.
From WacV Require Import Str StrLit Ord Show Token Lexer Semver Ast.

Inductive json : Set :=
| JNull
| JBool (b : bool)
| JStr (s : str)
| JSpan (sp : span)
| JArr (l : list json)
| JObj (l : list (str * json)).

(* ------------------------------------------------------------------ printer *)

Fixpoint esc (s : str) : str :=
  match s with
  | [] => []
  | c :: r =>
      (if c =? 92 then [92; 92] else if c =? 34 then [92; 34] else if c =? 10 then [92; 110]
       else if c =? 13 then [92; 114] else if c =? 9 then [92; 116] else [c]) ++ esc r
  end.

Definition quoted (s : str) : str := 34 :: esc s ++ [34].

Fixpoint insert_kv (kv : str * json) (l : list (str * json)) : list (str * json) :=
  match l with
  | [] => [kv]
  | x :: r => match str_cmp (fst kv) (fst x) with
              | Gt => x :: insert_kv kv r
              | _ => kv :: l
              end
  end.
Definition sort_kv (l : list (str * json)) : list (str * json) := fold_right insert_kv [] l.

Definition show_span (sp : span) : str := 64 :: show_N (off sp) ++ 43 :: show_N (slen sp).

(** Accumulator-style printer (output is built right to left, no quadratic appends). *)
Fixpoint show_json_acc (j : json) (acc : str) : str :=
  match j with
  | JNull => L"null" ++ acc
  | JBool true => L"true" ++ acc
  | JBool false => L"false" ++ acc
  | JStr s => quoted s ++ acc
  | JSpan sp => show_span sp ++ acc
  | JArr l =>
      91 :: (fix go (l : list json) (first : bool) : str :=
               match l with
               | [] => 93 :: acc
               | x :: r => (if first then [] else [44]) ++ show_json_acc x (go r false)
               end) l true
  | JObj l =>
      123 :: (fix go (l : list (str * json)) (first : bool) : str :=
                match l with
                | [] => 125 :: acc
                | (k, v) :: r => (if first then [] else [44]) ++ quoted k ++ 58 :: show_json_acc v (go r false)
                end) l true
  end.
Definition show_json (j : json) : str := show_json_acc j [].

(* ------------------------------------------------------------------ AST to JSON *)
Definition show_version (v : version) : str :=
  show_N (major v) ++ [c_dot] ++ show_N (minor v) ++ [c_dot] ++ show_N (patch v)
  ++ (if is_nil (pre v) then [] else c_dash :: pre v)
  ++ (if is_nil (build v) then [] else c_plus :: build v).


(** Objects are built with sorted keys. *)
Definition obj (l : list (str * json)) : json := JObj (sort_kv l).
Definition tag (name : str) (v : json) : json := obj [(name, v)].
Definition jopt {A} (f : A -> json) (o : option A) : json := match o with Some x => f x | None => JNull end.
Definition jlist {A} (f : A -> json) (l : list A) : json := JArr (map f l).

Definition j_doc (d : doc) : json := obj [(L"comment", JStr (fst d)); (L"span", JSpan (snd d))].
Definition j_docs (l : list doc) : json := jlist j_doc l.
Definition j_ident (i : ident) : json := obj [(L"string", JStr (id_string i)); (L"span", JSpan (id_span i))].
Definition j_strlit (s : strlit) : json := obj [(L"value", JStr (s_value s)); (L"span", JSpan (s_span s))].
Definition j_version (v : option version) : json := jopt (fun v => JStr (show_version v)) v.

Definition j_package_name (p : package_name) : json :=
  obj [(L"string", JStr (pn_string p)); (L"name", JStr (pn_name p)); (L"version", j_version (pn_version p));
       (L"span", JSpan (pn_span p))].
Definition j_package_path (p : package_path) : json :=
  obj [(L"span", JSpan (pp_span p)); (L"string", JStr (pp_string p)); (L"name", JStr (pp_name p));
       (L"segments", JStr (pp_segments p)); (L"version", j_version (pp_version p))].

Definition prim_name (p : prim) : str :=
  match p with
  | PU8 => L"u8" | PS8 => L"s8" | PU16 => L"u16" | PS16 => L"s16" | PU32 => L"u32" | PS32 => L"s32"
  | PU64 => L"u64" | PS64 => L"s64" | PF32 => L"f32" | PF64 => L"f64" | PChar => L"char"
  | PBool => L"bool" | PString => L"string"
  end.

Fixpoint j_ty (t : ty) : json :=
  match t with
  | TyPrim p sp => tag (prim_name p) (JSpan sp)
  | TyTuple ts sp => tag L"tuple" (JArr [JArr (map j_ty ts); JSpan sp])
  | TyList t sp => tag L"list" (JArr [j_ty t; JSpan sp])
  | TyOption t sp => tag L"option" (JArr [j_ty t; JSpan sp])
  | TyResult ok err sp =>
      tag L"result" (obj [(L"ok", match ok with Some t => j_ty t | None => JNull end);
                         (L"err", match err with Some t => j_ty t | None => JNull end);
                         (L"span", JSpan sp)])
  | TyBorrow i sp => tag L"borrow" (JArr [j_ident i; JSpan sp])
  | TyBorrowTy t sp => tag L"borrowTy" (JArr [j_ty t; JSpan sp])
  | TyIdent i => tag L"ident" (j_ident i)
  end.

Definition j_named_type (n : named_type) : json := obj [(L"id", j_ident (nt_id n)); (L"ty", j_ty (nt_ty n))].
Definition j_result_list (r : result_list) : json :=
  match r with
  | RLEmpty => JStr (L"empty")
  | RLScalar t => tag L"scalar" (j_ty t)
  | RLNamed rs => tag L"named" (jlist j_named_type rs)
  end.
Definition j_func_type (f : func_type) : json :=
  obj [(L"params", jlist j_named_type (ft_params f)); (L"results", j_result_list (ft_results f))].

Definition j_extern_name (n : extern_name) : json :=
  match n with ENIdent i => tag L"ident" (j_ident i) | ENString s => tag L"string" (j_strlit s) end.

Definition j_resource_method (m : resource_method) : json :=
  match m with
  | RMConstructor docs sp ps =>
      tag L"constructor" (obj [(L"docs", j_docs docs); (L"span", JSpan sp); (L"params", jlist j_named_type ps)])
  | RMMethod docs i st f =>
      tag L"method" (obj [(L"docs", j_docs docs); (L"id", j_ident i); (L"isStatic", JBool st); (L"ty", j_func_type f)])
  end.

Definition j_item_type_decl (d : item_type_decl) : json :=
  match d with
  | DResource docs i ms =>
      tag L"resource" (obj [(L"docs", j_docs docs); (L"id", j_ident i); (L"methods", jlist j_resource_method ms)])
  | DVariant docs i cs =>
      tag L"variant" (obj [(L"docs", j_docs docs); (L"id", j_ident i);
        (L"cases", jlist (fun c => obj [(L"docs", j_docs (vc_docs c)); (L"id", j_ident (vc_id c));
                                       (L"ty", jopt j_ty (vc_ty c))]) cs)])
  | DRecord docs i fs =>
      tag L"record" (obj [(L"docs", j_docs docs); (L"id", j_ident i);
        (L"fields", jlist (fun f => obj [(L"docs", j_docs (fd_docs f)); (L"id", j_ident (fd_id f));
                                        (L"ty", j_ty (fd_ty f))]) fs)])
  | DFlags docs i fs =>
      tag L"flags" (obj [(L"docs", j_docs docs); (L"id", j_ident i);
        (L"flags", jlist (fun f => obj [(L"docs", j_docs (fl_docs f)); (L"id", j_ident (fl_id f))]) fs)])
  | DEnum docs i cs =>
      tag L"enum" (obj [(L"docs", j_docs docs); (L"id", j_ident i);
        (L"cases", jlist (fun c => obj [(L"docs", j_docs (ec_docs c)); (L"id", j_ident (ec_id c))]) cs)])
  | DAlias docs i k =>
      tag L"alias" (obj [(L"docs", j_docs docs); (L"id", j_ident i);
        (L"kind", match k with TAFunc f => tag L"func" (j_func_type f) | TAType t => tag L"type" (j_ty t) end)])
  end.

Definition j_use (u : use_decl) : json :=
  obj [(L"docs", j_docs (u_docs u));
       (L"path", match u_path u with
                | UPPackage p => tag L"package" (j_package_path p)
                | UPIdent i => tag L"ident" (j_ident i)
                end);
       (L"items", jlist (fun it => obj [(L"id", j_ident (ui_id it)); (L"asId", jopt j_ident (ui_as it))]) (u_items u))].

Definition j_interface_item (it : interface_item) : json :=
  match it with
  | IIUse u => tag L"use" (j_use u)
  | IIType d => tag L"type" (j_item_type_decl d)
  | IIExport docs i t =>
      tag L"export" (obj [(L"docs", j_docs docs); (L"id", j_ident i);
        (L"ty", match t with FRFunc f => tag L"func" (j_func_type f) | FRIdent i => tag L"ident" (j_ident i) end)])
  end.

Definition j_inline_interface (items : list interface_item) : json :=
  obj [(L"items", jlist j_interface_item items)].

Definition j_extern_type (t : extern_type) : json :=
  match t with
  | ETIdent i => tag L"ident" (j_ident i)
  | ETFunc f => tag L"func" (j_func_type f)
  | ETInterface items => tag L"interface" (j_inline_interface items)
  end.

Definition j_world_item_path (p : world_item_path) : json :=
  match p with
  | WPNamed i t => tag L"named" (obj [(L"id", j_ident i); (L"ty", j_extern_type t)])
  | WPPackage p => tag L"package" (j_package_path p)
  | WPIdent i => tag L"ident" (j_ident i)
  end.

Definition j_world_item (w : world_item) : json :=
  match w with
  | WIUse u => tag L"use" (j_use u)
  | WIType d => tag L"type" (j_item_type_decl d)
  | WIImport docs p => tag L"import" (obj [(L"docs", j_docs docs); (L"path", j_world_item_path p)])
  | WIExport docs p => tag L"export" (obj [(L"docs", j_docs docs); (L"path", j_world_item_path p)])
  | WIInclude docs w items =>
      tag L"include" (obj [(L"docs", j_docs docs);
        (L"world", match w with WRIdent i => tag L"ident" (j_ident i) | WRPackage p => tag L"package" (j_package_path p) end);
        (L"with", jlist (fun it => obj [(L"from", j_ident (ii_from it)); (L"to", j_ident (ii_to it))]) items)])
  end.

Definition j_type_statement (t : type_statement) : json :=
  match t with
  | TSInterface docs i items =>
      tag L"interface" (obj [(L"docs", j_docs docs); (L"id", j_ident i); (L"items", jlist j_interface_item items)])
  | TSWorld docs i items =>
      tag L"world" (obj [(L"docs", j_docs docs); (L"id", j_ident i); (L"items", jlist j_world_item items)])
  | TSType d => tag L"type" (j_item_type_decl d)
  end.

Definition j_postfix (p : postfix_expr) : json :=
  match p with
  | PAccess sp i => tag L"access" (obj [(L"span", JSpan sp); (L"id", j_ident i)])
  | PNamedAccess sp s => tag L"namedAccess" (obj [(L"span", JSpan sp); (L"string", j_strlit s)])
  end.

Fixpoint j_expr (x : expr) : json :=
  match x with
  | Expr sp p post =>
      obj [(L"span", JSpan sp); (L"primary", j_primary p); (L"postfix", JArr (map j_postfix post))]
  end
with j_primary (p : primary_expr) : json :=
  match p with
  | PNew sp pkg args =>
      tag L"new" (obj [(L"span", JSpan sp); (L"package", j_package_name pkg);
                      (L"arguments", JArr ((fix go (l : list inst_arg) : list json :=
                                             match l with [] => [] | a :: r => j_arg a :: go r end) args))])
  | PNested sp inner => tag L"nested" (obj [(L"span", JSpan sp); (L"inner", j_expr inner)])
  | PIdent i => tag L"ident" (j_ident i)
  end
with j_arg (a : inst_arg) : json :=
  match a with
  | AInferred i => tag L"inferred" (j_ident i)
  | ASpread i => tag L"spread" (j_ident i)
  | ANamed n x =>
      tag L"named" (obj [(L"name", match n with ANIdent i => tag L"ident" (j_ident i) | ANString s => tag L"string" (j_strlit s) end);
                        (L"expr", j_expr x)])
  | AFill sp => tag L"fill" (JSpan sp)
  end.

Definition j_statement (s : statement) : json :=
  match s with
  | SImport docs i name t =>
      tag L"Import" (obj [(L"docs", j_docs docs); (L"id", j_ident i); (L"name", jopt j_extern_name name);
        (L"ty", match t with
               | ITPackage p => tag L"package" (j_package_path p)
               | ITFunc f => tag L"func" (j_func_type f)
               | ITInterface items => tag L"interface" (j_inline_interface items)
               | ITIdent i => tag L"ident" (j_ident i)
               end)])
  | SType t => tag L"Type" (j_type_statement t)
  | SLet docs i x => tag L"Let" (obj [(L"docs", j_docs docs); (L"id", j_ident i); (L"expr", j_expr x)])
  | SExport docs x o =>
      tag L"Export" (obj [(L"docs", j_docs docs); (L"expr", j_expr x);
        (L"options", match o with
                    | EONone => JStr (L"none")
                    | EOSpread sp => tag L"spread" (JSpan sp)
                    | EORename n => tag L"rename" (j_extern_name n)
                    end)])
  end.

Definition j_document (d : document) : json :=
  obj [(L"docs", j_docs (doc_docs d));
       (L"directive",
        obj ((L"package", j_package_name (pd_package (doc_directive d))) ::
             match pd_targets (doc_directive d) with
             | Some p => [(L"targets", j_package_path p)]   (* skip_serializing_if = "Option::is_none" *)
             | None => []
             end));
       (L"statements", jlist j_statement (doc_statements d))].
