(** The WAC AST of [crates/wac-parser/src/ast.rs] and [ast/{type,expr,import,export,let}.rs],
    including spans and doc comments. Field order follows the Rust structs. Two constructors
    ([RLNamed], [TyBorrowTy]) have no Rust counterpart: they represent trees that only the documented
    grammar can build (named result lists, [borrow<type>]) and are never produced under [impl_flags]. *)
From WacV Require Import Str Token Lexer Semver.

Record ident : Set := { id_string : str; id_span : span }.
Record strlit : Set := { s_value : str; s_span : span }.

Record package_name : Set := {
  pn_string : str; pn_name : str; pn_version : option version; pn_span : span }.
Record package_path : Set := {
  pp_span : span; pp_string : str; pp_name : str; pp_segments : str; pp_version : option version }.

Inductive prim : Set :=
| PU8 | PS8 | PU16 | PS16 | PU32 | PS32 | PU64 | PS64 | PF32 | PF64 | PChar | PBool | PString.

Inductive ty : Set :=
| TyPrim (p : prim) (sp : span)
| TyTuple (ts : list ty) (sp : span)
| TyList (t : ty) (sp : span)
| TyOption (t : ty) (sp : span)
| TyResult (ok err : option ty) (sp : span)
| TyBorrow (id : ident) (sp : span)
| TyBorrowTy (t : ty) (sp : span)            (* documented grammar only *)
| TyIdent (id : ident).

Record named_type : Set := { nt_id : ident; nt_ty : ty }.

Inductive result_list : Set :=
| RLEmpty
| RLScalar (t : ty)
| RLNamed (rs : list named_type).            (* documented grammar only *)

Record func_type : Set := { ft_params : list named_type; ft_results : result_list }.

Inductive extern_name : Set := ENIdent (i : ident) | ENString (s : strlit).

Record variant_case : Set := { vc_docs : list doc; vc_id : ident; vc_ty : option ty }.
Record field : Set := { fd_docs : list doc; fd_id : ident; fd_ty : ty }.
Record flag : Set := { fl_docs : list doc; fl_id : ident }.
Record enum_case : Set := { ec_docs : list doc; ec_id : ident }.

Inductive resource_method : Set :=
| RMConstructor (docs : list doc) (sp : span) (params : list named_type)
| RMMethod (docs : list doc) (id : ident) (is_static : bool) (t : func_type).

Inductive type_alias_kind : Set := TAFunc (f : func_type) | TAType (t : ty).

(** [ItemTypeDecl]; [TypeDecl] is the same without [DResource]. *)
Inductive item_type_decl : Set :=
| DResource (docs : list doc) (id : ident) (methods : list resource_method)
| DVariant (docs : list doc) (id : ident) (cases : list variant_case)
| DRecord (docs : list doc) (id : ident) (fields : list field)
| DFlags (docs : list doc) (id : ident) (flags : list flag)
| DEnum (docs : list doc) (id : ident) (cases : list enum_case)
| DAlias (docs : list doc) (id : ident) (kind : type_alias_kind).

Inductive func_type_ref : Set := FRFunc (f : func_type) | FRIdent (i : ident).

Inductive use_path : Set := UPPackage (p : package_path) | UPIdent (i : ident).
Record use_item : Set := { ui_id : ident; ui_as : option ident }.
Record use_decl : Set := { u_docs : list doc; u_path : use_path; u_items : list use_item }.

Inductive interface_item : Set :=
| IIUse (u : use_decl)
| IIType (d : item_type_decl)
| IIExport (docs : list doc) (id : ident) (t : func_type_ref).

Inductive extern_type : Set :=
| ETIdent (i : ident) | ETFunc (f : func_type) | ETInterface (items : list interface_item).

Inductive world_item_path : Set :=
| WPNamed (id : ident) (t : extern_type) | WPPackage (p : package_path) | WPIdent (i : ident).

Inductive world_ref : Set := WRIdent (i : ident) | WRPackage (p : package_path).
Record include_item : Set := { ii_from : ident; ii_to : ident }.

Inductive world_item : Set :=
| WIUse (u : use_decl)
| WIType (d : item_type_decl)
| WIImport (docs : list doc) (p : world_item_path)
| WIExport (docs : list doc) (p : world_item_path)
| WIInclude (docs : list doc) (w : world_ref) (items : list include_item).

Inductive type_statement : Set :=
| TSInterface (docs : list doc) (id : ident) (items : list interface_item)
| TSWorld (docs : list doc) (id : ident) (items : list world_item)
| TSType (d : item_type_decl).                (* never [DResource] *)

Inductive import_type : Set :=
| ITPackage (p : package_path) | ITFunc (f : func_type)
| ITInterface (items : list interface_item) | ITIdent (i : ident).

Inductive arg_name : Set := ANIdent (i : ident) | ANString (s : strlit).

Inductive postfix_expr : Set :=
| PAccess (sp : span) (id : ident)
| PNamedAccess (sp : span) (s : strlit).

Inductive expr : Set :=
| Expr (sp : span) (primary : primary_expr) (postfix : list postfix_expr)
with primary_expr : Set :=
| PNew (sp : span) (pkg : package_name) (args : list inst_arg)
| PNested (sp : span) (inner : expr)
| PIdent (i : ident)
with inst_arg : Set :=
| AInferred (i : ident)
| ASpread (i : ident)
| ANamed (name : arg_name) (e : expr)
| AFill (sp : span).

Inductive export_options : Set := EONone | EOSpread (sp : span) | EORename (n : extern_name).

Inductive statement : Set :=
| SImport (docs : list doc) (id : ident) (name : option extern_name) (t : import_type)
| SType (t : type_statement)
| SLet (docs : list doc) (id : ident) (e : expr)
| SExport (docs : list doc) (e : expr) (opts : export_options).

Record package_directive : Set := { pd_package : package_name; pd_targets : option package_path }.

Record document : Set := {
  doc_docs : list doc; doc_directive : package_directive; doc_statements : list statement }.

(** Span accessors used when the parser joins spans. *)
Definition span_end (s : span) : N := off s + slen s.
Definition span_join (a b : span) : span := {| off := off a; slen := span_end b - off a |}.

Definition ty_span (t : ty) : span :=
  match t with
  | TyPrim _ sp | TyTuple _ sp | TyList _ sp | TyOption _ sp | TyResult _ _ sp
  | TyBorrow _ sp | TyBorrowTy _ sp => sp
  | TyIdent i => id_span i
  end.

Definition primary_span (p : primary_expr) : span :=
  match p with PNew sp _ _ => sp | PNested sp _ => sp | PIdent i => id_span i end.
Definition postfix_span (p : postfix_expr) : span :=
  match p with PAccess sp _ => sp | PNamedAccess sp _ => sp end.
