(** The resolver of [crates/wac-parser/src/resolution.rs] reduced to its package requests.

    The order in which [AstResolver] walks the document is fixed by the syntax tree alone: the only
    influence the resolver's state has on the walk is to END it early with an error ([?]).  The
    skeleton therefore has two layers.

    1. [actions d]: the calls of [resolve_package] the walk reaches, in order, written as the same
       traversal as resolution.rs ([resolve] -> [import_statement] / [type_statement] /
       [let_statement] / [export_statement], then the [targets] clause LAST; [interface_decl],
       [world_decl], [world_items] (includes postponed until the other items are done),
       [world_item_path], [world_include], [inline_interface], [interface_items], [use_type],
       [expr] / [primary_expr] / [new_expr] / [named_instantiation_arg]).  Where resolution.rs
       filters, so does the skeleton: a package path naming the document's own package goes to
       [resolve_local_path] and requests nothing; a [new] of the own package is the error
       [UnknownPackage] before any request ([ASelfNew], the walk always ends there).

    2. [run]: the interpreter.  Every decision that is not a package request (undefined names,
       kind and type errors, duplicate names, [PackageParseFailure], the target check, ...) is the
       oracle [abort]: it is consulted before every action and once at the end, sees everything the
       resolver's state can depend on (the packages registered so far, with their contents, and
       the position) and may end the walk there.  A request first asks the graph
       ([get_package_by_name]: already registered -> no lookup), then the caller's map
       ([packages.swap_remove(key)]: absent -> [UnknownPackage]).

    [requests d] is the list of all requests made when nothing fails; [run] performs a prefix of it
    ([log_is_prefix] in proofs/VisitorProofs.v). *)
From WacV Require Import Str Token Lexer Semver Ast Visitor.

Inductive action : Set :=
| AReq (name : str) (v : option version) (sp : span)     (* resolve_package(name, version, span) *)
| ASelfNew (name : str) (sp : span).                     (* new_expr on the own package *)

(** [resolve_package_path]: [if path.name == self.0.directive.package.name { return self.resolve_local_path(..) }] *)
Definition rs_path (own : str) (p : package_path) : list action :=
  if str_eqb (pp_name p) own then [] else [AReq (pp_name p) (pp_version p) (name_span p)].

(** [use_type] *)
Definition rs_use (own : str) (u : use_decl) : list action :=
  match u_path u with
  | UPPackage p => rs_path own p
  | UPIdent _ => []
  end.

(** [interface_items] (used by [interface_decl] and [inline_interface]) *)
Definition rs_interface_item (own : str) (it : interface_item) : list action :=
  match it with
  | IIUse u => rs_use own u
  | IIType _ => []                 (* item_type_decl: no package paths inside types *)
  | IIExport _ _ _ => []           (* func_type_ref *)
  end.
Definition rs_interface_items (own : str) (items : list interface_item) : list action :=
  flat_map (rs_interface_item own) items.

(** [world_item_path] *)
Definition rs_world_item_path (own : str) (p : world_item_path) : list action :=
  match p with
  | WPNamed _ (ETInterface items) => rs_interface_items own items
  | WPNamed _ (ETIdent _) | WPNamed _ (ETFunc _) => []
  | WPIdent _ => []
  | WPPackage p => rs_path own p
  end.

(** [world_items]: first loop (includes are pushed aside) ... *)
Definition rs_world_item_now (own : str) (it : world_item) : list action :=
  match it with
  | WIUse u => rs_use own u
  | WIType _ => []
  | WIImport _ p => rs_world_item_path own p
  | WIExport _ p => rs_world_item_path own p
  | WIInclude _ _ _ => []
  end.
(** ... second loop: [world_include] for every postponed include, in source order *)
Definition rs_world_item_later (own : str) (it : world_item) : list action :=
  match it with
  | WIInclude _ (WRPackage p) _ => rs_path own p
  | WIInclude _ (WRIdent _) _ => []
  | _ => []
  end.
Definition rs_world_items (own : str) (items : list world_item) : list action :=
  flat_map (rs_world_item_now own) items ++ flat_map (rs_world_item_later own) items.

(** [import_statement] *)
Definition rs_import (own : str) (t : import_type) : list action :=
  match t with
  | ITPackage p => rs_path own p
  | ITFunc _ => []
  | ITInterface items => rs_interface_items own items
  | ITIdent _ => []
  end.

(** [type_statement] *)
Definition rs_type_statement (own : str) (t : type_statement) : list action :=
  match t with
  | TSInterface _ _ items => rs_interface_items own items
  | TSWorld _ _ items => rs_world_items own items
  | TSType _ => []
  end.

(** [expr] -> [primary_expr] -> [new_expr]: the own-package check, then [resolve_package], then the
    arguments in order ([Named] evaluates its expression; the others request nothing; spreads are
    processed afterwards and request nothing); postfix expressions request nothing. *)
Fixpoint rs_expr (own : str) (e : expr) {struct e} : list action :=
  match e with
  | Expr _ p _ => rs_primary own p
  end
with rs_primary (own : str) (p : primary_expr) {struct p} : list action :=
  match p with
  | PNew _ pkg args =>
      if str_eqb (pn_name pkg) own then [ASelfNew (pn_name pkg) (pn_span pkg)]
      else AReq (pn_name pkg) (pn_version pkg) (pn_span pkg)
           :: (fix go (l : list inst_arg) : list action :=
                 match l with [] => [] | a :: r => rs_arg own a ++ go r end) args
  | PNested _ inner => rs_expr own inner
  | PIdent _ => []
  end
with rs_arg (own : str) (a : inst_arg) {struct a} : list action :=
  match a with
  | ANamed _ e => rs_expr own e
  | AInferred _ | ASpread _ | AFill _ => []
  end.

Definition rs_statement (own : str) (st : statement) : list action :=
  match st with
  | SImport _ _ _ t => rs_import own t
  | SType t => rs_type_statement own t
  | SLet _ _ e => rs_expr own e
  | SExport _ e _ => rs_expr own e
  end.

(** [AstResolver::resolve]: all statements, then the [targets] clause. *)
Definition actions (d : document) : list action :=
  flat_map (rs_statement (own_name d)) (doc_statements d)
  ++ match pd_targets (doc_directive d) with
     | Some p => rs_path (own_name d) p
     | None => []
     end.

(** The requests made along a list of actions when nothing fails (a self-[new] always fails). *)
Fixpoint reqs (acts : list action) : list pkgkey :=
  match acts with
  | [] => []
  | AReq name v _ :: r => (name, v) :: reqs r
  | ASelfNew _ _ :: _ => []
  end.
Definition requests (d : document) : list pkgkey := reqs (actions d).

(** * The interpreter *)
Inductive resolve_error : Set :=
| UnknownPackage (name : str) (sp : span)
| OtherError (code : N).                                  (* any other variant, chosen by the oracle *)

Section Run.
  Context {content : Type}.
  Definition registry : Type := list (pkgkey * content).  (* graph.package_map, in registration order *)
  Variable lookup : pkgkey -> option content.             (* the caller's package map *)
  Variable abort : registry -> nat -> option N.           (* every non-package decision *)

  Record outcome : Type := {
    o_log : list pkgkey;            (* every call of resolve_package, in order *)
    o_registered : registry;        (* packages registered with the graph *)
    o_error : option resolve_error  (* None: resolution succeeded *)
  }.

  Fixpoint reg_has (reg : registry) (k : pkgkey) : bool :=
    match reg with
    | [] => false
    | (k', _) :: r => pkgkey_eqb k' k || reg_has r k
    end.

  Definition logged (k : pkgkey) (o : outcome) : outcome :=
    {| o_log := k :: o_log o; o_registered := o_registered o; o_error := o_error o |}.

  Fixpoint run (acts : list action) (n : nat) (reg : registry) : outcome :=
    match abort reg n with
    | Some c => {| o_log := []; o_registered := reg; o_error := Some (OtherError c) |}
    | None =>
        match acts with
        | [] => {| o_log := []; o_registered := reg; o_error := None |}
        | ASelfNew name sp :: _ =>
            {| o_log := []; o_registered := reg; o_error := Some (UnknownPackage name sp) |}
        | AReq name v sp :: r =>
            let k := (name, v) in
            if reg_has reg k then logged k (run r (S n) reg)
            else match lookup k with
                 | None => {| o_log := [k]; o_registered := reg; o_error := Some (UnknownPackage name sp) |}
                 | Some c => logged k (run r (S n) (reg ++ [(k, c)]))
                 end
        end
    end.

  Definition resolve_skel (d : document) : outcome := run (actions d) 0 [].
End Run.

(** Supplying only the keys of [ks]. *)
Definition restrict {content : Type} (ks : list pkgkey) (lookup : pkgkey -> option content) (k : pkgkey)
  : option content :=
  if existsb (pkgkey_eqb k) ks then lookup k else None.
