(** Data types of the generated list of hash-ordered containers and of their order-observing uses
    (see tools/gen/gen_hash_sites.py, which emits [gen/HashSites.v]).  Pure data for the proof side; never
    extracted, therefore Coq [string]s are used. *)
From Coq Require Import String List Bool.
Import ListNotations.

(** how the translator decided that the receiver is a hash-ordered container *)
Inductive resolution :=
  | RHash          (* typed through declarations (fields, annotated parameters/locals) or unanimous by field name *)
  | RAmbiguous     (* receiver not typable and the field name is a hash container in some structs only *)
  | RUnrecognised. (* a hash container type mentioned in a position the translator has no rule for *)

Record site := mk_site {
  s_file : string;   (* path relative to the repository root *)
  s_fn : string;     (* enclosing function, qualified by impl type / outer function; "<type T>" for derives *)
  s_recv : string;   (* the hash-ordered place *)
  s_obs : string;    (* the order-observing operation(s) *)
  s_res : resolution;
  s_text : string;   (* normalised text of the whole statement (for loops: header and body), cut at 200 chars *)
  s_hash : string    (* first 16 hex digits of SHA-256 of the complete normalised text *)
}.

Record binding := mk_binding {
  b_file : string;
  b_owner : string;  (* struct / enum variant / function *)
  b_name : string;
  b_how : string
}.

Definition resolution_eqb (a b : resolution) : bool :=
  match a, b with
  | RHash, RHash | RAmbiguous, RAmbiguous | RUnrecognised, RUnrecognised => true
  | _, _ => false
  end.

Definition site_eqb (a b : site) : bool :=
  String.eqb (s_file a) (s_file b) && String.eqb (s_fn a) (s_fn b) && String.eqb (s_recv a) (s_recv b)
  && String.eqb (s_obs a) (s_obs b) && resolution_eqb (s_res a) (s_res b)
  && String.eqb (s_text a) (s_text b) && String.eqb (s_hash a) (s_hash b).

Lemma resolution_eqb_eq : forall a b, resolution_eqb a b = true -> a = b.
Proof. destruct a, b; simpl; congruence. Qed.

Lemma site_eqb_eq : forall a b, site_eqb a b = true -> a = b.
Proof.
  intros [f1 g1 r1 o1 x1 t1 h1] [f2 g2 r2 o2 x2 t2 h2]; unfold site_eqb; simpl; intros H.
  repeat (apply andb_prop in H; destruct H as [H ?]).
  repeat match goal with
         | E : String.eqb _ _ = true |- _ => apply String.eqb_eq in E; subst
         | E : resolution_eqb _ _ = true |- _ => apply resolution_eqb_eq in E; subst
         end.
  reflexivity.
Qed.

Definition site_mem (x : site) (l : list site) : bool := existsb (site_eqb x) l.
Definition site_inclb (l m : list site) : bool := forallb (fun x => site_mem x m) l.

Lemma site_inclb_sound : forall l m, site_inclb l m = true -> incl l m.
Proof.
  intros l m H x Hx. unfold site_inclb in H. rewrite forallb_forall in H. specialize (H x Hx).
  unfold site_mem in H. apply existsb_exists in H. destruct H as [y [Hy E]]. apply site_eqb_eq in E. subst. exact Hy.
Qed.

(** prefix test on file names *)
Fixpoint prefixb (p s : string) : bool :=
  match p, s with
  | EmptyString, _ => true
  | String a p', String b s' => Ascii.eqb a b && prefixb p' s'
  | _, _ => false
  end.
