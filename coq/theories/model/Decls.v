(** Model of the declaration half of [AstResolver] (crates/wac-parser/src/resolution.rs):
    [type_statement], [interface_decl], [world_decl], [world_items], [world_item_path], [world_include],
    [inline_interface], [interface_items], [use_type], [item_type_decl], [resource_decl], [func_type], [ty],
    [variant_decl]/[record_decl]/[flags_decl]/[enum_decl], [type_alias], [func_type_ref], over the C12 AST
    ([Ast.v]) into the arenas of [Types.v].

    Shape of the state.  The Rust [State] keeps a stack of scopes ([scopes], [current]).  In a document that
    consists of type statements the stack has depth at most three (root; interface or world body; inline
    interface inside a world) and the only lookups are [local_item] (the scope being filled), [root_item]
    ([scopes.first()], or [current] at depth zero) and [local_or_root_item] (world-level named items).
    The model therefore passes the root scope as an argument [root] to the functions that run inside a body
    and keeps the scope being filled in the local state [loc]; [push_scope]/[pop_scope] are the creation and
    the dropping of a [loc].  A scope is an association list; a name is only ever added after it has been
    looked up and found absent ([register_name] fails with [DuplicateName] otherwise), so the order inside a
    scope is never observed and new names are consed.  Every item registered by a type statement, a [use]
    or a declaration has kind [ItemKind::Type(ty)]; a scope entry is therefore a [ty].

    [IndexMap]s whose order is observable (interface exports, world imports/exports, uses, parameters,
    fields, cases) are lists in insertion order; [imap_set] is [IndexMap::insert] (replace in place, else
    append).

    Outcomes: [DErr] is one of the error classes of [resolution::Error]; [DPanic n] is a Rust panic
    (assert!/unwrap/expect) at site [n]; [DUnmodelled] marks the parts of the language outside the
    declaration half (imports, lets, exports, [targets]); [DFuel] cannot happen with the fuel chosen
    (see [cb_fuel]).

    External packages: [resolve_package_path] for a foreign package is represented by a table from the path
    text to a type that is already present in the initial arenas (oracle-provided descriptions).  The real
    code loads them lazily, which only changes arena positions.  Paths into the document's own package are
    modelled exactly ([path_item]). *)
From Coq Require Import String.
From WacV Require Import Str StrLit Show Types.
From WacV Require Ast.

(** * Outcomes *)
Inductive derr :=
| EDuplicateName | EUndefinedName | EDeclarationConflict
| EDuplicateVariantCase | EDuplicateRecordField | EDuplicateFlag | EDuplicateEnumCase
| EInvalidAliasType | ENotFuncType | ENotResourceType | ENotValueType
| ENotFuncOrInterface | ENotInterface | ENotWorld
| EDuplicateWorldItem | EDuplicateWorldIncludeName | EWorldIncludeConflict | EMissingWorldInclude
| EDuplicateInterfaceExport | EUndefinedInterfaceType | EUseConflict | ENotInterfaceValueType
| EDuplicateResourceConstructor | EDuplicateResourceMethod | EDuplicateParameter | EBorrowInResult
| EUnknownPackage | EPackagePathMissingExport.

Inductive dres (A : Type) : Type :=
| DOk (a : A) | DErr (e : derr) | DPanic (site : N) | DUnmodelled | DFuel.
Arguments DOk {A}. Arguments DErr {A}. Arguments DPanic {A}. Arguments DUnmodelled {A}. Arguments DFuel {A}.

Definition dbind {A B} (r : dres A) (f : A -> dres B) : dres B :=
  match r with
  | DOk a => f a | DErr e => DErr e | DPanic n => DPanic n | DUnmodelled => DUnmodelled | DFuel => DFuel
  end.
Notation "'do' x <- r ;; k" := (dbind r (fun x => k)) (at level 200, x pattern, r at level 100, k at level 200).

(** * Arena additions ([Types::add_*]: push and return the new identifier) *)
Definition add_defined (t : types) (d : deftype) : types * id :=
  (mktypes (t_tag t) (t_defined t ++ [d]) (t_resources t) (t_funcs t) (t_interfaces t) (t_worlds t) (t_modules t),
   mkid (t_tag t) (length (t_defined t))).
Definition add_resource (t : types) (r : resource) : types * id :=
  (mktypes (t_tag t) (t_defined t) (t_resources t ++ [r]) (t_funcs t) (t_interfaces t) (t_worlds t) (t_modules t),
   mkid (t_tag t) (length (t_resources t))).
Definition add_func (t : types) (f : functype) : types * id :=
  (mktypes (t_tag t) (t_defined t) (t_resources t) (t_funcs t ++ [f]) (t_interfaces t) (t_worlds t) (t_modules t),
   mkid (t_tag t) (length (t_funcs t))).
Definition add_interface (t : types) (i : interface) : types * id :=
  (mktypes (t_tag t) (t_defined t) (t_resources t) (t_funcs t) (t_interfaces t ++ [i]) (t_worlds t) (t_modules t),
   mkid (t_tag t) (length (t_interfaces t))).
Definition add_world (t : types) (w : world) : types * id :=
  (mktypes (t_tag t) (t_defined t) (t_resources t) (t_funcs t) (t_interfaces t) (t_worlds t ++ [w]) (t_modules t),
   mkid (t_tag t) (length (t_worlds t))).

(** * Maps *)
Definition has {B} (k : str) (l : list (str * B)) : bool :=
  match assoc k l with Some _ => true | None => false end.
(** [IndexMap::insert]. *)
Fixpoint imap_set {B} (k : str) (v : B) (l : list (str * B)) : list (str * B) :=
  match l with
  | [] => [(k, v)]
  | (k', v') :: r => if str_eqb k k' then (k', v) :: r else (k', v') :: imap_set k v r
  end.
Fixpoint mem (k : str) (l : list str) : bool :=
  match l with [] => false | x :: r => str_eqb k x || mem k r end.

(** * Scopes *)
Definition scope := list (str * ty).
Definition name_of (i : Ast.ident) : str := Ast.id_string i.

Definition lookup_in (sc : scope) (i : Ast.ident) : dres ty :=
  match assoc (name_of i) sc with Some x => DOk x | None => DErr EUndefinedName end.
(** [State::register_name] for [Item::Type]/[Item::Use]. *)
Definition register (sc : scope) (n : str) (x : ty) : dres scope :=
  if has n sc then DErr EDuplicateName else DOk ((n, x) :: sc).

(** * Value types: [AstResolver::ty] *)
Definition prim_of (p : Ast.prim) : prim :=
  match p with
  | Ast.PU8 => PU8 | Ast.PS8 => PS8 | Ast.PU16 => PU16 | Ast.PS16 => PS16 | Ast.PU32 => PU32
  | Ast.PS32 => PS32 | Ast.PU64 => PU64 | Ast.PS64 => PS64 | Ast.PF32 => PF32 | Ast.PF64 => PF64
  | Ast.PChar => PChar | Ast.PBool => PBool | Ast.PString => PString
  end.

Definition defined (t : types) (d : deftype) : dres (valtype * types) :=
  let '(t', i) := add_defined t d in DOk (VDefined i, t').

Fixpoint resolve_ty (cur : scope) (t : types) (x : Ast.ty) {struct x} : dres (valtype * types) :=
  match x with
  | Ast.TyPrim p _ => DOk (VPrim (prim_of p), t)
  | Ast.TyTuple ts _ =>
    do (vs, t1) <- (fix go (t : types) (l : list Ast.ty) {struct l} : dres (list valtype * types) :=
                       match l with
                       | [] => DOk ([], t)
                       | y :: r => do (v, t1) <- resolve_ty cur t y ;;
                                   do (vs, t2) <- go t1 r ;;
                                   DOk (v :: vs, t2)
                       end) t ts ;;
    defined t1 (DTuple vs)
  | Ast.TyList y _ => do (v, t1) <- resolve_ty cur t y ;; defined t1 (DList v)
  | Ast.TyOption y _ => do (v, t1) <- resolve_ty cur t y ;; defined t1 (DOption v)
  | Ast.TyResult o e _ =>
    do (ov, t1) <- match o with
                    | Some y => do (v, t1) <- resolve_ty cur t y ;; DOk (Some v, t1)
                    | None => DOk (None, t)
                    end ;;
    do (ev, t2) <- match e with
                    | Some y => do (v, t2) <- resolve_ty cur t1 y ;; DOk (Some v, t2)
                    | None => DOk (None, t1)
                    end ;;
    defined t2 (DResult ov ev)
  | Ast.TyBorrow i _ =>
    do it <- lookup_in cur i ;;
    match it with TResource r => DOk (VBorrow r, t) | _ => DErr ENotResourceType end
  | Ast.TyBorrowTy _ _ => DUnmodelled          (* never built by the implementation's parser *)
  | Ast.TyIdent i =>
    do it <- lookup_in cur i ;;
    match it with
    | TResource r => DOk (VOwn r, t)
    | TValue v => DOk (v, t)
    | _ => DErr ENotValueType
    end
  end.

(** * [ValueType::contains_borrow] *)
Definition any_o {A} (p : A -> option bool) : list A -> option bool :=
  fix go l := match l with
              | [] => Some false
              | x :: r => match p x with Some false => go r | o => o end
              end.
Definition opt_o (p : valtype -> option bool) (o : option valtype) : option bool :=
  match o with None => Some false | Some v => p v end.
Fixpoint cb_vt (fuel : nat) (t : types) (v : valtype) : option bool :=
  match fuel with
  | O => None
  | S f =>
    let C := cb_vt f t in
    match v with
    | VPrim _ | VOwn _ => Some false
    | VBorrow _ => Some true
    | VDefined d =>
      match get_def t d with
      | None => None
      | Some (DTuple l) => any_o C l
      | Some (DList x) | Some (DFsl x _) | Some (DOption x) | Some (DAlias x) => C x
      | Some (DResult o e) => match opt_o C o with Some false => opt_o C e | r => r end
      | Some (DVariant c) => any_o (fun kv => opt_o C (snd kv)) c
      | Some (DRecord fs) => any_o (fun kv => C (snd kv)) fs
      | Some (DFlags _) | Some (DEnum _) => Some false
      | Some (DStream o) | Some (DFuture o) => opt_o C o
      end
    end
  end.
(** Every reference of an arena built by [add_defined] points to an older slot, so a chain is shorter than
    the arena. *)
Definition cb_fuel (t : types) : nat := S (S (length (t_defined t))).

(** * Function types: [AstResolver::func_type] *)
Inductive fkind := FFree | FMethod | FStatic | FConstructor.
Definition self_name : str := L"self".

Fixpoint params_go (cur : scope) (t : types) (acc : list (str * valtype)) (ps : list Ast.named_type)
  : dres (list (str * valtype) * types) :=
  match ps with
  | [] => DOk (acc, t)
  | p :: r =>
    do (v, t1) <- resolve_ty cur t (Ast.nt_ty p) ;;
    let n := name_of (Ast.nt_id p) in
    if has n acc then DErr EDuplicateParameter else params_go cur t1 (acc ++ [(n, v)]) r
  end.

Definition func_type (cur : scope) (t : types) (ps : list Ast.named_type) (rs : Ast.result_list)
           (k : fkind) (res : option id) : dres (id * types) :=
  do acc0 <- match k with
             | FMethod => match res with Some r => DOk [(self_name, VBorrow r)] | None => DPanic 1 end
             | _ => DOk []
             end ;;
  do (params, t1) <- params_go cur t acc0 ps ;;
  do (result, t2) <- match rs with
                      | Ast.RLEmpty =>
                        match k with
                        | FConstructor => match res with Some r => DOk (Some (VOwn r), t1) | None => DPanic 2 end
                        | _ => DOk (None, t1)
                        end
                      | Ast.RLScalar y =>
                        do (v, t2) <- resolve_ty cur t1 y ;;
                        match cb_vt (cb_fuel t2) t2 v with
                        | None => DFuel
                        | Some true => DErr EBorrowInResult
                        | Some false => DOk (Some v, t2)
                        end
                      | Ast.RLNamed _ => DUnmodelled     (* never built by the implementation's parser *)
                      end ;;
  let '(t3, i) := add_func t2 (mkfunc params result false) in DOk (i, t3).

(** [func_type_ref] *)
Definition func_type_ref (cur : scope) (t : types) (r : Ast.func_type_ref) : dres (id * types) :=
  match r with
  | Ast.FRFunc f => func_type cur t (Ast.ft_params f) (Ast.ft_results f) FFree None
  | Ast.FRIdent i =>
    do it <- lookup_in cur i ;;
    match it with TFunc f => DOk (f, t) | _ => DErr ENotFuncType end
  end.

(** * Type declarations other than resources: [variant_decl], [record_decl], [flags_decl], [enum_decl],
      [type_alias] (without the registration of the name, which the callers do) *)
Fixpoint cases_go (cur : scope) (t : types) (acc : list (str * option valtype)) (cs : list Ast.variant_case)
  : dres (list (str * option valtype) * types) :=
  match cs with
  | [] => DOk (acc, t)
  | c :: r =>
    do (ov, t1) <- match Ast.vc_ty c with
                    | Some y => do (v, t1) <- resolve_ty cur t y ;; DOk (Some v, t1)
                    | None => DOk (None, t)
                    end ;;
    let n := name_of (Ast.vc_id c) in
    if has n acc then DErr EDuplicateVariantCase else cases_go cur t1 (acc ++ [(n, ov)]) r
  end.
Fixpoint fields_go (cur : scope) (t : types) (acc : list (str * valtype)) (fs : list Ast.field)
  : dres (list (str * valtype) * types) :=
  match fs with
  | [] => DOk (acc, t)
  | f :: r =>
    do (v, t1) <- resolve_ty cur t (Ast.fd_ty f) ;;
    let n := name_of (Ast.fd_id f) in
    if has n acc then DErr EDuplicateRecordField else fields_go cur t1 (acc ++ [(n, v)]) r
  end.
Fixpoint names_go (e : derr) (acc : list str) (l : list str) : dres (list str) :=
  match l with
  | [] => DOk acc
  | n :: r => if mem n acc then DErr e else names_go e (acc ++ [n]) r
  end.

Definition value_ty (t : types) (d : deftype) : dres (ty * types) :=
  let '(t', i) := add_defined t d in DOk (TValue (VDefined i), t').

Definition type_alias (cur : scope) (t : types) (n : str) (k : Ast.type_alias_kind) : dres (ty * types) :=
  match k with
  | Ast.TAFunc f =>
    do (i, t1) <- func_type cur t (Ast.ft_params f) (Ast.ft_results f) FFree None ;; DOk (TFunc i, t1)
  | Ast.TAType (Ast.TyIdent i) =>
    do it <- lookup_in cur i ;;
    match it with
    | TResource r =>
      match get_res t r with
      | None => DPanic 3
      | Some x =>
        let owner := match res_alias x with Some (o, _) => o | None => None end in
        let '(t1, r') := add_resource t (mkres n (Some (owner, r))) in DOk (TResource r', t1)
      end
    | TValue v => value_ty t (DAlias v)
    | TFunc f =>
      match get_func t f with
      | None => DPanic 4
      | Some x => let '(t1, f') := add_func t x in DOk (TFunc f', t1)
      end
    | _ => DErr EInvalidAliasType
    end
  | Ast.TAType y => do (v, t1) <- resolve_ty cur t y ;; value_ty t1 (DAlias v)
  end.

Definition decl_name (d : Ast.item_type_decl) : str :=
  match d with
  | Ast.DResource _ i _ | Ast.DVariant _ i _ | Ast.DRecord _ i _ | Ast.DFlags _ i _ | Ast.DEnum _ i _
  | Ast.DAlias _ i _ => name_of i
  end.

Definition plain_decl (cur : scope) (t : types) (d : Ast.item_type_decl) : dres (ty * types) :=
  match d with
  | Ast.DResource _ _ _ => DPanic 5       (* callers dispatch resources elsewhere *)
  | Ast.DVariant _ _ cs => do (c, t1) <- cases_go cur t [] cs ;; value_ty t1 (DVariant c)
  | Ast.DRecord _ _ fs => do (f, t1) <- fields_go cur t [] fs ;; value_ty t1 (DRecord f)
  | Ast.DFlags _ _ fl =>
    do l <- names_go EDuplicateFlag [] (map (fun f => name_of (Ast.fl_id f)) fl) ;; value_ty t (DFlags l)
  | Ast.DEnum _ _ cs =>
    do l <- names_go EDuplicateEnumCase [] (map (fun c => name_of (Ast.ec_id c)) cs) ;; value_ty t (DEnum l)
  | Ast.DAlias _ i k => type_alias cur t (name_of i) k
  end.

(** * The state of an interface body or of the import side of a world body *)
Record loc := mkloc {
  l_cur : scope;                     (* the scope being filled *)
  l_uses : list (str * used);
  l_exts : list (str * kind);        (* interface exports / world imports *)
  l_types : types }.

(** * Resources: [resource_decl], [method_extern_name] *)
Definition method_name (res m : str) (k : fkind) : str :=
  match k with
  | FMethod => L"[method]" ++ res ++ 46 :: m
  | FStatic => L"[static]" ++ res ++ 46 :: m
  | _ => L"[constructor]" ++ res
  end.

Fixpoint methods_go (cur : scope) (rname : str) (r : id) (names : list str)
         (exts : list (str * kind)) (t : types) (ms : list Ast.resource_method)
  : dres (list (str * kind) * types) :=
  match ms with
  | [] => DOk (exts, t)
  | m :: rest =>
    do (names1, en, f, t1) <-
       match m with
       | Ast.RMConstructor _ _ ps =>
         if mem [] names then DErr EDuplicateResourceConstructor
         else do (f, t1) <- func_type cur t ps Ast.RLEmpty FConstructor (Some r) ;;
              DOk ([] :: names, method_name rname [] FConstructor, f, t1)
       | Ast.RMMethod _ i is_static ft =>
         let k := if is_static then FStatic else FMethod in
         if mem (name_of i) names then DErr EDuplicateResourceMethod
         else do (f, t1) <- func_type cur t (Ast.ft_params ft) (Ast.ft_results ft) k (Some r) ;;
              DOk (name_of i :: names, method_name rname (name_of i) k, f, t1)
       end ;;
    if has en exts then DPanic 6 else methods_go cur rname r names1 (exts ++ [(en, KFunc f)]) t1 rest
  end.

(** [Container::duplicate]: a declared type whose name is already an export of the interface / an import of
    the world that is not a type (e.g. a function declared earlier) is reported with the error of the
    opposite declaration order: [dup] is [EDuplicateInterfaceExport] in an interface body and
    [EDuplicateWorldItem] in a world body. *)
Definition resource_decl (dup : derr) (l : loc) (i : Ast.ident) (ms : list Ast.resource_method) : dres loc :=
  let n := name_of i in
  let '(t1, r) := add_resource (l_types l) (mkres n None) in
  do cur1 <- register (l_cur l) n (TResource r) ;;
  if has n (l_exts l) then DErr dup else
  do (exts, t2) <- methods_go cur1 n r [] (l_exts l ++ [(n, KType (TResource r))]) t1 ms ;;
  DOk (mkloc cur1 (l_uses l) exts t2).

(** [item_type_decl]: the declaration functions register the name first, then the extern is inserted
    unless the name is already taken there ([dup]). *)
Definition item_type_decl (dup : derr) (l : loc) (d : Ast.item_type_decl) : dres loc :=
  match d with
  | Ast.DResource _ i ms => resource_decl dup l i ms
  | _ =>
    do (x, t1) <- plain_decl (l_cur l) (l_types l) d ;;
    do cur1 <- register (l_cur l) (decl_name d) x ;;
    if has (decl_name d) (l_exts l) then DErr dup
    else DOk (mkloc cur1 (l_uses l) (l_exts l ++ [(decl_name d, KType x)]) t1)
  end.

(** * Package paths: [resolve_package_path], [resolve_local_path]

    A path whose package name is the document's own package name (the version is NOT compared) is a local
    path: the first segment is looked up in the root scope and the remaining segments project through the
    exports of interfaces / worlds.  Any other path goes to the table of external packages (oracle). *)
Record pkgtab := mkpkgs { pk_own : str; pk_ext : list (str * ty) }.

Fixpoint project (t : types) (k : kind) (segs : list str) : dres kind :=
  match segs with
  | [] => DOk k
  | sg :: rest =>
    do exports <- match k with
                  | KType (TInterface i) | KInstance i =>
                    match get_if t i with Some x => DOk (i_exports x) | None => DPanic 13 end
                  | KType (TWorld w) | KComponent w =>
                    match get_world t w with Some x => DOk (w_exports x) | None => DPanic 14 end
                  | _ => DErr EPackagePathMissingExport
                  end ;;
    match assoc sg exports with
    | Some k1 => project t k1 rest
    | None => DErr EPackagePathMissingExport
    end
  end.

Definition path_item (root : scope) (pkgs : pkgtab) (t : types) (pp : Ast.package_path) : dres kind :=
  if str_eqb (Ast.pp_name pp) (pk_own pkgs) then
    match split_on 47 (Ast.pp_segments pp) with
    | [] => DPanic 15                       (* [segments.next().unwrap()]; [split] never yields nothing *)
    | first :: rest =>
      match assoc first root with
      | None => DErr EUndefinedName
      | Some x => project t (KType x) rest
      end
    end
  else
    match assoc (Ast.pp_string pp) (pk_ext pkgs) with
    | None => DErr EUnknownPackage
    | Some x => DOk (KType x)
    end.

(** * [use_type] *)
Definition use_source (root : scope) (pkgs : pkgtab) (t : types) (p : Ast.use_path) : dres id :=
  match p with
  | Ast.UPPackage pp =>
    do k <- path_item root pkgs t pp ;;
    match k with KType (TInterface i) => DOk i | _ => DErr ENotInterface end
  | Ast.UPIdent i =>
    do it <- lookup_in root i ;;
    match it with TInterface x => DOk x | _ => DErr ENotInterface end
  end.

Fixpoint use_items (iface : id) (l : loc) (items : list Ast.use_item) : dres loc :=
  match items with
  | [] => DOk l
  | it :: rest =>
    let orig := name_of (Ast.ui_id it) in
    let n := match Ast.ui_as it with Some a => name_of a | None => orig end in
    match get_if (l_types l) iface with
    | None => DPanic 9
    | Some x =>
      match assoc orig (i_exports x) with
      | None => DErr EUndefinedInterfaceType
      | Some (KType ((TResource _ | TValue _) as y)) =>
        if has n (l_exts l) then DErr EUseConflict else
        let uses1 := imap_set n (iface, match Ast.ui_as it with Some _ => Some orig | None => None end) (l_uses l) in
        let exts1 := imap_set n (KType y) (l_exts l) in
        do cur1 <- register (l_cur l) n y ;;
        use_items iface (mkloc cur1 uses1 exts1 (l_types l)) rest
      | Some _ => DErr ENotInterfaceValueType
      end
    end
  end.

Definition use_type (root : scope) (pkgs : pkgtab) (l : loc) (u : Ast.use_decl) : dres loc :=
  do iface <- use_source root pkgs (l_types l) (Ast.u_path u) ;;
  use_items iface l (Ast.u_items u).

(** * Interfaces: [interface_items], [inline_interface], [interface_decl] *)
Fixpoint interface_items (root : scope) (pkgs : pkgtab) (l : loc) (items : list Ast.interface_item) : dres loc :=
  match items with
  | [] => DOk l
  | it :: rest =>
    do l1 <- match it with
             | Ast.IIUse u => use_type root pkgs l u
             | Ast.IIType d => item_type_decl EDuplicateInterfaceExport l d
             | Ast.IIExport _ i r =>
               do (f, t1) <- func_type_ref (l_cur l) (l_types l) r ;;
               if has (name_of i) (l_exts l) then DErr EDuplicateInterfaceExport
               else DOk (mkloc (l_cur l) (l_uses l) (l_exts l ++ [(name_of i, KFunc f)]) t1)
             end ;;
    interface_items root pkgs l1 rest
  end.

Definition interface_body (root : scope) (pkgs : pkgtab) (t : types) (idn : option str)
           (items : list Ast.interface_item) : dres (id * types) :=
  do l <- interface_items root pkgs (mkloc [] [] [] t) items ;;
  let '(t1, i) := add_interface (l_types l) (mkif idn (l_uses l) (l_exts l)) in DOk (i, t1).

(** * Worlds *)
Record wst := mkwst { w_loc : loc; w_exp : list (str * kind) }.
Definition w_imp (w : wst) := l_exts (w_loc w).
Definition w_types (w : wst) := l_types (w_loc w).
Definition with_imports (w : wst) (imps : list (str * kind)) (t : types) : wst :=
  mkwst (mkloc (l_cur (w_loc w)) (l_uses (w_loc w)) imps t) (w_exp w).
Definition with_exports (w : wst) (exps : list (str * kind)) (t : types) : wst :=
  mkwst (mkloc (l_cur (w_loc w)) (l_uses (w_loc w)) (l_exts (w_loc w)) t) exps.

(** [world_item_path]; [is_import] selects the map. *)
Definition side (is_import : bool) (w : wst) : list (str * kind) := if is_import then w_imp w else w_exp w.
Definition put (is_import : bool) (w : wst) (k : str) (v : kind) (t : types) : wst :=
  if is_import then with_imports w (imap_set k v (w_imp w)) t else with_exports w (imap_set k v (w_exp w)) t.

Definition iface_path (is_import : bool) (w : wst) (found : dres kind) : dres wst :=
  do it <- found ;;
  match it with
  | KType (TInterface x) =>
    match get_if (w_types w) x with
    | None => DPanic 10
    | Some d =>
      match i_id d with
      | None => DPanic 11              (* .expect("expected an interface id") *)
      | Some n => if has n (side is_import w) then DErr EDuplicateWorldItem
                  else DOk (put is_import w n (KInstance x) (w_types w))
      end
    end
  | _ => DErr ENotInterface
  end.

Definition world_item_path (root : scope) (pkgs : pkgtab) (is_import : bool) (w : wst) (p : Ast.world_item_path)
  : dres wst :=
  match p with
  | Ast.WPNamed i et =>
    let n := name_of i in
    if has n (side is_import w) then DErr EDuplicateWorldItem else
    do (k, t1) <-
       match et with
       | Ast.ETIdent j =>
         do it <- match assoc (name_of j) (l_cur (w_loc w)) with
                  | Some x => DOk x
                  | None => lookup_in root j
                  end ;;
         match it with
         | TInterface x => DOk (KInstance x, w_types w)
         | TFunc f => DOk (KFunc f, w_types w)
         | _ => DErr ENotFuncOrInterface
         end
       | Ast.ETFunc f =>
         do (x, t1) <- func_type (l_cur (w_loc w)) (w_types w) (Ast.ft_params f) (Ast.ft_results f) FFree None ;;
         DOk (KFunc x, t1)
       | Ast.ETInterface items =>
         do (x, t1) <- interface_body root pkgs (w_types w) None items ;; DOk (KInstance x, t1)
       end ;;
    DOk (put is_import w n k t1)
  | Ast.WPIdent i => iface_path is_import w (do x <- lookup_in root i ;; DOk (KType x))
  | Ast.WPPackage pp => iface_path is_import w (path_item root pkgs (w_types w) pp)
  end.

(** [world_include] *)
Definition has_colon (n : str) : bool := existsb (fun c => c =? 58) n.

(** [replace_name]: the (possibly renamed) name and the set of replacements used so far.  A replacement
    applies to every item with that name, on the import side and on the export side alike (the map is
    only read; [used] is the [HashSet] of the [from] names that matched). *)
Definition replace_name (target : list (str * kind)) (n : str) (repl : list (str * str)) (used : list str)
  : dres (str * list str) :=
  if has_colon n then DOk (n, used) else
  let '(n1, used1) := match assoc n repl with Some to => (to, n :: used) | None => (n, used) end in
  if has n1 target then DErr EWorldIncludeConflict else DOk (n1, used1).

(** [entry(name).or_insert(item)] *)
Definition or_insert {B} (k : str) (v : B) (l : list (str * B)) : list (str * B) :=
  if has k l then l else l ++ [(k, v)].

Fixpoint include_go (target : list (str * kind)) (repl : list (str * str)) (used : list str) (src : list (str * kind))
  : dres (list (str * kind) * list str) :=
  match src with
  | [] => DOk (target, used)
  | (n, k) :: rest =>
    do (n1, used1) <- replace_name target n repl used ;;
    include_go (or_insert n1 k target) repl used1 rest
  end.

Fixpoint repl_go (acc : list (str * str)) (items : list Ast.include_item) : dres (list (str * str)) :=
  match items with
  | [] => DOk acc
  | it :: rest =>
    let f := name_of (Ast.ii_from it) in
    if has f acc then DErr EDuplicateWorldIncludeName else repl_go (acc ++ [(f, name_of (Ast.ii_to it))]) rest
  end.

Definition world_include (root : scope) (pkgs : pkgtab) (w : wst) (r : Ast.world_ref) (items : list Ast.include_item)
  : dres wst :=
  do repl <- repl_go [] items ;;
  do it <- match r with
           | Ast.WRIdent i => do x <- lookup_in root i ;; DOk (KType x)
           | Ast.WRPackage pp => path_item root pkgs (w_types w) pp
           end ;;
  match it with
  | KType (TWorld x) | KComponent x =>
    match get_world (w_types w) x with
    | None => DPanic 12
    | Some other =>
      do (imps, used1) <- include_go (w_imp w) repl [] (w_imports other) ;;
      do (exps, used2) <- include_go (w_exp w) repl used1 (w_exports other) ;;
      (* the first [with] item, in source order, that was never used *)
      if existsb (fun it => negb (mem (name_of (Ast.ii_from it)) used2)) items then DErr EMissingWorldInclude
      else DOk (mkwst (mkloc (l_cur (w_loc w)) (l_uses (w_loc w)) imps (w_types w)) exps)
    end
  | _ => DErr ENotWorld
  end.

(** [world_items]: includes are processed after all other items, in source order. *)
Fixpoint world_items_go (root : scope) (pkgs : pkgtab) (w : wst) (items : list Ast.world_item) : dres wst :=
  match items with
  | [] => DOk w
  | it :: rest =>
    do w1 <- match it with
             | Ast.WIUse u => do l <- use_type root pkgs (w_loc w) u ;; DOk (mkwst l (w_exp w))
             | Ast.WIType d => do l <- item_type_decl EDuplicateWorldItem (w_loc w) d ;; DOk (mkwst l (w_exp w))
             | Ast.WIImport _ p => world_item_path root pkgs true w p
             | Ast.WIExport _ p => world_item_path root pkgs false w p
             | Ast.WIInclude _ _ _ => DOk w
             end ;;
    world_items_go root pkgs w1 rest
  end.
Fixpoint world_includes_go (root : scope) (pkgs : pkgtab) (w : wst) (items : list Ast.world_item) : dres wst :=
  match items with
  | [] => DOk w
  | Ast.WIInclude _ r its :: rest => do w1 <- world_include root pkgs w r its ;; world_includes_go root pkgs w1 rest
  | _ :: rest => world_includes_go root pkgs w rest
  end.

Definition world_body (root : scope) (pkgs : pkgtab) (t : types) (idn : option str) (items : list Ast.world_item)
  : dres (id * types) :=
  do w1 <- world_items_go root pkgs (mkwst (mkloc [] [] [] t) []) items ;;
  do w2 <- world_includes_go root pkgs w1 items ;;
  let '(t1, i) := add_world (w_types w2) (mkworld idn (l_uses (w_loc w2)) (w_imp w2) (w_exp w2)) in DOk (i, t1).

(** * Documents: [AstResolver::resolve] restricted to type statements; [AstResolver::id] *)
Definition show_version (v : Semver.version) : str :=
  show_N (Semver.major v) ++ 46 :: show_N (Semver.minor v) ++ 46 :: show_N (Semver.patch v)
  ++ (match Semver.pre v with [] => [] | p => 45 :: p end)
  ++ (match Semver.build v with [] => [] | b => 43 :: b end).

Definition item_id (pn : Ast.package_name) (n : str) : str :=
  Ast.pn_name pn ++ 47 :: n ++ match Ast.pn_version pn with Some v => 64 :: show_version v | None => [] end.

Record rst := mkrst {
  r_root : scope;
  r_types : types;
  r_exports : list str;              (* [CompositionGraph::exports]: names of the definitions *)
  r_defs : list (str * kind) }.      (* the definition nodes in order: name, [item_kind] *)

Definition type_statement (pn : Ast.package_name) (pkgs : pkgtab) (s : rst) (x : Ast.type_statement) : dres rst :=
  do (n, y, t1) <-
     match x with
     | Ast.TSInterface _ i items =>
       do (j, t1) <- interface_body (r_root s) pkgs (r_types s) (Some (item_id pn (name_of i))) items ;;
       DOk (name_of i, TInterface j, t1)
     | Ast.TSWorld _ i items =>
       do (j, t1) <- world_body (r_root s) pkgs (r_types s) (Some (item_id pn (name_of i))) items ;;
       DOk (name_of i, TWorld j, t1)
     | Ast.TSType d =>
       match d with
       | Ast.DResource _ _ _ => DUnmodelled     (* [TypeDecl] has no resource case *)
       | _ => do (y, t1) <- plain_decl (r_root s) (r_types s) d ;; DOk (decl_name d, y, t1)
       end
     end ;;
  (* define_type: ExportConflict; then register_name *)
  if mem n (r_exports s) then DErr EDeclarationConflict else
  do root1 <- register (r_root s) n y ;;
  DOk (mkrst root1 t1 (r_exports s ++ [n]) (r_defs s ++ [(n, KType y)])).

Fixpoint statements_go (pn : Ast.package_name) (pkgs : pkgtab) (s : rst) (l : list Ast.statement) : dres rst :=
  match l with
  | [] => DOk s
  | Ast.SType x :: rest => do s1 <- type_statement pn pkgs s x ;; statements_go pn pkgs s1 rest
  | _ :: _ => DUnmodelled
  end.

Definition resolve_document (ext : list (str * ty)) (t0 : types) (d : Ast.document) : dres rst :=
  let pn := Ast.pd_package (Ast.doc_directive d) in
  match Ast.pd_targets (Ast.doc_directive d) with
  | Some _ => DUnmodelled
  | None => statements_go pn (mkpkgs (Ast.pn_name pn) ext) (mkrst [] t0 [] []) (Ast.doc_statements d)
  end.
